"""C16 -- IndividualParameters.  Under contract (deductively): add_individual_parameters (the validation every conversion
goes through: from_dataframe, from_pytorch, subset all build their result with it), the row / column construction of
to_dataframe, and the tensor layout of to_pytorch / from_pytorch.  pandas (DataFrame construction, CSV text) and the
json module are outside the verifier's subset: the file round trips are decided by the bounded stand-in only.

Structure (which parameters exist and whether each value is a scalar or a list) is split into finite cases; the
identifier, the already stored identifiers (any number), every value and every vector length are symbolic."""
import itertools

import numpy as np
import z3

from pyvc.api import *
from pyvc.core import Symbolic
from pyvc.coll import SSeq, SMap, member_formula as member

PD = z3.DeclareSort("ParamDict")


def InputErr():
    from leaspy.exceptions import LeaspyIndividualParamsInputError
    return LeaspyIndividualParamsInputError


def pd_codec(cx):
    """per-individual dictionaries are stored in the symbolic map as opaque constants; the registry (ghost) remembers
    which python dict each constant stands for"""
    reg = cx.ghost.setdefault("pd_registry", [])

    def unwrap(v):
        if isinstance(v, SV) and v.kind == "u:PD":
            return v.e
        if isinstance(v, dict):
            c = z3.Const(cx.fresh_name("pd"), PD)
            reg.append((c, v))
            return c
        raise OutOfSubset(f"{type(v).__name__} stored as an individual's parameters")

    return Codec(PD, wrap=lambda e: SV(e, "u:PD"), unwrap=unwrap, name="one individual's parameters")


# value kinds of one entry of the dictionary handed to add_individual_parameters
GOOD = ("float", "int", "list1", "list2", "listN")
BAD = ("str", "bool", "none", "list0", "liststr")
NAMES = ("xi", "sources")


def make_value(cx, kind, tag):
    if kind == "float":
        return cx.real(f"{tag}_v")
    if kind == "int":
        return cx.int(f"{tag}_v")
    if kind == "str":
        return cx.str(f"{tag}_v")
    if kind == "bool":
        return SV(z3.Bool(f"{tag}_v"), "bool")
    if kind == "none":
        return None
    if kind == "list0":
        return []
    if kind == "list1":
        return [cx.real(f"{tag}_v0")]
    if kind == "list2":
        return [cx.real(f"{tag}_v0"), cx.int(f"{tag}_v1")]
    if kind == "liststr":
        return [cx.str(f"{tag}_v0"), cx.real(f"{tag}_v1")]
    if kind == "listN":
        return SSeq(cx, REAL, f"{tag}_vs", pytype=list)
    raise AssertionError(kind)


def shape_of(kind, v):
    """the shape the property's statement gives to a value: () for a scalar, (length,) for a list"""
    if kind in ("float", "int", "str", "bool", "none"):
        return ()
    if kind == "listN":
        return (v.length,)
    return (z3.IntVal(len(v)),)


PRIORS = ("empty", "scalar+vec2", "vec1+vecM", "only-xi")


def prior_shapes(cx, prior):
    if prior == "empty":
        return None
    if prior == "scalar+vec2":
        return {"xi": (), "sources": (2,)}
    if prior == "vec1+vecM":
        return {"xi": (1,), "sources": (cx.int("M"),)}
    return {"xi": ()}


def zi(v):
    return v if isinstance(v, z3.ExprRef) else z(v, "int")


def shapes_equal(a, b):
    """z3 formula: two shape dicts are the same (python structure, symbolic lengths)"""
    if set(a) != set(b):
        return z3.BoolVal(False)
    conj = []
    for k in a:
        if len(a[k]) != len(b[k]):
            return z3.BoolVal(False)
        conj += [zi(x) == zi(y) for x, y in zip(a[k], b[k])]
    return z3.And(*conj) if conj else z3.BoolVal(True)


class AddIndividualParameters(Spec):
    """add_individual_parameters(index, d): LeaspyIndividualParamsInputError iff the identifier is not a string, is
    already present, d is not a dictionary, some value has an unsupported type, or the shapes differ from the shapes of the
    earlier entries; a refused call writes nothing.  Otherwise the identifier is appended (order of the others kept), the
    dictionary stored under it holds exactly the given values, no other individual changes, and the shared shapes are the
    shapes of d."""
    target = "leaspy.io.outputs.individual_parameters:IndividualParameters.add_individual_parameters"
    max_paths = 400

    def configs(self):
        out = []
        for prior in PRIORS:
            for kx, ks in itertools.product(GOOD + BAD, repeat=2):
                if kx in BAD and ks in BAD and (kx, ks) != ("str", "list0"):
                    continue
                out.append(dict(index="str", arg="dict", prior=prior, xi=kx, sources=ks))
            out.append(dict(index="str", arg="dict", prior=prior, xi="float", sources="absent"))
            out.append(dict(index="int", arg="dict", prior=prior, xi="float", sources="list2"))
            out.append(dict(index="str", arg="list", prior=prior, xi="float", sources="list2"))
            out.append(dict(index="str", arg="dict+extra", prior=prior, xi="float", sources="list2"))
        return out

    def cfg_label(self, cfg):
        return f"index={cfg['index']},arg={cfg['arg']},prior={cfg['prior']},xi={cfg['xi']},sources={cfg['sources']}"

    def setup(self, cx, cfg):
        from leaspy.io.outputs.individual_parameters import IndividualParameters
        ids = SSeq(cx, STR, "ids", pytype=list)
        codec = pd_codec(cx)
        store = SMap(cx, STR, codec, "store")
        prior = prior_shapes(cx, cfg["prior"])
        s = SymObj(IndividualParameters, dict(_indices=ids, _individual_parameters=store, _parameters_shape=prior,
                                              _default_saving_type="csv"))
        index = cx.str("index") if cfg["index"] == "str" else cx.int("index")
        d = {}
        for name in NAMES:
            if cfg[name] != "absent":
                d[name] = make_value(cx, cfg[name], name)
        if cfg["arg"] == "dict+extra":
            d["tau"] = cx.real("tau_v")
        arg = d if cfg["arg"] != "list" else list(d.items())
        cx.ghost["c16"] = dict(ids=(ids.length, ids.arr), prior=prior, index=index, d={k: (list(v) if isinstance(v, list) else v) for k, v in d.items()},
                               as_list=cfg["arg"] == "list")
        return dict(args=(s, index, arg), self=s, ids=ids, ids0=(ids.length, ids.arr), store=store,
                    store0=store.snapshot(), prior=prior, index=index, d=d, d0={k: (list(v) if isinstance(v, list) else v) for k, v in d.items()})

    def pre(self, cx, st):
        ids, store = st["ids"], st["store"]
        x = z3.String("x_pre")
        pre = [("number of stored individuals", ids.length >= 0),
               ("class invariant: the stored dictionaries are exactly those of the listed identifiers",
                z3.ForAll([x], store.has(x) == member(ids, x)))]
        if st["cfg"]["prior"] == "empty":
            pre.append(("class invariant: no shapes yet means no individual yet", ids.length == 0))
        if st["prior"] is not None:
            for k, shp in st["prior"].items():
                pre += [(f"shape of {k} is a length", zi(n) >= 0) for n in shp]
        for k, v in st["d"].items():
            if isinstance(v, SSeq):
                pre.append((f"length of {k}", v.length >= 0))
        return pre

    def new_shapes(self, st):
        cfg = st["cfg"]
        return {k: shape_of(cfg[k] if k in cfg else "float", v) for k, v in st["d"].items()}

    def rejected(self, cx, st):
        cfg = st["cfg"]
        ids0_len, ids0_arr = st["ids0"]
        conds = []
        if cfg["index"] != "str":
            conds.append(z3.BoolVal(True))          # non-string identifier
        else:
            j = z3.Int("j_dup")
            conds.append(z3.Exists([j], z3.And(0 <= j, j < ids0_len, z3.Select(ids0_arr, j) == st["index"].e)))   # duplicate
        if cfg["arg"] == "list":
            conds.append(z3.BoolVal(True))          # not a dictionary
        for k in NAMES:                            # unsupported value type
            kind = cfg[k]
            if kind in BAD:
                conds.append(z3.BoolVal(True))
            if kind == "listN":
                conds.append(st["d0"][k].length == 0)   # an empty list has no scalar type
        if st["prior"] is not None and cfg["arg"] != "list":
            conds.append(z3.Not(shapes_equal(st["prior"], self.new_shapes(st))))   # inconsistent with the earlier entries
        return z3.Or(*conds)

    def raises(self, cx, st):
        return [(InputErr(), self.rejected(cx, st))]

    def frame(self, cx, st):
        s = st["self"]
        return [("sseq", id(st["ids"]), None), ("smap", id(st["store"]), None), loc_field(s, "_parameters_shape")]

    def frame_on_raise(self, cx, st):
        return []

    def post(self, cx, st, out):
        s, ids, store = st["self"], st["ids"], st["store"]
        n0, arr0 = st["ids0"]
        idx = st["index"].e
        j = z3.Int("j_post")
        x = z3.String("x_post")
        res = [("the container still holds its own list and map", z3.BoolVal(s.f["_indices"] is ids and s.f["_individual_parameters"] is store)),
               ("identifier appended, order of the others kept",
                z3.And(ids.length == n0 + 1, ids.at(n0) == idx,
                       z3.ForAll([j], z3.Implies(z3.And(0 <= j, j < n0), ids.at(j) == z3.Select(arr0, j))))),
               ("no other individual's dictionary changes",
                z3.ForAll([x], z3.Implies(x != idx, z3.And(store.has(x) == st["store0"].has(x), store.at(x) == st["store0"].at(x))))),
               ("the new individual is stored", store.has(idx))]
        # the stored dictionary: exactly the given names and values
        reg = cx.ghost.get("pd_registry", [])
        stored = [dct for c, dct in reg if cx.check(z3.Not(store.at(idx) == c)) == z3.unsat]
        ok_vals = z3.BoolVal(False)
        if len(stored) == 1 and set(stored[0]) == set(st["d0"]):
            conj = []
            for k, v0 in st["d0"].items():
                v1 = stored[0][k]
                if isinstance(v0, SSeq):
                    conj.append(z3.BoolVal(isinstance(v1, SSeq)) if not isinstance(v1, SSeq) else
                                z3.And(v1.length == v0.length, z3.ForAll([j], z3.Implies(z3.And(0 <= j, j < v0.length), v1.at(j) == v0.at(j)))))
                elif isinstance(v0, list):
                    conj.append(z3.BoolVal(isinstance(v1, list) and len(v1) == len(v0)))
                    if isinstance(v1, list) and len(v1) == len(v0):
                        conj += [z(a) == z(b) for a, b in zip(v1, v0)]
                else:
                    conj.append(z3.BoolVal(isinstance(v1, SV)) if not isinstance(v1, SV) else z(v1) == z(v0))
            ok_vals = z3.And(*conj)
        res.append(("the stored dictionary has exactly the given names, shapes and values", ok_vals))
        shp = s.f["_parameters_shape"]
        want = self.new_shapes(st) if st["prior"] is None else st["prior"]
        res.append(("the shared shapes are the shapes of every stored entry",
                    shapes_equal(shp, want) if isinstance(shp, dict) else z3.BoolVal(False)))
        return res


    def replay(self, model, ob):
        """the counterexample on the real class: concrete identifiers / values from the solver's model, the statement's
        clauses evaluated natively"""
        import copy
        from pyvc.replay import zval
        from leaspy.io.outputs.individual_parameters import IndividualParameters
        g = ob.meta["cx"].ghost["c16"]
        n = min(int(zval(model, g["ids"][0])), 6)
        ids = [zval(model, z3.Select(g["ids"][1], z3.IntVal(q))) for q in range(n)]

        def conc(v):
            if isinstance(v, SSeq):
                ln = min(int(zval(model, v.length)), 6)
                return [float(zval(model, v.at(z3.IntVal(q)))) for q in range(ln)]
            if isinstance(v, list):
                return [conc(x) for x in v]
            if isinstance(v, SV):
                r = zval(model, v.e)
                return float(r) if v.kind == "real" else r
            return v
        prior = None if g["prior"] is None else {k: tuple(int(conc(x)) if not isinstance(x, int) else x for x in shp) for k, shp in g["prior"].items()}
        filler = {} if prior is None else {k: (0.5 if shp == () else [0.5] * shp[0]) for k, shp in prior.items()}
        ip = IndividualParameters()
        ip._indices = list(ids)
        ip._individual_parameters = {i: copy.deepcopy(filler) for i in ids}
        ip._parameters_shape = prior
        index = conc(g["index"])
        d = {k: conc(v) for k, v in g["d"].items()}
        arg = list(d.items()) if g["as_list"] else d
        before = copy.deepcopy((ip._indices, ip._individual_parameters, ip._parameters_shape))
        ok_types = (int, float)
        bad_value = any((type(v) not in ok_types) if not isinstance(v, list) else (len(v) == 0 or type(v[0]) not in ok_types) for v in d.values())
        shapes = {k: ((len(v),) if isinstance(v, list) else ()) for k, v in d.items()}
        must_reject = (not isinstance(index, str)) or index in ids or g["as_list"] or bad_value or (prior is not None and prior != shapes)
        rec = {"input": {"stored identifiers": ids, "stored shapes": str(prior), "index": index, "individual_parameters": str(arg)},
               "statement": f"the addition must be {'rejected' if must_reject else 'accepted'}"}
        try:
            ip.add_individual_parameters(index, copy.deepcopy(arg))
            raised = None
        except Exception as e:
            raised = type(e).__name__
        after = (ip._indices, ip._individual_parameters, ip._parameters_shape)
        problems = []
        if must_reject and raised is None:
            problems.append("accepted although the statement rejects it")
        if not must_reject and raised is not None:
            problems.append(f"rejected ({raised}) although valid")
        if raised is not None and after != before:
            problems.append("a refused addition changed the container")
        if raised is not None and raised != "LeaspyIndividualParamsInputError":
            problems.append(f"raised {raised}")
        if raised is None and not must_reject:
            if after[0] != before[0] + [index] or after[1].get(index) != d or any(after[1][i] != before[1][i] for i in ids) \
                    or after[2] != (shapes if prior is None else prior):
                problems.append("stored state differs from the statement")
        rec["observed"] = {"raised": raised, "identifiers": after[0], "shapes": str(after[2])}
        rec["confirmed"] = bool(problems)
        rec["note"] = "; ".join(problems) or "the real call satisfies the statement on this input"
        return rec


# ------------------------------------------------------------------------------------------------------------------
# stored containers with any number of individuals: the per-individual dictionaries are read through accessor functions
SHAPE_CASES = {"scalars": {"xi": (), "tau": ()},
               "vectors": {"xi": (1,), "tau": (1,), "sources": (2,)},
               "mixed": {"tau": (), "sources": (3,), "w": (1,)}}
VAL = {}


def val_fn(p):
    if p not in VAL:
        VAL[p] = z3.Function(f"value_{p}", PD, z3.IntSort(), z3.RealSort())
    return VAL[p]


def structured_codec(shapes, order=None):
    """one individual's dictionary: the container guarantees its key SET and value shapes, not the ORDER of its keys (dictionaries with the
    same keys in another order are accepted by add_individual_parameters); `order` is the key order of the dictionaries read in this
    configuration -- units that read stored dictionaries run once per permutation of the keys"""
    keys = list(shapes) if order is None else [list(shapes)[k] for k in order]

    def wrap(e):
        return {p: (SV(val_fn(p)(e, z3.IntVal(0)), "real") if shapes[p] == () else
                    [SV(val_fn(p)(e, z3.IntVal(q)), "real") for q in range(shapes[p][0])]) for p in keys}

    def unwrap(v):
        if isinstance(v, SV) and v.kind == "u:PD":
            return v.e
        raise OutOfSubset("a dictionary stored into the container by the function under contract")
    return Codec(PD, wrap=wrap, unwrap=unwrap, name="one individual's parameters")


def key_orders(shapes):
    import itertools as _it
    return [list(p) for p in _it.permutations(range(len(shapes)))]


def stored_container(cx, shapes, order=None):
    from leaspy.io.outputs.individual_parameters import IndividualParameters
    ids = SSeq(cx, STR, "ids", pytype=list)
    store = SMap(cx, STR, structured_codec(shapes, order), "store")
    s = SymObj(IndividualParameters, dict(_indices=ids, _individual_parameters=store, _parameters_shape=dict(shapes),
                                          _default_saving_type="csv"))
    return s, ids, store


def container_invariant(ids, store):
    j = z3.Int("j_inv")
    return [("number of individuals", ids.length >= 0),
            ("class invariant: every listed identifier has its dictionary",
             z3.ForAll([j], z3.Implies(z3.And(0 <= j, j < ids.length), store.has(ids.at(j)))))]


def size_of(shp):
    return 1 if shp == () else shp[0]


class ToPytorch(Spec):
    """to_pytorch(): returns the identifiers in their stored order and, per parameter, a float 2-D tensor with one row per
    individual -- row i holds the values of the i-th identifier, scalars as one column, vectors as their components."""
    target = "leaspy.io.outputs.individual_parameters:IndividualParameters.to_pytorch"

    def configs(self):
        return [dict(shapes=k, key_order="".join(map(str, o))) for k in SHAPE_CASES for o in key_orders(SHAPE_CASES[k])]

    def setup(self, cx, cfg):
        shapes = SHAPE_CASES[cfg["shapes"]]
        s, ids, store = stored_container(cx, shapes, [int(c) for c in cfg["key_order"]])
        cx.ghost["c16tp"] = dict(ids=ids, shapes=shapes)
        return dict(args=(s,), self=s, ids=ids, store=store, shapes=shapes)

    def pre(self, cx, st):
        return container_invariant(st["ids"], st["store"])

    def frame(self, cx, st):
        return []

    def post(self, cx, st, out):
        from pyvc.tensor import STensor, dim_z3
        ids, store, shapes = st["ids"], st["store"], st["shapes"]
        v = out.value
        ok = isinstance(v, tuple) and len(v) == 2 and isinstance(v[1], dict)
        res = [("returns (identifiers, dictionary of tensors)", z3.BoolVal(ok))]
        if not ok:
            return res
        got_ids, d = v
        res.append(("identifiers as stored, in order", z3.BoolVal(got_ids is ids) if not isinstance(got_ids, SSeq) or got_ids is ids else
                    z3.And(got_ids.length == ids.length, got_ids.arr == ids.arr)))
        res.append(("one tensor per parameter, same names and order", z3.BoolVal(list(d) == list(shapes))))
        i = z3.Int("i_row")
        for p, shp in shapes.items():
            t = d.get(p)
            if not isinstance(t, STensor) or t.ndim != 2:
                res.append((f"{p}: a 2-D tensor", z3.BoolVal(False)))
                continue
            res.append((f"{p}: float tensor with one row per individual and one column per component",
                        z3.And(z3.BoolVal(t.dtype == "real"), dim_z3(t.shape_[0]) == ids.length, dim_z3(t.shape_[1]) == size_of(shp))))
            for q in range(size_of(shp)):
                res.append((f"{p}[i, {q}] is component {q} of the i-th identifier's value",
                            z3.ForAll([i], z3.Implies(z3.And(0 <= i, i < ids.length),
                                                      t.fn((i, z3.IntVal(q))) == val_fn(p)(store.at(ids.at(i)), z3.IntVal(q))))))
        return res


def to_pytorch_replay(self, model, ob):
    import torch
    g = ob.meta["cx"].ghost["c16tp"]
    shapes = g["shapes"]
    ids, ip = native_container(model, g["ids"], shapes)
    try:
        got_ids, d = ip.to_pytorch()
    except Exception as e:
        return {"confirmed": True, "input": {"identifiers": ids, "shapes": str(shapes)}, "note": f"to_pytorch raised {type(e).__name__}: {e}"}
    problems = []
    if list(got_ids) != ids:
        problems.append(f"identifiers {got_ids} instead of {ids}")
    if list(d) != list(shapes):
        problems.append(f"parameters {list(d)} instead of {list(shapes)}")
    else:
        for p, shp in shapes.items():
            want = torch.tensor([flat_value(ip._individual_parameters[sid][p]) for sid in ids], dtype=torch.float32)
            if d[p].dtype != torch.float32 or d[p].shape != want.shape or not torch.equal(d[p], want):
                problems.append(f"{p}: {d[p].tolist()} instead of {want.tolist()}")
    return {"confirmed": bool(problems), "input": {"identifiers": ids, "shapes": str(shapes), "values": str(ip._individual_parameters)[:400]},
            "observed": {p: t.tolist() for p, t in d.items()},
            "note": "; ".join(problems) or "the real call satisfies the statement on this input"}


ToPytorch.replay = to_pytorch_replay


class AddProbe(Spec):
    """call-site probe for add_individual_parameters inside the conversions: records (identifier, dictionary); what the call
    does to the container is AddIndividualParameters' contract"""
    target = "leaspy.io.outputs.individual_parameters:IndividualParameters.add_individual_parameters"

    def bind(self, it, args, kwargs):
        return dict(args=args, kwargs=kwargs)

    def havoc(self, cx, st):
        cx.ghost.setdefault("adds", []).append(st["args"])


def from_pytorch_iter_pre(cx, env, k, view):
    return len(cx.ghost.get("adds", []))


def from_pytorch_iter_post(cx, env, snap, k, view):
    from pyvc.tensor import STensor
    g = cx.ghost
    calls = g.get("adds", [])[snap:]
    res = [("exactly one addition per identifier", z3.BoolVal(len(calls) == 1))]
    if len(calls) != 1:
        return res
    ip, idx, d = calls[0]
    res.append(("added under the k-th identifier", z(idx) == g["indices"].at(k) if isinstance(idx, SV) and idx.kind == "str" else z3.BoolVal(False)))
    res.append(("added to the container that is returned", z3.BoolVal(ip is env.get("ip"))))
    tens = g["tensors"]
    res.append(("same parameter names, same order", z3.BoolVal(isinstance(d, dict) and list(d) == list(tens))))
    if isinstance(d, dict) and list(d) == list(tens):
        for p, t in tens.items():
            v = d[p]
            size = t.shape_[1]
            ok = isinstance(v, list) and len(v) == size
            res.append((f"{p}: a list with the row's {size} component(s)", z3.BoolVal(ok)))
            if ok:
                res += [(f"{p}[{q}] is entry [k, {q}] of the tensor", z(v[q], "real") == t.elem_real((k, z3.IntVal(q)))) for q in range(size)]
    return res


class FromPytorch(Spec):
    """from_pytorch(indices, tensors): LeaspyIndividualParamsInputError iff some tensor's number of rows differs from the
    number of identifiers; otherwise, for every position k, exactly one addition -- identifier k with row k of every tensor
    (as lists, names and order kept) -- to the container that is returned.  (Additions refused by add_individual_parameters'
    own contract, e.g. a duplicated identifier, propagate.)"""
    target = "leaspy.io.outputs.individual_parameters:IndividualParameters.from_pytorch"
    loops = {("IndividualParameters.from_pytorch", 1): LoopSpec(lambda cx, env, k, view: [], modifies=lambda cx, env: [],
                                                                iter_pre=from_pytorch_iter_pre, iter_post=from_pytorch_iter_post)}

    def configs(self):
        return [dict(shapes=k) for k in SHAPE_CASES]

    def setup(self, cx, cfg):
        from pyvc.tensor import STensor
        shapes = SHAPE_CASES[cfg["shapes"]]
        indices = SSeq(cx, STR, "indices", pytype=list)
        tens = {p: STensor.sym(cx, f"T_{p}", (z3.Int(f"rows_{p}"), size_of(shp)), "real") for p, shp in shapes.items()}
        cx.ghost.update(indices=indices, tensors=tens)
        return dict(args=(indices, dict(tens)), indices=indices, tens=tens)

    def pre(self, cx, st):
        return [("number of identifiers", st["indices"].length >= 0)] + \
               [(f"rows of {p}", t.shape_[0] >= 0) for p, t in st["tens"].items()]

    def raises(self, cx, st):
        return [(InputErr(), z3.Or(*[t.shape_[0] != st["indices"].length for t in st["tens"].values()]))]

    def post(self, cx, st, out):
        from leaspy.io.outputs.individual_parameters import IndividualParameters
        v = out.value
        return [("returns a new container", z3.BoolVal(isinstance(v, SymObj) and v.cls is IndividualParameters))]


class RowRecorder(Symbolic):
    """the local list `arr` of to_dataframe: remembers the rows appended to it"""

    def __init__(self):
        self.rows = []

    def _getattr(self, it, name, node=None):
        from pyvc.models import SymCallable
        if name == "append":
            def append(it_, row):
                self.rows.append(row)
                it_.cx.log_write(("obj", id(self), None))
            return SymCallable(append, "list.append")
        raise OutOfSubset(f"list.{name} on the rows of the table")

    def _havoc(self, cx):
        pass


def expected_columns(shapes):
    """the statement's column naming: `name` for a one-component parameter (sources always numbered), else name_i"""
    cols = []
    for p, shp in shapes.items():
        if shp == () or (shp == (1,) and "source" not in p):
            cols.append(p)
        else:
            cols += [f"{p}_{q}" for q in range(shp[0])]
    return cols


def decode_column(name):
    """the table form's naming, read backwards: a trailing _<digits> is a component index"""
    stem, sep, comp = name.rpartition("_")
    return (stem, int(comp)) if sep and comp.isdigit() else (name, 0)


def columns_ok(names, shapes):
    cells = [(p, q) for p, shp in shapes.items() for q in range(size_of(shp))]
    return isinstance(names, list) and len(names) == 1 + len(cells) and names[0] == "ID" and \
        all(isinstance(n, str) and decode_column(n) == c for n, c in zip(names[1:], cells))


def flat_value(v):
    return [float(x) for x in v] if isinstance(v, list) else [float(v)]


def native_container(model, ids_sym, shapes, cap=4):
    """a real IndividualParameters with the number of individuals (and, where distinct, the identifiers) of the solver's
    model and pairwise different values"""
    from pyvc.replay import zval
    from leaspy.io.outputs.individual_parameters import IndividualParameters
    n = max(1, min(int(zval(model, ids_sym.length)), cap)) if model is not None else 3
    ids = []
    for q in range(n):
        sid = str(zval(model, ids_sym.at(z3.IntVal(q)))) if model is not None else ""
        if not sid or sid in ids or not sid.isprintable():
            sid = f"id{q}"
        ids.append(sid)
    ids = ids[::-1] if ids == sorted(ids) and n > 1 else ids      # not in sorted order
    ip = IndividualParameters()
    for i, sid in enumerate(ids):
        d = {}
        for c, (p, shp) in enumerate(shapes.items()):
            base = 100.0 * (c + 1) + 10.0 * i
            d[p] = base if shp == () else [base + q + 0.5 for q in range(shp[0])]
        ip.add_individual_parameters(sid, d)
    return ids, ip


def to_dataframe_iter_post(cx, env, snap, k, view):
    g = cx.ghost
    rec, ids, store, shapes = g["rows"], g["ids"], g["store"], g["shapes"]
    new = rec.rows[snap:]
    res = [("one row per identifier", z3.BoolVal(len(new) == 1))]
    if len(new) != 1:
        return res
    row = new[0]
    width = 1 + sum(size_of(shp) for shp in shapes.values())
    ok = isinstance(row, list) and len(row) == width
    res.append(("the row has the identifier and one cell per component", z3.BoolVal(ok)))
    if not ok:
        return res
    res.append(("first cell: the k-th identifier", z(row[0]) == ids.at(k) if isinstance(row[0], SV) and row[0].kind == "str" else z3.BoolVal(False)))
    pd_k = store.at(ids.at(k))
    c = 1
    for p, shp in shapes.items():
        for q in range(size_of(shp)):
            res.append((f"cell {c}: component {q} of {p} of the k-th identifier",
                        z(row[c], "real") == val_fn(p)(pd_k, z3.IntVal(q)) if isinstance(row[c], SV) else z3.BoolVal(False)))
            c += 1
    return res


class ToDataFrameRows(Spec):
    """to_dataframe(), statements from the loop over the identifiers to the column names (dropped: the `arr = []` before and
    the pandas construction `pd.DataFrame(arr, columns=final_names).set_index('ID')` after): one row per identifier, in
    stored order, holding that identifier and then every parameter's components in the shared-shape order; the column
    names follow the same order, `name` or `name_i`, one per cell."""
    target = "leaspy.io.outputs.individual_parameters:IndividualParameters.to_dataframe"
    fragment = (lambda t: t.startswith("for idx in self._indices"), lambda t: t.startswith("for p_name, p_shape in"))
    loops = {("IndividualParameters.to_dataframe", 0): LoopSpec(
        lambda cx, env, k, view: [], modifies=lambda cx, env: [cx.ghost["rows"]],
        iter_pre=lambda cx, env, k, view: len(cx.ghost["rows"].rows), iter_post=to_dataframe_iter_post)}

    def configs(self):
        return [dict(shapes=k, key_order="".join(map(str, o))) for k in SHAPE_CASES for o in key_orders(SHAPE_CASES[k])]

    def setup(self, cx, cfg):
        shapes = SHAPE_CASES[cfg["shapes"]]
        s, ids, store = stored_container(cx, shapes, [int(c) for c in cfg["key_order"]])
        rec = RowRecorder()
        cx.ghost.update(rows=rec, ids=ids, store=store, shapes=shapes)
        return dict(env={"self": s, "arr": rec}, self=s, ids=ids, store=store, shapes=shapes)

    def pre(self, cx, st):
        return container_invariant(st["ids"], st["store"])

    def post(self, cx, st, out):
        names = out.value.get("final_names")
        return [("column names: ID, then one per cell, each naming its parameter and component (name or name_i)",
                 z3.BoolVal(columns_ok(names, st["shapes"]))),
                ("column names are distinct", z3.BoolVal(isinstance(names, list) and len(set(names)) == len(names)))]

    def replay(self, model, ob):
        import pandas as pd
        g = ob.meta["cx"].ghost
        shapes = g["shapes"]
        ids, ip = native_container(model, g["ids"], shapes)
        try:
            df = ip.to_dataframe()
        except Exception as e:
            return {"confirmed": True, "input": {"identifiers": ids, "shapes": str(shapes)}, "note": f"to_dataframe raised {type(e).__name__}: {e}"}
        problems = []
        if list(df.index) != ids:
            problems.append(f"row labels {list(df.index)} instead of {ids}")
        if not columns_ok(["ID"] + list(df.columns), shapes):
            problems.append(f"columns {list(df.columns)} do not name the cells of {shapes}")
        else:
            for i, sid in enumerate(ids):
                want = [x for p in shapes for x in flat_value(ip._individual_parameters[sid][p])]
                if [float(x) for x in df.iloc[i].tolist()] != want:
                    problems.append(f"row of {sid}: {df.iloc[i].tolist()} instead of {want}")
        return {"confirmed": bool(problems), "input": {"identifiers": ids, "shapes": str(shapes), "values": str(ip._individual_parameters)[:400]},
                "observed": {"columns": list(df.columns), "rows": df.reset_index().values.tolist()[:6]},
                "note": "; ".join(problems) or "the real call satisfies the statement on this input"}


def from_pytorch_replay(self, model, ob):
    import torch
    from pyvc.replay import zval
    from leaspy.io.outputs.individual_parameters import IndividualParameters
    g = ob.meta["cx"].ghost
    tens = g["tensors"]
    n = min(int(zval(model, g["indices"].length)), 4)
    rows = {p: min(int(zval(model, t.shape_[0])), 5) for p, t in tens.items()}
    ids = [f"id{n - q}" for q in range(n)]
    data = {p: torch.tensor([[100.0 * (c + 1) + 10.0 * i + q for q in range(t.shape_[1])] for i in range(rows[p])],
                            dtype=torch.float32).reshape(rows[p], t.shape_[1]) for c, (p, t) in enumerate(tens.items())}
    must_reject = any(r != n for r in rows.values())
    rec = {"input": {"indices": ids, "tensors": {p: v.tolist() for p, v in data.items()}},
           "statement": "must be rejected (row counts differ from the number of identifiers)" if must_reject else "must be converted"}
    try:
        ip = IndividualParameters.from_pytorch(ids, data)
        raised = None
    except Exception as e:
        raised = type(e).__name__
    problems = []
    if must_reject and raised is None:
        problems.append("accepted although a tensor's number of rows differs from the number of identifiers")
    if not must_reject and raised is not None:
        problems.append(f"raised {raised} on a valid input")
    if raised is None and not must_reject:
        if ip._indices != ids:
            problems.append(f"identifiers {ip._indices} instead of {ids}")
        else:
            for i, sid in enumerate(ids):
                for p, v in data.items():
                    if list(ip._individual_parameters[sid]) != list(data) or flat_value(ip._individual_parameters[sid][p]) != v[i].tolist():
                        problems.append(f"{sid}.{p}: {ip._individual_parameters[sid].get(p)} instead of row {i} = {v[i].tolist()}")
    rec["observed"] = {"raised": raised} if raised else {"identifiers": ip._indices, "values": str(ip._individual_parameters)[:400]}
    rec["confirmed"] = bool(problems)
    rec["note"] = "; ".join(problems[:3]) or "the real call satisfies the statement on this input"
    return rec


FromPytorch.replay = from_pytorch_replay

UNITS = [AddIndividualParameters(), ToPytorch(), FromPytorch(), ToDataFrameRows()]

CALLEES = [AddProbe()]
ASSUMPTIONS = ["C16: numpy scalar types (np.int32/64, np.float32/64) behave like python int / float in the validation "
               "(type identity is checked by the stand-in over the six value types)",
               "C16: structure split: the dictionary has the entries xi / sources (/ one extra), each value one of "
               f"{GOOD + BAD}; identifiers, stored individuals, values and vector lengths are unbounded symbols"]
NOT_DECIDED = ["pandas DataFrame construction, CSV text and json round trips: bounded stand-in only"]
