"""C08 -- likelihood terms are the negative log-densities of the documented distributions.

Pointwise contracts on the real code (tensors of any size, the broadcasting layouts used by the models):
NormalFamily._nll / _nll_jacobian / _nll_and_jacobian, the right-censored Weibull families
(compute_log_survival, compute_log_likelihood_hazard, _nll, both reparametrisations of nu) and
JointModel._exp_neg_n_log_nu.  exp / log / real power are uninterpreted; the facts used about them are the
instances listed in `analysis_instances` (axiom table lemmas/axioms: exp>0, log(ab), log(a^b), 0^b)."""
import math

import z3

from pyvc.api import *
from pyvc.tensor import STensor, F_EXP, F_LOG, dim_z3
from pyvc import num

DIST = "leaspy.variables.distributions"
RPOW = z3.Function("rpow", z3.RealSort(), z3.RealSort(), z3.RealSort())


def WT(value, weight=None):
    from leaspy.utils.weighted_tensor import WeightedTensor
    return SymObj(WeightedTensor, dict(value=value, weight=weight))


n, v, f, k = z3.Ints("n_ind n_vis n_ft k")
LAYOUTS = {
    # name: (shape of x, shape of loc, shape of scale)          used by
    "obs_scalar_noise": ((n, v, f), (n, v, f), ()),              # y | model, noise_std (gaussian-scalar)
    "obs_diag_noise": ((n, v, f), (n, v, f), (f,)),               # y | model, noise_std (gaussian-diagonal)
    "ind_prior": ((n, 1), (1,), (1,)),                            # xi, tau
    "ind_prior_sources": ((n, k), (k,), ()),                      # sources
    "pop_prior_vec": ((f,), (f,), ()),                            # log_g, log_v0
    "pop_prior_mat": ((f, k), (f, k), ()),                        # betas
}


def bidx(idx, shape, out_rank):
    """index into an operand of `shape` for an output index (right-aligned broadcasting, size-1 -> 0)"""
    sub = idx[out_rank - len(shape):]
    return tuple(z3.IntVal(0) if (isinstance(d, int) and d == 1) else i for i, d in zip(sub, shape))


class NormalNll(Spec):
    """NormalFamily._nll(x, loc, scale)[e] = 1/2 ((x - loc)/scale)^2 + log(scale) + C entry by entry, with
    C = 1/2 log(2 pi) (checked numerically on the class constant), the weight of x passed through."""
    target = DIST + ":NormalFamily._nll"
    which = "nll"

    def configs(self):
        return [dict(layout=l, weighted=w) for l in LAYOUTS for w in (False, True)]

    def setup(self, cx, cfg):
        from leaspy.variables.distributions import NormalFamily
        sx, sl, ss = LAYOUTS[cfg["layout"]]
        x = STensor.sym(cx, "x", sx)
        w = STensor.sym(cx, "w", sx) if cfg["weighted"] else None
        loc, scale = STensor.sym(cx, "loc", sl), STensor.sym(cx, "scale", ss)
        xw = WT(x, w)
        return dict(args=(NormalFamily, xw, loc, scale), x=x, w=w, loc=loc, scale=scale, xw=xw, cls=NormalFamily)

    def pre(self, cx, st):
        s = st["scale"]
        idx = s.fresh_idx(cx, "s")
        pos = s.fn(idx) > 0
        p = [("scale > 0", z3.ForAll(list(idx), pos) if idx else pos)]
        if st["w"] is not None:
            wi = st["w"].fresh_idx(cx, "w")
            p.append(("weights are non-negative (invariant of WeightedTensor)", z3.ForAll(list(wi), st["w"].fn(wi) >= 0)))
        return p

    def expected(self, st, idx, what):
        x, loc, scale = st["x"], st["loc"], st["scale"]
        r = len(x.shape_)
        xe, le, se = x.fn(idx), loc.fn(bidx(idx, loc.shape_, r)), scale.fn(bidx(idx, scale.shape_, r))
        C = z3.RealVal(repr(float(st["cls"].nll_constant_standard)))
        zz = (xe - le) / se
        if what == "nll":
            return 0.5 * zz * zz + F_LOG(se) + C
        return (xe - le) / (se * se)

    def check_wt(self, cx, st, res, r, what, label):
        ok = isinstance(r, SymObj) and isinstance(r.f.get("value"), STensor)
        res.append((f"{label}: a weighted tensor", z3.BoolVal(ok)))
        if not ok:
            return
        val = r.f["value"]
        same_shape = len(val.shape_) == len(st["x"].shape_)
        res.append((f"{label}: shape of x", z3.BoolVal(same_shape)))
        res.append((f"{label}: weight of x passed through", z3.BoolVal(r.f["weight"] is st["w"])))
        if same_shape:
            idx = st["x"].fresh_idx(cx, "e")
            res.append((f"{label}: entry-wise formula", z3.ForAll(list(idx), z3.Implies(
                st["x"].in_range(idx), val.fn(idx) == self.expected(st, idx, what)))))

    def post(self, cx, st, out):
        res = []
        C = float(st["cls"].nll_constant_standard)
        res.append(("constant = 1/2 log(2 pi) (to single precision)", z3.BoolVal(abs(C - 0.5 * math.log(2 * math.pi)) < 1e-6)))
        if self.which == "both":
            ok = isinstance(out.value, tuple) and len(out.value) == 2
            res.append(("a pair", z3.BoolVal(ok)))
            if ok:
                self.check_wt(cx, st, res, out.value[0], "nll", "nll")
                self.check_wt(cx, st, res, out.value[1], "jac", "jacobian")
        else:
            self.check_wt(cx, st, res, out.value, self.which, self.which)
        return res


class NormalRegularization(NormalNll):
    """NormalFamily.regularization(x, loc, scale) -- the public entry point of the priors' regularity terms -- on a plain tensor:
    entry by entry the same 1/2 ((x - loc)/scale)^2 + log(scale) + C, for every prior layout (0-d, vector or matrix scale alike),
    carrying no weights."""
    target = DIST + ":NormalFamily.regularization"

    def configs(self):
        return [dict(layout=l, weighted=False) for l in ("ind_prior", "ind_prior_sources", "pop_prior_vec", "pop_prior_mat")]

    def setup(self, cx, cfg):
        d = NormalNll.setup(self, cx, cfg)
        d["args"] = (d["cls"], d["x"], d["loc"], d["scale"])          # a plain tensor, as the priors are evaluated
        return d


class NormalNllPublic(NormalNll):
    """NormalFamily.nll (the public entry point of the attachment terms): the same entry-wise formula, weights passed through."""
    target = DIST + ":NormalFamily.nll"


class NormalJac(NormalNll):
    """NormalFamily._nll_jacobian(x, loc, scale)[e] = (x - loc)/scale^2 (derivative of the density term in x)."""
    target = DIST + ":NormalFamily._nll_jacobian"
    which = "jac"


class NormalBoth(NormalNll):
    """NormalFamily._nll_and_jacobian agrees with _nll and _nll_jacobian."""
    target = DIST + ":NormalFamily._nll_and_jacobian"
    which = "both"


# ------------------------------------------------------------------------------------------------
ev = z3.Int("n_ev")


def weibull_setup(cx, cfg):
    import leaspy.variables.distributions as D
    cls = D.WeibullRightCensoredWithSourcesFamily if cfg["sources"] else D.WeibullRightCensoredFamily
    t = STensor.sym(cx, "t", (n, ev))
    d = STensor.sym(cx, "event", (n, ev), "bool")
    nu, rho = STensor.sym(cx, "nu", (ev,)), STensor.sym(cx, "rho", (ev,))
    xi, tau = STensor.sym(cx, "xi", (n, 1)), STensor.sym(cx, "tau", (n, 1))
    x = WT(t, d)
    args = [cls, x, nu, rho, xi, tau]
    sh = None
    if cfg["sources"]:
        sh = STensor.sym(cx, "shift", (n, ev))
        args.append(sh)
    return dict(args=tuple(args), cls=cls, t=t, d=d, nu=nu, rho=rho, xi=xi, tau=tau, sh=sh, x=x)


def weibull_terms(st, i, j):
    """scalar terms of the specification at entry (i, j)"""
    t, d = st["t"].fn((i, j)), st["d"].fn((i, j))
    nu, rho = st["nu"].fn((j,)), st["rho"].fn((j,))
    xi, tau = st["xi"].fn((i, z3.IntVal(0))), st["tau"].fn((i, z3.IntVal(0)))
    s = t - tau
    if st["sh"] is None:
        nup = nu * F_EXP(-xi)
        e_arg = -xi
    else:
        e_arg = -(xi + (1 / rho) * st["sh"].fn((i, j)))
        nup = nu * F_EXP(e_arg)
    return dict(t=t, d=d, nu=nu, rho=rho, xi=xi, tau=tau, s=s, nup=nup, e_arg=e_arg)


def analysis_instances(T):
    """instances (at the terms of this entry) of the real-analysis facts used; each is an instance of a
    universally valid statement about exp, log and the real power (lemmas/axioms table)"""
    s, nup, rho, e_arg = T["s"], T["nup"], T["rho"], T["e_arg"]
    a = rho / nup
    b = RPOW(s / nup, rho - 1)
    return [
        F_EXP(e_arg) > 0,                                                        # exp > 0
        z3.Implies(z3.And(a > 0, b > 0), F_LOG(a * b) == F_LOG(a) + F_LOG(b)),   # log(ab) = log a + log b
        z3.Implies(s / nup > 0, z3.And(b > 0, F_LOG(b) == (rho - 1) * F_LOG(s / nup))),   # a^b > 0, log(a^b) = b log a
        z3.Implies(rho > 0, RPOW(z3.RealVal(0) / nup, rho) == 0),                # 0^b = 0 for b > 0
        z3.Implies(rho > 0, RPOW(z3.RealVal(0), rho) == 0),
    ]


def weibull_pre(cx, st):
    j = z3.Int("j_pre")
    return [("nu > 0, rho > 0", z3.ForAll([j], z3.And(st["nu"].fn((j,)) > 0, st["rho"].fn((j,)) > 0)))]


INF = z3.RealVal(repr(float(10 ** 307)))


class WeibullLogSurvival(Spec):
    """compute_log_survival[i,j] = -(max(t - tau_i, 0) / nu')^rho with nu' = nu exp(-xi_i) (resp.
    nu exp(-(xi_i + shift_ij / rho)) with sources)."""
    target = DIST + ":AbstractWeibullRightCensoredFamily.compute_log_survival"

    def configs(self):
        return [dict(sources=False), dict(sources=True)]

    def setup(self, cx, cfg):
        return weibull_setup(cx, cfg)

    def pre(self, cx, st):
        return weibull_pre(cx, st)

    def post(self, cx, st, out):
        r = out.value
        ok = isinstance(r, STensor) and r.ndim == 2
        res = [("a tensor (n_individuals, n_events)", z3.BoolVal(ok))]
        if ok:
            i, j = z3.Ints("i j")
            T = weibull_terms(st, i, j)
            smax = z3.If(T["s"] > 0, T["s"], z3.RealVal(0))
            res.append(("log-survival formula", z3.ForAll([i, j], r.fn((i, j)) == -RPOW(smax / T["nup"], T["rho"]))))
        return res


class WeibullLogHazard(Spec):
    """compute_log_likelihood_hazard[i,j]: 0 for a censored individual; for an observed event after the
    reference time log(rho/nu') + (rho - 1) log((t - tau)/nu'); for an observed event at or before it the
    prohibitive finite value -1e307."""
    target = DIST + ":AbstractWeibullRightCensoredFamily.compute_log_likelihood_hazard"
    configs = WeibullLogSurvival.configs
    setup = WeibullLogSurvival.setup
    pre = WeibullLogSurvival.pre

    def post(self, cx, st, out):
        r = out.value
        ok = isinstance(r, STensor) and r.ndim == 2
        res = [("a tensor (n_individuals, n_events)", z3.BoolVal(ok))]
        if ok:
            i, j = z3.Ints("i j")
            T = weibull_terms(st, i, j)
            inst = z3.And(*analysis_instances(T))
            logh = F_LOG(T["rho"] / T["nup"]) + (T["rho"] - 1) * F_LOG(T["s"] / T["nup"])
            want = z3.If(T["d"], z3.If(T["s"] > 0, logh, -INF), z3.RealVal(0))
            res.append(("log-hazard term", z3.Implies(inst, r.fn((i, j)) == want)))
        return res


class WeibullNll(Spec):
    """_nll[i,j] = -(log S + delta log h): censored -> only the survival term; observed event after the
    reference time adds the log-hazard; observed event at or before it -> the finite penalty 1e307 (never
    NaN or infinity)."""
    target = DIST + ":AbstractWeibullRightCensoredFamily._nll"
    configs = WeibullLogSurvival.configs
    setup = WeibullLogSurvival.setup
    pre = WeibullLogSurvival.pre

    def post(self, cx, st, out):
        r = out.value
        ok = isinstance(r, SymObj) and isinstance(r.f.get("value"), STensor) and r.f["value"].ndim == 2
        res = [("a weighted tensor (n_individuals, n_events)", z3.BoolVal(ok))]
        if ok:
            val = r.f["value"]
            i, j = z3.Ints("i j")
            T = weibull_terms(st, i, j)
            inst = z3.And(*analysis_instances(T))
            smax = z3.If(T["s"] > 0, T["s"], z3.RealVal(0))
            logS = -RPOW(smax / T["nup"], T["rho"])
            logh = F_LOG(T["rho"] / T["nup"]) + (T["rho"] - 1) * F_LOG(T["s"] / T["nup"])
            e = val.fn((i, j))
            res.append(("censored: only the survival term", z3.Implies(z3.And(inst, z3.Not(T["d"])), e == -logS)))
            res.append(("observed event after the reference time: survival term + log-hazard",
                        z3.Implies(z3.And(inst, T["d"], T["s"] > 0), e == -(logS + logh))))
            res.append(("observed event at or before the reference time: the finite penalty 1e307",
                        z3.Implies(z3.And(inst, T["d"], T["s"] <= 0), e == INF)))
            res.append(("result carries no weight of its own (every entry counts)", z3.BoolVal(r.f["weight"] is None)))
        return res


class ReparamNu(Spec):
    """_extract_reparametrized_nu = nu exp(-xi) without sources, nu exp(-(xi + shift/rho)) with sources."""
    target = DIST + ":WeibullRightCensoredFamily._extract_reparametrized_nu"

    def setup(self, cx, cfg):
        st = weibull_setup(cx, dict(sources=False))
        st["args"] = (st["nu"], st["rho"], st["xi"], st["tau"])
        return st

    def post(self, cx, st, out):
        r = out.value
        ok = isinstance(r, STensor) and r.ndim == 2
        res = [("broadcast to (n_individuals, n_events)", z3.BoolVal(ok))]
        if ok:
            i, j = z3.Ints("i j")
            T = weibull_terms(st, i, j)
            res.append(("nu' = nu exp(-xi)", z3.ForAll([i, j], r.fn((i, j)) == T["nup"])))
        return res


class ReparamNuSources(ReparamNu):
    """with sources: nu' = nu exp(-(xi + shift/rho))."""
    target = DIST + ":WeibullRightCensoredWithSourcesFamily._extract_reparametrized_nu"

    def setup(self, cx, cfg):
        st = weibull_setup(cx, dict(sources=True))
        st["args"] = (st["nu"], st["rho"], st["xi"], st["tau"], st["sh"])
        return st


class ExpNegNLogNu(Spec):
    """JointModel._exp_neg_n_log_nu: nu = exp(-n_log_nu) entry-wise."""
    target = "leaspy.models.joint:JointModel._exp_neg_n_log_nu"

    def setup(self, cx, cfg):
        x = STensor.sym(cx, "n_log_nu", (ev,))
        return dict(args=(), kwargs=dict(n_log_nu=x), x=x)

    def post(self, cx, st, out):
        r = out.value
        ok = isinstance(r, STensor) and r.ndim == 1
        res = [("a vector", z3.BoolVal(ok))]
        if ok:
            j = z3.Int("j")
            res.append(("nu_j = exp(-n_log_nu_j)", z3.ForAll([j], r.fn((j,)) == F_EXP(-st["x"].fn((j,))))))
        return res


class MixtureNormalNll(Spec):
    """MixtureNormalFamily._nll(x, loc, scale, probs): the per-cluster Gaussian negative log-density of an individual value --
    entry (i, c) = 1/2 ((x_i - loc_c) / scale_c)^2 + log(scale_c) + C for tau / xi (one location and scale per cluster), and
    entry (i, k, c) = 1/2 ((x_ik - loc_kc) / scale)^2 + log(scale) + C for the sources (one location per source and cluster,
    a common scale); the weight of x passed through."""
    target = DIST + ":MixtureNormalFamily._nll"

    def configs(self):
        return [dict(var="tau-xi", clusters=2), dict(var="tau-xi", clusters=3), dict(var="sources", clusters=2)]

    def setup(self, cx, cfg):
        from leaspy.variables.distributions import MixtureNormalFamily
        n, C = z3.Int("n_ind"), cfg["clusters"]
        if cfg["var"] == "tau-xi":
            x = STensor.sym(cx, "x", (n, 1))
            loc, scale = STensor.sym(cx, "loc", (C,)), STensor.sym(cx, "scale", (C,))
        else:
            K = 2
            x = STensor.sym(cx, "x", (n, K))
            loc, scale = STensor.sym(cx, "loc", (K, C)), STensor.sym(cx, "scale", ())
        probs = STensor.sym(cx, "probs", (C,))
        xw = WT(x, None)
        return dict(args=(MixtureNormalFamily, xw, loc, scale, probs), x=x, loc=loc, scale=scale, n=n, C=C, cls=MixtureNormalFamily)

    def pre(self, cx, st):
        s = st["scale"]
        idx = s.fresh_idx(cx, "s")
        pos = s.fn(idx) > 0
        return [("scale > 0", z3.ForAll(list(idx), pos) if idx else pos), ("individuals", st["n"] >= 0)]

    def post(self, cx, st, out):
        r = out.value
        ok = isinstance(r, SymObj) and isinstance(r.f.get("value"), STensor)
        res = [("a weighted tensor", z3.BoolVal(ok))]
        if not ok:
            return res
        val, x, loc, scale, C = r.f["value"], st["x"], st["loc"], st["scale"], st["C"]
        Cst = z3.RealVal(repr(float(st["cls"].nll_constant_standard)))
        res.append(("constant = 1/2 log(2 pi) (to single precision)", z3.BoolVal(abs(float(st["cls"].nll_constant_standard) - 0.5 * math.log(2 * math.pi)) < 1e-6)))
        res.append(("weight of x passed through", z3.BoolVal(r.f["weight"] is None)))
        i = z3.Int("i_m")
        if st["cfg"]["var"] == "tau-xi":
            res.append(("shape (individuals, clusters)", z3.BoolVal(val.ndim == 2) if val.ndim != 2 else z3.And(dim_z3(val.shape_[0]) == st["n"], dim_z3(val.shape_[1]) == C)))
            if val.ndim == 2:
                for c in range(C):
                    se = scale.fn((z3.IntVal(c),))
                    zz = (x.fn((i, z3.IntVal(0))) - loc.fn((z3.IntVal(c),))) / se
                    res.append((f"cluster {c}: 1/2 ((x_i - loc_c)/scale_c)^2 + log(scale_c) + C",
                                z3.ForAll([i], z3.Implies(z3.And(0 <= i, i < st["n"]), val.fn((i, z3.IntVal(c))) == 0.5 * zz * zz + F_LOG(se) + Cst))))
        else:
            res.append(("shape (individuals, sources, clusters)", z3.BoolVal(val.ndim == 3)))
            if val.ndim == 3:
                se = scale.fn(())
                for k in range(2):
                    for c in range(C):
                        zz = (x.fn((i, z3.IntVal(k))) - loc.fn((z3.IntVal(k), z3.IntVal(c)))) / se
                        res.append((f"source {k}, cluster {c}: Gaussian negative log-density",
                                    z3.ForAll([i], z3.Implies(z3.And(0 <= i, i < st["n"]), val.fn((i, z3.IntVal(k), z3.IntVal(c))) == 0.5 * zz * zz + F_LOG(se) + Cst))))
        return res


class BernoulliNll(Spec):
    """BernoulliFamily._nll(x, p): at every entry that counts, minus the library's Bernoulli log-density of the stored value x[e]
    under p[e] (torch.distributions.Bernoulli.log_prob, an uninterpreted function here; its closed form is checked by the stand-in),
    the weight of x passed through unchanged, and nothing stored at an entry without weight influences the result (two runs)."""
    target = DIST + ":BernoulliFamily._nll"

    def configs(self):
        return [dict(weighted=w) for w in (True, False)]

    def setup(self, cx, cfg):
        from leaspy.variables.distributions import BernoulliFamily
        x = STensor.sym(cx, "x", (n, v, f))
        w = STensor.sym(cx, "w", (n, v, f)) if cfg["weighted"] else None
        p_ = STensor.sym(cx, "p", (n, v, f))
        xw = WT(x, w)
        return dict(args=(BernoulliFamily, xw, p_), x=x, w=w, p=p_, xw=xw)

    def pre(self, cx, st):
        if st["w"] is None:
            return []
        wi = st["w"].fresh_idx(cx, "w")
        return [("weights are non-negative (invariant of WeightedTensor)", z3.ForAll(list(wi), st["w"].fn(wi) >= 0))]

    def post(self, cx, st, out):
        from pyvc.tensor import F_BERN_LOGP
        r = out.value
        ok = isinstance(r, SymObj) and isinstance(r.f.get("value"), STensor) and r.f["value"].ndim == 3
        res = [("a weighted tensor with the layout of x", z3.BoolVal(bool(ok)))]
        if not ok:
            return res
        res.append(("weight of x passed through", z3.BoolVal(r.f["weight"] is st["w"])))
        idx = st["x"].fresh_idx(cx, "e")
        counted = st["w"].fn(idx) != 0 if st["w"] is not None else z3.BoolVal(True)
        res.append(("at every entry that counts (non-zero weight): minus the Bernoulli log-density of the stored value", z3.ForAll(list(idx), z3.Implies(
            z3.And(st["x"].in_range(idx), counted), r.f["value"].fn(idx) == -F_BERN_LOGP(st["x"].fn(idx), st["p"].fn(idx))))))
        if st["w"] is not None:
            # ... and what is stored at an entry without weight is not looked at: a second run with other numbers there gives the same result
            x2 = STensor.sym(cx, "x_other", st["x"].shape_)
            cx.assume(z3.ForAll(list(idx), z3.Implies(st["w"].fn(idx) != 0, x2.fn(idx) == st["x"].fn(idx))))
            r2 = cx.it.call(resolve(self.target), (st["args"][0], WT(x2, st["w"]), st["p"]), {})
            ok2 = isinstance(r2, SymObj) and isinstance(r2.f.get("value"), STensor)
            res.append(("the result does not depend on what is stored at entries without weight",
                        z3.ForAll(list(idx), z3.Implies(st["x"].in_range(idx), r2.f["value"].fn(idx) == r.f["value"].fn(idx))) if ok2 else z3.BoolVal(False)))
        return res


UNITS = [BernoulliNll(), MixtureNormalNll(), NormalNll(), NormalNllPublic(), NormalRegularization(), NormalJac(), NormalBoth(), WeibullLogSurvival(), WeibullLogHazard(), WeibullNll(),
         ReparamNu(), ReparamNuSources(), ExpNegNLogNu()]
CALLEES = []
ASSUMPTIONS = [
    "exp, log and the real power are uninterpreted; only the instances in contracts/c08.analysis_instances are used (exp > 0, log(ab) = log a + log b, log(a^b) = b log a and a^b > 0 for a > 0, 0^b = 0 for b > 0)",
    "Bernoulli: StatelessDistributionFamilyFromTorchDistribution._nll delegates to torch.distributions (assumed x log p + (1-x) log(1-p)); only compared on a grid by the stand-in",
    "real arithmetic: 1e307 - log S is the penalty exactly; in float64 the sum of >= 18 such penalties overflows (aggregation, outside 'entry by entry')",
]
NOT_DECIDED = ["Bernoulli log-density itself (library function)", "IEEE behaviour for extreme xi (exp underflow makes nu' = 0)"]
