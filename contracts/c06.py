"""C06 -- missing and padded observations never influence any result.

Non-interference contracts (two symbolic runs of the real code):
  * WeightedTensor.wsum / sum / weighted_value / filled and _apply_operation: results depend on the values only
    where the weight is non-zero (also with NaN / inf stored under the mask: IEEE configuration), totally un-weighted
    aggregates equal the fill value, the sum of weights is the sum of the weights, weights propagate;
  * every LinkedVariable of the real graph of each shipped model kind: if its weighted parents agree on their
    weights and on their values at weighted positions, so does the result (plain results: everywhere);
  * _get_dim, put_data_variables / y_getter (t weighted by mask.any over features, y by mask);
  * the noise updates are the root-mean-square residual over observed entries only (closed form, shared with C04)."""
import z3

from pyvc.api import *
from pyvc.tensor import STensor, sigma_term, dim_z3
from pyvc import num
from contracts import dagsym as D
from contracts.c04 import UpdateRule as _UpdateRule
from contracts.c07 import linked_variables

WTMOD = "leaspy.utils.weighted_tensor._weighted_tensor"
a, b, c = z3.Ints("d0 d1 d2")


def WT(value, weight=None):
    return D.WT(value, weight)


def agree_where_weighted(cx, v1, v2, w, tag, goal=False):
    """goal=True: stated for fresh arbitrary indices (free constants) instead of a quantifier, so that the sums that
    occur are ground terms"""
    idx = v1.fresh_idx(cx, tag)
    wz = w.fn(idx) if w.dtype == "bool" else w.fn(idx) != 0
    body = z3.Implies(z3.And(v1.in_range(idx), wz), v1.fn(idx) == v2.fn(idx))
    return z3.ForAll(list(idx), body) if (idx and not goal) else body


def equal_everywhere(cx, t1, t2, tag, cmp=None, goal=False):
    idx = t1.fresh_idx(cx, tag)
    body = (cmp or (lambda x, y: x == y))(t1.fn(idx), t2.fn(idx))
    body = z3.Implies(t1.in_range(idx), body)
    return z3.ForAll(list(idx), body) if (idx and not goal) else body


class WSum(Spec):
    """wsum(dim): (weighted sum, sum of weights); the weighted sum depends on the values only where weight != 0, equals
    sum_k w_k v_k there, and equals fill_value where the sum of weights is 0."""
    target = WTMOD + ":WeightedTensor.wsum"
    ob_meta = {"sigma_ext": True}

    def configs(self):
        return [dict(rank=1, dim=(0,)), dict(rank=2, dim=(1,)), dict(rank=2, dim=(0,)), dict(rank=3, dim=(1, 2)),
                dict(rank=3, dim=(0, 1, 2)), dict(rank=2, dim=(0, 1), weight="none")]

    def setup(self, cx, cfg):
        shape = (a, b, c)[:cfg["rank"]]
        v1, v2 = STensor.sym(cx, "v#1", shape), STensor.sym(cx, "v#2", shape)
        w = None if cfg.get("weight") == "none" else STensor.sym(cx, "w", shape, "bool")
        fill = z3.Real("fill")
        x1, x2 = WT(v1, w), WT(v2, w)
        return dict(args=(x1,), kwargs=dict(fill_value=SV(fill, "real"), dim=cfg["dim"]), x1=x1, x2=x2, v1=v1, v2=v2, w=w, fill=fill)

    def pre(self, cx, st):
        p = [("sizes", z3.And(a >= 0, b >= 0, c >= 0))]
        if st["w"] is not None:
            p.append(("values agree at weighted positions", agree_where_weighted(cx, st["v1"], st["v2"], st["w"], "p")))
        else:
            p.append(("no weights: same values", equal_everywhere(cx, st["v1"], st["v2"], "p")))
        return p

    def post(self, cx, st, out):
        r1 = out.value
        r2 = cx.it.call(resolve(self.target), (st["x2"],), dict(fill_value=SV(st["fill"], "real"), dim=st["cfg"]["dim"]))
        ok = isinstance(r1, tuple) and len(r1) == 2 and all(isinstance(t, STensor) for t in r1)
        res = [("a pair (weighted sum, sum of weights)", z3.BoolVal(ok))]
        if not ok:
            return res
        s1, n1 = r1
        s2, n2 = r2
        res.append(("weighted sums do not depend on the values under the mask", equal_everywhere(cx, s1, s2, "o", goal=True)))
        res.append(("sums of weights equal", equal_everywhere(cx, n1, n2, "o", goal=True)))
        idx = s1.fresh_idx(cx, "z")
        body = z3.Implies(n1.elem_real(idx) == 0, s1.fn(idx) == st["fill"])
        res.append(("a totally un-weighted aggregate is the fill value", z3.ForAll(list(idx), body) if idx else body))
        return res


class WeightedValue(Spec):
    """weighted_value = weight * filled(0): exactly 0 at zero-weight positions whatever is stored there -- also NaN / inf
    (IEEE float32 configuration) -- and weight * value elsewhere."""
    target = WTMOD + ":WeightedTensor.weighted_value"

    def configs(self):
        return [dict(dom="real", wdt="bool"), dict(dom="real", wdt="real"), dict(dom="fp32", wdt="bool"), dict(dom="real", wdt="none")]

    def setup(self, cx, cfg):
        v = STensor.sym(cx, "v", (a, b), "real" if cfg["dom"] == "real" else cfg["dom"])
        w = None if cfg["wdt"] == "none" else STensor.sym(cx, "w", (a, b), cfg["wdt"])
        x = WT(v, w)
        return dict(args=(x,), v=v, w=w, x=x)

    def pre(self, cx, st):
        if st["w"] is not None and st["w"].dtype == "real":
            i, j = z3.Ints("i_p j_p")
            return [("weights >= 0", z3.ForAll([i, j], st["w"].fn((i, j)) >= 0))]
        return []

    def post(self, cx, st, out):
        r, v, w = out.value, st["v"], st["w"]
        ok = isinstance(r, STensor) and r.ndim == 2
        res = [("a plain tensor", z3.BoolVal(ok))]
        if ok:
            i, j = z3.Ints("i j")
            if w is None:
                res.append(("no weights: the value itself", z3.ForAll([i, j], num.same(r.fn((i, j)), v.fn((i, j))))))
            else:
                wz = w.fn((i, j)) if w.dtype == "bool" else w.fn((i, j)) != 0
                wr = w.elem_real((i, j))
                res.append(("exactly 0 under the mask, whatever is stored there",
                            z3.ForAll([i, j], z3.Implies(z3.Not(wz), num.eq(r.fn((i, j)), z3.RealVal(0))))))
                res.append(("weight * value elsewhere", z3.ForAll([i, j], z3.Implies(wz, num.same(r.fn((i, j)), num.mul(wr, v.fn((i, j))))))))
        return res


class ApplyOperation(Spec):
    """binary operations: the result holds op(values) and carries the (expanded) weights of the weighted operand;
    two weighted operands with different weights are refused."""
    target = WTMOD + ":_apply_operation"

    def configs(self):
        return [dict(op=o, other=k_, rev=r) for o in ("add", "sub", "mul", "truediv") for k_ in ("tensor", "scalar", "weighted", "weighted_other")
                for r in (False, True) if not (r and k_.startswith("weighted"))]

    def setup(self, cx, cfg):
        v, w = STensor.sym(cx, "v", (a, b)), STensor.sym(cx, "w", (a, b), "bool")
        x = WT(v, w)
        if cfg["other"] == "tensor":
            o = STensor.sym(cx, "o", (b,))
        elif cfg["other"] == "scalar":
            o = SV(z3.Real("o_s"), "real")
        elif cfg["other"] == "weighted":
            o = WT(STensor.sym(cx, "o", (a, b)), w)
        else:
            o = WT(STensor.sym(cx, "o", (a, b)), STensor.sym(cx, "w_o", (a, b), "bool"))
        return dict(args=(x, o, cfg["op"]), kwargs=dict(reverse=cfg["rev"]), v=v, w=w, o=o)

    def pre(self, cx, st):
        return [("sizes", z3.And(a >= 0, b >= 0))]

    def raises(self, cx, st):
        if st["cfg"]["other"] == "weighted_other":
            i, j = z3.Ints("i_r j_r")
            wo = D.weight_of(st["o"])
            return [(NotImplementedError, z3.Exists([i, j], z3.And(0 <= i, i < a, 0 <= j, j < b, st["w"].fn((i, j)) != wo.fn((i, j)))))]
        return []

    def post(self, cx, st, out):
        r = out.value
        ok = isinstance(r, SymObj) and isinstance(r.f.get("value"), STensor) and isinstance(r.f.get("weight"), STensor)
        res = [("a weighted tensor", z3.BoolVal(ok))]
        if ok:
            i, j = z3.Ints("i j")
            o = st["o"]
            ov = D.tensor_of(o) if not isinstance(o, SV) else None
            oe = o.e if isinstance(o, SV) else (ov.fn((j,)) if ov.ndim == 1 else ov.fn((i, j)))
            x, y = (oe, st["v"].fn((i, j))) if st["cfg"]["rev"] else (st["v"].fn((i, j)), oe)
            want = {"add": x + y, "sub": x - y, "mul": x * y, "truediv": x / y}[st["cfg"]["op"]]
            res.append(("value = op(values)", z3.ForAll([i, j], r.f["value"].fn((i, j)) == want)))
            res.append(("weights of the weighted operand, as a copy", z3.And(
                z3.BoolVal(r.f["weight"] is not st["w"]), z3.ForAll([i, j], r.f["weight"].fn((i, j)) == st["w"].fn((i, j))))))
        return res


class GetDim(Spec):
    """_get_dim: both `dim` and `but_dim` -> ValueError; `but_dim` -> the increasing dims not in it (negative indices
    normalised); neither -> ()."""
    target = "leaspy.utils.weighted_tensor._utils:_get_dim"

    def configs(self):
        out = []
        for nd in (1, 2, 3):
            out.append(dict(nd=nd, dim=None, but=None))
            for bd in [0, -1, (0,), (0, -1), (nd - 1,), (-nd,)]:
                out.append(dict(nd=nd, dim=None, but=bd))
            out.append(dict(nd=nd, dim=0, but=0))
            out.append(dict(nd=nd, dim=(0,), but=None))
        return out

    def setup(self, cx, cfg):
        x = STensor.sym(cx, "x", (a, b, c)[:cfg["nd"]])
        return dict(args=(x,), kwargs=dict(dim=cfg["dim"], but_dim=cfg["but"]))

    def raises(self, cx, st):
        cfg = st["cfg"]
        return [(ValueError, z3.BoolVal(cfg["dim"] is not None and cfg["but"] is not None))]

    def post(self, cx, st, out):
        cfg = st["cfg"]
        if cfg["but"] is not None:
            bd = {cfg["but"]} if isinstance(cfg["but"], int) else set(cfg["but"])
            bd = {i if i >= 0 else cfg["nd"] + i for i in bd}
            want = tuple(i for i in range(cfg["nd"]) if i not in bd)
        elif cfg["dim"] is None:
            want = ()
        else:
            want = cfg["dim"]
        return [("dims to reduce", z3.BoolVal(out.value == want))]


# the joint model stores (event age, event observed?) as a weighted tensor: that weight is the censoring indicator, not a mask of
# missing data -- the age of a censored individual IS used (survival term), so it is kept identical in both runs
NOT_A_MASK = {"event"}


class LinkedMaskIndependence(Spec):
    """LinkedVariable.compute of every derived variable of every shipped model graph: if the weighted parents of the two
    runs carry the same weights and agree at weighted positions (plain parents identical), the results agree -- weighted
    results on their weights and at weighted positions, plain results everywhere."""
    target = "leaspy.variables.specs:LinkedVariable.compute"
    ob_meta = {"sigma_ext": True}
    max_paths = 400

    @property
    def may_raise(self):
        from leaspy.exceptions import LeaspyModelInputError
        return (LeaspyModelInputError, NotImplementedError)

    def configs(self):
        out = []
        for label, name in linked_variables():
            out.append(dict(kind=label, var=name))
        return out

    def cfg_label(self, cfg):
        return f"{cfg['kind']}:{cfg['var']}"

    def setup(self, cx, cfg):
        cx.assume(z3.And(D.n >= 1, D.v >= 1))
        kind, kw = D.ALL_KINDS[cfg["kind"]]
        var = D.model_specs(kind, **kw)[1][cfg["var"]]
        parents = sorted(var.get_ancestors_names())
        m, specs, lay, F, K = D.parent_layouts(cx, cfg["kind"], parents)
        s1, s2 = {}, {}
        for p in parents:
            s1[p] = D.fresh_like(cx, lay[p], p + "#1")
            w = D.weight_of(s1[p])
            if w is not None and p not in NOT_A_MASK:
                s2[p] = WT(STensor.sym(cx, p + "#2", D.tensor_of(s1[p]).shape_), w)
            else:
                s2[p] = s1[p]
        return dict(args=(var, s1), var=var, s1=s1, s2=s2, parents=parents)

    def pre(self, cx, st):
        p = []
        for name in st["parents"]:
            x1, x2 = st["s1"][name], st["s2"][name]
            w = D.weight_of(x1)
            if w is not None and w.dtype != "bool":
                idx = w.fresh_idx(cx, "w")
                p.append((f"weights of {name} non-negative", z3.ForAll(list(idx), w.fn(idx) >= 0)))
            if x1 is not x2:
                p.append((f"weighted parent {name}: same weights, values agree where weighted",
                          agree_where_weighted(cx, D.tensor_of(x1), D.tensor_of(x2), D.weight_of(x1), name)))
        return p

    def post(self, cx, st, out):
        r1 = out.value
        if all(st["s1"][p] is st["s2"][p] for p in st["parents"]):
            return [("no weighted parent: nothing stored under a mask can reach this variable", z3.BoolVal(True))]
        r2 = cx.it.call(st["var"].compute, (st["s2"],), {})
        t1, t2, w1, w2 = D.tensor_of(r1), D.tensor_of(r2), D.weight_of(r1), D.weight_of(r2)
        ok = isinstance(t1, STensor) and isinstance(t2, STensor) and t1.ndim == t2.ndim and (w1 is None) == (w2 is None)
        res = [("same layout in both runs", z3.BoolVal(ok))]
        if not ok:
            return res
        if w1 is None:
            res.append(("plain result: identical whatever is stored under the masks", equal_everywhere(cx, t1, t2, "o", goal=True)))
        else:
            res.append(("weighted result: same weights", equal_everywhere(cx, w1, w2, "ow", goal=True)))
            res.append(("weighted result: values agree where weighted", agree_where_weighted(cx, t1, t2, w1, "ov", goal=True)))
        return res


class NoiseObservedOnly(_UpdateRule):
    """noise estimates are the root-mean-square residual over OBSERVED entries only (shared with C04)."""

    def configs(self):
        return [cfg for cfg in _UpdateRule.configs(self) if cfg["param"] == "noise_std"]


UNITS = [WSum(), WeightedValue(), ApplyOperation(), GetDim(), LinkedMaskIndependence(), NoiseObservedOnly()]
# the Bernoulli likelihood term: weights passed through, nothing stored at an entry without weight is looked at (contract of C08)
from contracts import c08 as _c08
UNITS += [foreign(_c08.BernoulliNll(), "c08")]
CALLEES = []
ASSUMPTIONS = ["sums of IEEE values are not modelled: the IEEE configuration covers the element-wise part (weight * filled(0))",
               "personalisation end-to-end is covered by the stand-in only; NaN-ness of an observation = the uninterpreted predicate isnan(value)"]
NOT_DECIDED = ["independence from the *amount* of padding for sums (needs splitting a sum at the padding boundary; stand-in)"]


class WSumMaskedTermsIEEE(Spec):
    """statement `weighted_values = weight * self.filled(0)` of WeightedTensor.wsum (extracted from the current AST;
    the reductions after it are dropped): in IEEE float32 arithmetic every masked term is exactly 0 whatever is stored
    under the mask (NaN, +-inf, huge), so a non-finite number at a masked position cannot reach a sum."""
    target = WTMOD + ":WeightedTensor.wsum"
    fragment = (lambda t: t.startswith("weighted_values ="), lambda t: t.startswith("weighted_values ="))

    def configs(self):
        return [dict(wdt="bool"), dict(wdt="real")]

    def setup(self, cx, cfg):
        v = STensor.sym(cx, "v", (a, b), "fp32")
        w = STensor.sym(cx, "w", (a, b), cfg["wdt"])
        x = WT(v, w)
        return dict(env={"self": x, "weight": w}, v=v, w=w)

    def pre(self, cx, st):
        if st["w"].dtype == "real":
            i, j = z3.Ints("i_p j_p")
            return [("weights are finite and >= 0", z3.ForAll([i, j], z3.And(st["w"].fn((i, j)) >= 0)))]
        return []

    def post(self, cx, st, out):
        r = out.value.get("weighted_values")
        ok = isinstance(r, STensor) and r.ndim == 2
        res = [("weighted values computed", z3.BoolVal(ok))]
        if ok:
            i, j = z3.Ints("i j")
            w = st["w"]
            wz = w.fn((i, j)) if w.dtype == "bool" else w.fn((i, j)) != 0
            e = r.fn((i, j))
            res.append(("a masked term is exactly 0 (never NaN) whatever is stored under the mask",
                        z3.ForAll([i, j], z3.Implies(z3.Not(wz), z3.And(z3.Not(z3.fpIsNaN(e)), num.eq(e, z3.RealVal(0)))))))
        return res


UNITS.append(WSumMaskedTermsIEEE())

# the tensors every masked computation starts from: mask = 1 exactly on observed entries, values = 0 under the mask
# (same units as C14: Dataset._construct_values / _construct_timepoints, loop invariants for any cohort)
from contracts.c14 import ConstructValues, ConstructTimepoints  # noqa: E402
UNITS += [ConstructValues(), ConstructTimepoints()]
