"""C02 -- a rejected proposal leaves no trace in the state.

Callee side: the contracts of State.put / revert / revert(mask) proved in C01 (incl. the IEEE blend and the
partial-revert lemma).  Client side (here): the real sampler code calls them so that, block by block and
individual by individual, a rejected proposal restores exactly the pre-proposal view and an accepted one
keeps exactly the proposed view."""
from contracts.samplers import *
from contracts import state_theory as T
from contracts.c01 import RevertFull, RevertPartial, ToCache, SetItemTensors, LEMMAS as _C01_LEMMAS

UNITS = [IndividualSample({"C02"}), PopulationSample({"C02"}), RevertFull(), RevertPartial(), ToCache(), SetItemTensors()]
CALLEES = [ShuffledIndices()]
engine_setup = T.engine_setup


def LEMMAS():
    """partial revert keeps every derived value consistent with the blended view (shared with C01)"""
    return _C01_LEMMAS()


ASSUMPTIONS = [
    "State methods are used through their C01 contracts (AState in contracts/samplers.py applies their postconditions)",
    "row-locality of derived values carrying the individual axis (C07) for the partial-revert lemma",
    "the latent variable name is a representative constant 'VAR' (the sampler code uses the name only to form the names of the regularity nodes)",
    "mixture model: softmax as exp / sum of exp (exp uninterpreted), 2 clusters",
]
NOT_DECIDED = []
