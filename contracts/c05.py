"""C05 -- sufficient statistics follow the stochastic-approximation schedule.

Contracts on the real functions (source re-read from /repo on every run):
  AlgorithmWithSamplersMixin._is_burn_in, AlgorithmWithSamplersMixin.__init__,
  TensorMcmcSaemAlgorithm.__init__, TensorMcmcSaemAlgorithm._maximization_step
Top-level postconditions are taken from the property statement.
"""
import z3

from pyvc.api import *

ALGO = "leaspy.algo.fit.mcmc_saem:TensorMcmcSaemAlgorithm"
SAMPLERS = "leaspy.algo.algo_with_samplers:AlgorithmWithSamplersMixin"


def algo_class():
    import leaspy.models  # noqa: F401  (import order: models before algo)
    from leaspy.algo.fit.mcmc_saem import TensorMcmcSaemAlgorithm
    return TensorMcmcSaemAlgorithm


def errors():
    from leaspy.exceptions import LeaspyAlgoInputError
    return LeaspyAlgoInputError


# ------------------------------------------------------------------------------------------------
class IsBurnIn(Spec):
    """`_is_burn_in()`  <=>  current_iteration <= n_burn_in_iter  (memory-less phase)."""
    target = SAMPLERS + "._is_burn_in"

    def setup(self, cx, cfg):
        k, b = cx.int("k"), cx.int("b")
        self_ = SymObj(algo_class(), dict(current_iteration=k, algo_parameters={"n_burn_in_iter": b}))
        return dict(args=(self_,), self=self_, k=k, b=b)

    def bind(self, it, args, kwargs):
        self_ = args[0]
        return dict(self=self_, k=self_.f["current_iteration"], b=self_.f["algo_parameters"]["n_burn_in_iter"])

    def result(self, cx, st):
        return SV(cx.fresh("is_burn_in", z3.BoolSort()), "bool")

    def post(self, cx, st, out):
        return [("result <=> k <= n_burn_in", as_bool(out.value) == (z(st["k"]) <= z(st["b"])))]


# ------------------------------------------------------------------------------------------------
class SamplersInit(Spec):
    """burn-in length = explicit count if given, else int(frac * n_iter); both None refused."""
    target = SAMPLERS + ".__init__"

    def configs(self):
        return [dict(count=c, frac=f) for c in ("none", "int", "absent") for f in ("none", "real")]

    def setup(self, cx, cfg):
        n_iter = cx.int("n_iter")
        params = {"n_iter": n_iter, "random_order_variables": True}
        frac = cx.real("frac") if cfg["frac"] == "real" else None
        params["n_burn_in_iter_frac"] = frac
        count = cx.int("count")
        if cfg["count"] == "int":
            params["n_burn_in_iter"] = count
        elif cfg["count"] == "none":
            params["n_burn_in_iter"] = None
        settings = make_settings(cx, params)
        self_ = SymObj(algo_class())
        return dict(args=(self_, settings), self=self_, settings=settings, n_iter=n_iter, frac=frac,
                    count=count, params=params)

    def pre(self, cx, st):
        p = [("n_iter >= 0", z(st["n_iter"]) >= 0)]
        if st["frac"] is not None:
            p.append(("0 <= frac <= 1", z3.And(z(st["frac"]) >= 0, z(st["frac"]) <= 1)))
        return p

    def raises(self, cx, st):
        cfg = st["cfg"]
        both_none = cfg["count"] != "int" and cfg["frac"] == "none"
        return [(errors(), z3.BoolVal(both_none))]

    def post(self, cx, st, out):
        cfg = st["cfg"]
        self_ = st["self"]
        ap = self_.f["algo_parameters"]
        got = ap["n_burn_in_iter"]
        res = []
        if cfg["count"] == "int":
            res.append(("explicit count is kept", z(got) == z(st["count"])))
            warned = any(c is FutureWarning for _, c in cx.ghost.get("warnings", []))
            res.append(("FutureWarning iff the fraction is also set", z3.BoolVal(warned == (cfg["frac"] == "real"))))
        else:
            # configured fraction of the iterations:  floor(frac * n_iter)   (real arithmetic)
            prod = z(st["frac"]) * z3.ToReal(z(st["n_iter"]))
            res.append(("n_burn_in = floor(frac * n_iter)", z3.And(z3.ToReal(z(got)) <= prod, prod < z3.ToReal(z(got)) + 1)))
        res.append(("settings object is not written (deep copy)",
                    z3.BoolVal(ap is not st["settings"].f["parameters"] and
                               st["settings"].f["parameters"] == st["params_snapshot"])))
        res.append(("current_iteration starts at 0", z(self_.f["current_iteration"]) == 0))
        return res

    def snap(self, cx, st):
        st["params_snapshot"] = dict(st["params"])


def make_settings(cx, params, **extra):
    from leaspy.algo.settings import AlgorithmSettings
    from leaspy.algo.base import AlgorithmName
    f = dict(name=AlgorithmName.FIT_MCMC_SAEM, seed=None, parameters=params, logs=None, device="cpu")
    f.update(extra)
    return SymObj(AlgorithmSettings, f)


# ------------------------------------------------------------------------------------------------
class SaemInit(Spec):
    """the complete constructor: a step power outside (0.5, 1] is refused; otherwise the memory-less phase lasts exactly
    floor(frac * n_iter) iterations (no explicit count given) -- whether or not annealing is configured, for however many
    annealing iterations."""
    target = ALGO + ".__init__"

    def configs(self):
        return [dict(annealing=a) for a in ("off", "frac", "count")]

    def setup(self, cx, cfg):
        power = cx.real("power")
        n_iter = cx.int("n_iter")
        frac = cx.real("frac")
        ann = {"do_annealing": False}
        if cfg["annealing"] != "off":
            ann = {"do_annealing": True, "initial_temperature": cx.real("T0"), "n_plateau": cx.int("n_plateau"),
                   "n_iter": cx.int("annealing_n_iter") if cfg["annealing"] == "count" else None,
                   "n_iter_frac": cx.real("annealing_frac") if cfg["annealing"] == "frac" else None}
        params = {"n_iter": n_iter, "n_burn_in_iter_frac": frac, "burn_in_step_power": power, "annealing": ann}
        settings = make_settings(cx, params)
        self_ = SymObj(algo_class())
        return dict(args=(self_, settings), self=self_, power=power, n_iter=n_iter, frac=frac, ann=ann)

    def pre(self, cx, st):
        p = [("n_iter >= 0", z(st["n_iter"]) >= 0), ("0 <= frac <= 1", z3.And(z(st["frac"]) >= 0, z(st["frac"]) <= 1))]
        if st["cfg"]["annealing"] == "frac":
            p.append(("0 <= annealing fraction <= 1", z3.And(z(st["ann"]["n_iter_frac"]) >= 0, z(st["ann"]["n_iter_frac"]) <= 1)))
        if st["cfg"]["annealing"] == "count":
            p.append(("annealing iterations >= 0", z(st["ann"]["n_iter"]) >= 0))
        return p

    def raises(self, cx, st):
        p = z(st["power"])
        return [(errors(), z3.Not(z3.And(p > 0.5, p <= 1)))]

    def post(self, cx, st, out):
        ap = st["self"].f["algo_parameters"]
        got = ap["n_burn_in_iter"]
        prod = z(st["frac"]) * z3.ToReal(z(st["n_iter"]))
        return [("power kept", z(ap["burn_in_step_power"]) == z(st["power"])),
                ("memory-less phase = floor(frac * n_iter) iterations, with or without annealing",
                 z3.And(z3.ToReal(z(got)) <= prod, prod < z3.ToReal(z(got)) + 1)),
                ("total number of iterations kept", z(ap["n_iter"]) == z(st["n_iter"]))]


# ------------------------------------------------------------------------------------------------
STAT = Codec(z3.RealSort(), name="statistic (one real component; the update is elementwise)")
KEY = Codec(z3.StringSort(), name="statistic name")


class ComputeSuffStats(Spec):
    """assumed callee contract: model.compute_sufficient_statistics(state) returns a dict whose key set
    is the model's fixed set of statistic names KS (proved for the real function under C04)."""
    target = "leaspy.models.mcmc_saem_compatible:McmcSaemCompatibleModel.compute_sufficient_statistics"

    def bind(self, it, args, kwargs):
        return dict(model=args[0], state=args[1])

    def result(self, cx, st):
        m = SMap(cx, KEY, STAT, "s_k")
        cx.ghost["fresh_stats"] = m
        return m

    def post(self, cx, st, out):
        k = z3.String(cx.fresh_name("key"))
        KS = cx.ghost["KS"]
        return [("key set = KS", z3.ForAll([k], out.value.has(k) == z3.Select(KS, k)))]


class UpdateParameters(Spec):
    """callee contract used as a probe: records with which statistics / flag it is called."""
    target = "leaspy.models.mcmc_saem_compatible:McmcSaemCompatibleModel.update_parameters"

    def bind(self, it, args, kwargs):
        return dict(model=args[0], state=args[1], stats=args[2], burn_in=kwargs["burn_in"])

    def havoc(self, cx, st):
        cx.ghost.setdefault("update_calls", []).append((st["stats"], st["burn_in"]))


class MaximizationStep(Spec):
    """memory-less while k <= n_burn_in + 1; afterwards S_k = (1 - e_k) S_(k-1) + e_k s_k,
    e_k = (k - n_burn_in)^(-power); update_parameters gets S_k and burn_in = (k <= n_burn_in)."""
    target = ALGO + "._maximization_step"

    def configs(self):
        return [dict(prev="none"), dict(prev="map")]

    def setup(self, cx, cfg):
        from leaspy.models import McmcSaemCompatibleModel
        from leaspy.variables.state import State
        k, b, power = cx.int("k"), cx.int("b"), cx.real("power")
        KS = z3.Const("KS", z3.ArraySort(z3.StringSort(), z3.BoolSort()))
        cx.ghost["KS"] = KS
        prev = SMap(cx, KEY, STAT, "S_prev") if cfg["prev"] == "map" else None
        self_ = SymObj(algo_class(), dict(
            current_iteration=k, sufficient_statistics=prev,
            algo_parameters={"n_burn_in_iter": b, "burn_in_step_power": power}))
        model = SymObj(McmcSaemCompatibleModel, label="model")
        state = SymObj(State, label="state")
        return dict(args=(self_, model, state), self=self_, k=k, b=b, power=power, prev=prev, KS=KS)

    def pre(self, cx, st):
        k, b = z(st["k"]), z(st["b"])
        p = [("k >= 1", k >= 1), ("b >= 0", b >= 0),
             ("0.5 < power <= 1", z3.And(z(st["power"]) > 0.5, z(st["power"]) <= 1))]
        if st["prev"] is None:
            # the statistics of the previous iteration exist from iteration 2 on
            p.append(("no previous statistics only at the first iteration", k == 1))
        else:
            key = z3.String("key0")
            p.append(("previous statistics have key set KS",
                      z3.ForAll([key], st["prev"].has(key) == z3.Select(st["KS"], key))))
        return p

    def snap(self, cx, st):
        st["old"] = st["prev"].snapshot() if st["prev"] is not None else None

    def frame(self, cx, st):
        return [loc_field(st["self"], "sufficient_statistics")]

    def post(self, cx, st, out):
        k, b, power = z(st["k"]), z(st["b"]), z(st["power"])
        new = st["self"].f["sufficient_statistics"]
        s_k = cx.ghost.get("fresh_stats")
        calls = cx.ghost.get("update_calls", [])
        res = [("compute_sufficient_statistics called", z3.BoolVal(s_k is not None)),
               ("result is a statistics dict", z3.BoolVal(isinstance(new, SMap)))]
        if s_k is None or not isinstance(new, SMap):
            return res
        key = z3.String("key1")
        same_as_fresh = z3.ForAll([key], z3.And(new.has(key) == s_k.has(key),
                                                z3.Implies(s_k.has(key), new.at(key) == s_k.at(key))))
        res.append(("memory-less while k <= n_burn_in + 1", z3.Implies(k <= b + 1, same_as_fresh)))
        if st["old"] is not None:
            old = st["old"]
            rp = z3.Function("rpow", z3.RealSort(), z3.RealSort(), z3.RealSort())
            e_k = rp(z3.ToReal(k - b), -power)
            convex = z3.ForAll([key], z3.And(
                new.has(key) == old.has(key),
                z3.Implies(old.has(key), new.at(key) == (1 - e_k) * old.at(key) + e_k * s_k.at(key))))
            res.append(("convex combination from k = n_burn_in + 2", z3.Implies(k >= b + 2, convex)))
        res.append(("update_parameters called exactly once", z3.BoolVal(len(calls) == 1)))
        if len(calls) == 1:
            stats, flag = calls[0]
            res.append(("update_parameters gets the statistics in force", z3.BoolVal(stats is new)))
            res.append(("burn_in flag <=> k <= n_burn_in", as_bool(flag) == (k <= b)))
        return res


UNITS = [IsBurnIn(), SamplersInit(), SaemInit(), MaximizationStep()]
CALLEES = [ComputeSuffStats(), UpdateParameters()]
