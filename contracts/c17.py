"""C17 -- personalisation.  Under contract (deductively): the two estimators of the sampling-based algorithms (mean over
the kept draws; per-individual lowest-loss draw), the kept-sample loop of McmcPersonalizeAlgorithm._get_individual_parameters
(one sampler call per variable per iteration, draws recorded exactly in the iterations past the burn-in, after the
samplers of that iteration), the alignment loop of ScipyMinimizeAlgorithm._compute_individual_parameters and the affine
re-parametrisation _AffineScalings1D (slices partition the vector, unscaling o scaling = identity).
scipy.optimize.minimize, joblib and the pandas re-ingestion are outside the subset: the objective comparison and
finiteness are decided by the bounded stand-in only."""
import z3

from pyvc.api import *
from pyvc.core import Symbolic
from pyvc.tensor import STensor, dim_z3

MEAN = "leaspy.algo.personalize.mean_posterior:MeanPosteriorAlgorithm._compute_individual_parameters_from_samples_torch"
MODE = "leaspy.algo.personalize.mode_posterior:ModePosteriorAlgorithm._compute_individual_parameters_from_samples_torch"

VARS = {"with sources": {"sources": 2, "tau": 1, "xi": 1}, "no sources": {"tau": 1, "xi": 1}}


def draws(cx, names):
    J, N = z3.Ints("J N")
    vals = {n: STensor.sym(cx, f"draws_{n}", (J, N, d), "real") for n, d in names.items()}
    att = STensor.sym(cx, "attach", (J, N), "real")
    reg = STensor.sym(cx, "regul", (J, N), "real")
    return J, N, vals, att, reg


class MeanEstimator(Spec):
    """mean_posterior: for every variable, individual i and component c the result is (sum over the kept draws j of
    value[j, i, c]) / number of kept draws; same variables, shape (individuals, components)."""
    target = MEAN

    def configs(self):
        return [dict(vars=k) for k in VARS]

    def setup(self, cx, cfg):
        from leaspy.algo.personalize.mean_posterior import MeanPosteriorAlgorithm
        J, N, vals, att, reg = draws(cx, VARS[cfg["vars"]])
        s = SymObj(MeanPosteriorAlgorithm, {})
        return dict(args=(s, dict(vals), att, reg), J=J, N=N, vals=vals)

    def pre(self, cx, st):
        return [("at least one kept draw", st["J"] >= 1), ("individuals", st["N"] >= 0)]

    def post(self, cx, st, out):
        from pyvc.tensor import sigma_term
        v, vals, J, N = out.value, st["vals"], st["J"], st["N"]
        res = [("same variables, same order", z3.BoolVal(isinstance(v, dict) and list(v) == list(vals)))]
        if not (isinstance(v, dict) and list(v) == list(vals)):
            return res
        i, c = z3.Ints("i_m c_m")
        for n, t in vals.items():
            o = v[n]
            d = t.shape_[2]
            ok = isinstance(o, STensor) and o.ndim == 2
            res.append((f"{n}: shape (individuals, components)", z3.And(dim_z3(o.shape_[0]) == N, dim_z3(o.shape_[1]) == d) if ok else z3.BoolVal(False)))
            if ok:
                res.append((f"{n}[i, c] * J = sum of the kept draws",
                            z3.ForAll([i, c], z3.Implies(z3.And(0 <= i, i < N, 0 <= c, c < d),
                                                         o.elem_real((i, c)) * z3.ToReal(J) == sigma_term(cx, lambda j: t.elem_real((j, i, c)), J)))))
        return res


class ModeEstimator(Spec):
    """mode_posterior: for every individual i there is one draw j*(i) -- a draw whose loss attach[j, i] + 1.0 * regul[j, i] is
    minimal over the kept draws (the first such draw) -- and every variable's result for i is its value in that draw."""
    target = MODE

    def configs(self):
        return [dict(vars=k) for k in VARS]

    def setup(self, cx, cfg):
        from leaspy.algo.personalize.mode_posterior import ModePosteriorAlgorithm
        J, N, vals, att, reg = draws(cx, VARS[cfg["vars"]])
        s = SymObj(ModePosteriorAlgorithm, {})
        return dict(args=(s, dict(vals), att, reg), J=J, N=N, vals=vals, att=att, reg=reg)

    def pre(self, cx, st):
        return [("at least one kept draw", st["J"] >= 1), ("individuals", st["N"] >= 0)]

    def post(self, cx, st, out):
        v, vals, J, N, att, reg = out.value, st["vals"], st["J"], st["N"], st["att"], st["reg"]
        res = [("same variables, same order", z3.BoolVal(isinstance(v, dict) and list(v) == list(vals)))]
        if not (isinstance(v, dict) and list(v) == list(vals)):
            return res
        i, c, j, js = z3.Ints("i_m c_m j_m js_m")

        def loss(jj, ii):
            return att.elem_real((jj, ii)) + reg.elem_real((jj, ii))
        shapes_ok = []
        picks = []
        for n, t in vals.items():
            o = v[n]
            d = t.shape_[2]
            ok = isinstance(o, STensor) and o.ndim == 2
            shapes_ok.append(z3.And(dim_z3(o.shape_[0]) == N, dim_z3(o.shape_[1]) == d) if ok else z3.BoolVal(False))
            if ok:
                picks.append(z3.ForAll([c], z3.Implies(z3.And(0 <= c, c < d), o.elem_real((i, c)) == t.elem_real((js, i, c)))))
        res.append(("shape (individuals, components) for every variable", z3.And(*shapes_ok)))
        res.append(("per individual: all variables come from one kept draw of minimal loss (the first one)",
                    z3.ForAll([i], z3.Implies(z3.And(0 <= i, i < N),
                                              z3.Exists([js], z3.And(0 <= js, js < J,
                                                                     z3.ForAll([j], z3.Implies(z3.And(0 <= j, j < J), loss(js, i) <= loss(j, i))),
                                                                     z3.ForAll([j], z3.Implies(z3.And(0 <= j, j < js), loss(j, i) > loss(js, i))),
                                                                     *picks))))))
        return res


def estimator_replay(kind):
    def replay(self, model, ob):
        """the real estimator on small concrete draws (ties included) against an independent numpy oracle"""
        import numpy as np
        import torch
        from leaspy.algo.personalize.mean_posterior import MeanPosteriorAlgorithm
        from leaspy.algo.personalize.mode_posterior import ModePosteriorAlgorithm
        cls = MeanPosteriorAlgorithm if kind == "mean" else ModePosteriorAlgorithm
        names = VARS[ob.meta["cx"].cfg.split("=", 1)[1]] if "=" in str(getattr(ob.meta["cx"], "cfg", "")) else VARS["with sources"]
        rng = np.random.default_rng(0)
        for trial in range(40):
            J, N = int(rng.integers(1, 5)), int(rng.integers(1, 4))
            vals = {n: torch.tensor(rng.integers(-4, 5, (J, N, d)) / 2.0, dtype=torch.float32) for n, d in names.items()}
            att = torch.tensor(rng.integers(0, 3, (J, N)) / 2.0, dtype=torch.float32)
            reg = torch.tensor(rng.integers(0, 3, (J, N)) / 2.0, dtype=torch.float32)
            obj = object.__new__(cls)
            try:
                out = cls._compute_individual_parameters_from_samples_torch(obj, dict(vals), att, reg)
            except Exception as e:
                return {"confirmed": True, "input": {"J": J, "N": N}, "note": f"the estimator raised {type(e).__name__}: {e}"}
            for n in names:
                arr = vals[n].numpy().astype(float)
                if kind == "mean":
                    want = arr.mean(axis=0)
                else:
                    best = (att + reg).numpy().astype(float).argmin(axis=0)
                    want = np.stack([arr[best[i], i] for i in range(N)])
                got = out[n].numpy().astype(float) if n in out else None
                if got is None or got.shape != want.shape or not np.allclose(got, want, atol=1e-6):
                    return {"confirmed": True, "input": {"draws": {k: v.tolist() for k, v in vals.items()}, "attach": att.tolist(), "regul": reg.tolist()},
                            "observed": {n: None if got is None else got.tolist()}, "expected": {n: want.tolist()},
                            "note": f"{n}: the real estimator does not return the {'mean' if kind == 'mean' else 'lowest-loss draw'} of the draws"}
        return {"confirmed": False, "note": "40 small random draw sets: the real estimator satisfies the statement on all of them"}
    return replay


MeanEstimator.replay = estimator_replay("mean")
ModeEstimator.replay = estimator_replay("mode")

# ------------------------------------------------------------------------------------------------------------------
# the kept-sample loop
# ghost: entry i of the value of a variable after `clock` sampler calls (values carry the individual axis; real entries, so that any
# arithmetic the code might apply to a draw before recording it is seen)
READ = z3.Function("state_value", z3.StringSort(), z3.IntSort(), z3.IntSort(), z3.RealSort())
N_IND = z3.Int("n_individuals_in_state")


class GhostState(Symbolic):
    """the algorithm's State seen through a ghost clock: a read returns (variable, number of sampler calls so far)"""

    def __init__(self, cx):
        self.cx = cx

    def read(self, name):
        g = self.cx.ghost
        g.setdefault("reads", []).append((name, g.get("clock", 0)))
        clk = g.get("clock", 0)
        return STensor((N_IND,), lambda idx, name=name, clk=clk: READ(z3.StringVal(name), z3.IntVal(clk), idx[0]), "real", name=f"{name}@{clk}")

    def _getitem(self, it, k, node=None):
        return self.read(k)

    def _getattr(self, it, name, node=None):
        from pyvc.models import SymCallable
        if name == "get_tensor_value":
            return SymCallable(lambda it_, k: self.read(k), "State.get_tensor_value")
        raise OutOfSubset(f"State.{name} in the kept-sample loop")


class History(Symbolic):
    """one of the python lists the loop appends to"""

    def __init__(self, label):
        self.label, self.rows = label, []

    def _getattr(self, it, name, node=None):
        from pyvc.models import SymCallable
        if name == "append":
            def append(it_, x):
                self.rows.append((x, it_.cx.ghost.get("clock", 0)))
                it_.cx.log_write(("obj", id(self), None))
            return SymCallable(append, "list.append")
        raise OutOfSubset(f"list.{name} on a history")

    def _havoc(self, cx):
        pass


class SampleProbe(Spec):
    target = "leaspy.samplers.gibbs:IndividualGibbsSampler.sample"

    def bind(self, it, args, kwargs):
        return dict(args=args, kwargs=kwargs)

    def havoc(self, cx, st):
        g = cx.ghost
        g["clock"] = g.get("clock", 0) + 1
        g.setdefault("samples", []).append((st["args"][0].f.get("name"), st["args"][1], st["kwargs"].get("temperature_inv"), g["clock"]))


class TemperatureProbe(Spec):
    target = "leaspy.algo.algo_with_annealing:AlgorithmWithAnnealingMixin._update_temperature"

    def bind(self, it, args, kwargs):
        return dict(args=args, kwargs=kwargs)

    def havoc(self, cx, st):
        g = cx.ghost
        g.setdefault("temperature_updates", []).append(g.get("clock", 0))


def kept_iter_pre(cx, env, k, view):
    g = cx.ghost
    return dict(samples=len(g.get("samples", [])), temps=len(g.get("temperature_updates", [])), clock=g.get("clock", 0),
                rows={h.label: len(h.rows) for h in g["histories"]})


def kept_iter_post(cx, env, snap, k, view):
    g = cx.ghost
    names = g["names"]
    it_no = k + 1
    burn = z(g["n_burn"], "int")
    new_samples = g.get("samples", [])[snap["samples"]:]
    res = [("iteration number = position + 1", z(env["self"].f["current_iteration"], "int") == it_no),
           ("every individual variable is sampled exactly once", z3.BoolVal(sorted(s_[0] for s_ in new_samples) == sorted(names))),
           ("on the algorithm's state", z3.BoolVal(all(s_[1] is g["state"] for s_ in new_samples))),
           ("with the current inverse temperature", z3.And(*[z(s_[2], "real") == z(g["beta"], "real") if s_[2] is not None else z3.BoolVal(False) for s_ in new_samples]) if new_samples else z3.BoolVal(False)),
           ("the temperature is updated once, after the samplers",
            z3.BoolVal(g.get("temperature_updates", [])[snap["temps"]:] == [snap["clock"] + len(names)]))]
    after = snap["clock"] + len(names)
    want = {n: n for n in names}
    want.update({"attachment": "nll_attach_ind", "regularity": "nll_regul_ind_sum_ind"})
    kept_ok, burn_ok = [], []
    for h in g["histories"]:
        new = h.rows[snap["rows"][h.label]:]
        burn_ok.append(len(new) == 0)
        ok = len(new) == 1 and isinstance(new[0][0], STensor) and new[0][0].ndim == 1
        i_ = z3.Int("i_rec")
        kept_ok.append(z3.BoolVal(False) if not ok else
                       z3.ForAll([i_], z3.Implies(z3.And(0 <= i_, i_ < N_IND), new[0][0].fn((i_,)) == READ(z3.StringVal(want[h.label]), z3.IntVal(after), i_))))
    res.append(("past the burn-in: one draw per variable (+ attachment, regularity), the state's own values read after all samplers of this iteration (unaltered)",
                z3.Implies(it_no > burn, z3.And(*kept_ok))))
    res.append(("during the burn-in: nothing is recorded", z3.Implies(it_no <= burn, z3.BoolVal(all(burn_ok)))))
    return res


class KeptSampleLoop(Spec):
    """McmcPersonalizeAlgorithm._get_individual_parameters, the iteration loop alone (dropped: initialisation before it, the
    torch.stack / estimator / from_pytorch after it -- the latter two have their own contracts): for an arbitrary iteration, every
    individual variable's sampler runs exactly once on the algorithm's state with the current inverse temperature; iff the
    iteration number exceeds n_burn_in_iter, exactly one draw of every variable, of nll_attach_ind and of
    nll_regul_ind_sum_ind is recorded, read after all samplers of that iteration; then the temperature is updated."""
    target = "leaspy.algo.personalize.mcmc:McmcPersonalizeAlgorithm._get_individual_parameters"
    fragment = (lambda t: t.startswith("for self.current_iteration in"), lambda t: t.startswith("for self.current_iteration in"))
    loops = {("McmcPersonalizeAlgorithm._get_individual_parameters", 0): LoopSpec(
        lambda cx, env, k, view: [], modifies=lambda cx, env: [(env["self"], "current_iteration")] + list(cx.ghost["histories"]),
        iter_pre=kept_iter_pre, iter_post=kept_iter_post)}

    def configs(self):
        return [dict(shuffle=sh, vars=v) for sh in (False, True) for v in VARS]

    def setup(self, cx, cfg):
        from leaspy.algo.personalize.mean_posterior import MeanPosteriorAlgorithm
        from leaspy.samplers.gibbs import IndividualGibbsSampler
        names = sorted(VARS[cfg["vars"]])
        n_iter, n_burn = cx.int("n_iter"), cx.int("n_burn_in_iter")
        beta = cx.real("beta")
        samplers = {n: SymObj(IndividualGibbsSampler, dict(name=n), label=f"sampler[{n}]") for n in names}
        self_ = SymObj(MeanPosteriorAlgorithm, dict(algo_parameters={"n_iter": n_iter, "n_burn_in_iter": n_burn, "progress_bar": False},
                                                    random_order_variables=cfg["shuffle"], samplers=samplers, temperature_inv=beta,
                                                    current_iteration=0))
        state = GhostState(cx)
        hist = {n: History(n) for n in names}
        att, reg = History("attachment"), History("regularity")
        cx.ghost.update(names=names, n_burn=n_burn, beta=beta, state=state, histories=list(hist.values()) + [att, reg], clock=0)
        env = {"self": self_, "n_iter": n_iter, "individual_variable_names": list(names), "state": state, "values_history": hist,
               "attachment_history": att, "regularity_history": reg, "shuffle": _random.shuffle}
        return dict(env=env, n_iter=n_iter, n_burn=n_burn)

    def pre(self, cx, st):
        return [("accepted settings", z3.And(z(st["n_iter"]) >= 1, z(st["n_burn"]) >= 0))]

    def post(self, cx, st, out):
        return [("the loop ends", z3.BoolVal(True))]


class HistoryContainers(Spec):
    """McmcPersonalizeAlgorithm._get_individual_parameters, the statements that create the three histories (before the loop): one
    container per individual variable plus one for the attachments and one for the regularities, each empty and UNBOUNDED (a list,
    or a deque without maxlen) -- every draw the loop records is still there when the estimator runs."""
    target = "leaspy.algo.personalize.mcmc:McmcPersonalizeAlgorithm._get_individual_parameters"
    fragment = (lambda t: t.startswith("values_history ="), lambda t: t.startswith("regularity_history ="))

    def configs(self):
        return [dict(vars=v) for v in VARS]

    def setup(self, cx, cfg):
        from leaspy.algo.personalize.mean_posterior import MeanPosteriorAlgorithm
        names = sorted(VARS[cfg["vars"]])
        self_ = SymObj(MeanPosteriorAlgorithm, dict(algo_parameters={"n_iter": cx.int("n_iter"), "n_burn_in_iter": cx.int("n_burn_in_iter")}))
        import collections
        return dict(env={"self": self_, "individual_variable_names": list(names), "deque": collections.deque, "collections": collections}, names=names)

    def post(self, cx, st, out):
        import collections
        env = out.value

        def unbounded_empty(c):
            return (type(c) is list or (isinstance(c, collections.deque) and c.maxlen is None)) and len(c) == 0
        vh = env.get("values_history")
        ok_v = isinstance(vh, dict) and sorted(vh) == st["names"] and all(unbounded_empty(c) for c in vh.values()) and len({id(c) for c in vh.values()}) == len(vh)
        return [("one empty unbounded history per individual variable (distinct objects)", z3.BoolVal(bool(ok_v))),
                ("an empty unbounded history for the attachments and one for the regularities (distinct objects)",
                 z3.BoolVal(unbounded_empty(env.get("attachment_history")) and unbounded_empty(env.get("regularity_history"))
                            and env.get("attachment_history") is not env.get("regularity_history")))]


class EstimatorProbe(Spec):
    """records what the estimator is handed (its own contract: MeanEstimator / ModeEstimator)"""
    target = MEAN

    def bind(self, it, args, kwargs):
        return dict(args=args, kwargs=kwargs)

    def havoc(self, cx, st):
        cx.ghost.setdefault("estimator_calls", []).append((st["args"], st["kwargs"]))

    def result(self, cx, st):
        return cx.ghost["estimate"]


class EstimatorProbeMode(EstimatorProbe):
    target = MODE


class EstimatorHandOff(Spec):
    """McmcPersonalizeAlgorithm._get_individual_parameters, the statements between the loop and the construction of the result
    (from `torch_values = ...` to `individual_parameters_torch = ...`): the estimator is called exactly once, with EVERY recorded
    draw -- entry [k, i, c] of variable n is the k-th recorded draw of n for individual i, component c; entry [k, i] of the
    attachments / regularities is the k-th recorded one for individual i -- nothing dropped, re-ordered or mixed across
    individuals, and what the estimator returns is what is kept."""
    target = "leaspy.algo.personalize.mcmc:McmcPersonalizeAlgorithm._get_individual_parameters"
    fragment = (lambda t: t.startswith("torch_values ="), lambda t: t.startswith("individual_parameters_torch ="))

    def configs(self):
        return [dict(vars=v, kept=k, algo=a) for v in VARS for k in (1, 3) for a in ("mean", "mode")]

    def setup(self, cx, cfg):
        from leaspy.algo.personalize.mean_posterior import MeanPosteriorAlgorithm
        from leaspy.algo.personalize.mode_posterior import ModePosteriorAlgorithm
        from leaspy.constants import constants
        import leaspy.algo.personalize.mcmc as mm
        names = VARS[cfg["vars"]]
        N = z3.Int("N")
        K = cfg["kept"]
        vh = {n: [STensor.sym(cx, f"draw{k}_{n}", (N, d), "real") for k in range(K)] for n, d in sorted(names.items())}
        ah = [STensor.sym(cx, f"attach{k}", (N,), "real") for k in range(K)]
        rh = [STensor.sym(cx, f"regul{k}", (N,), "real") for k in range(K)]
        self_ = SymObj(MeanPosteriorAlgorithm if cfg["algo"] == "mean" else ModePosteriorAlgorithm, {})
        est = {n: STensor.sym(cx, f"estimate_{n}", (N, d), "real") for n, d in sorted(names.items())}
        cx.ghost["estimate"] = est
        env = {"self": self_, "values_history": vh, "attachment_history": ah, "regularity_history": rh, "torch": torch, "constants": constants}
        for k_, v_ in vars(mm).items():
            env.setdefault(k_, v_)
        return dict(env=env, vh=vh, ah=ah, rh=rh, N=N, K=K, names=names, est=est, self=self_)

    def pre(self, cx, st):
        return [("individuals", st["N"] >= 1)]

    def post(self, cx, st, out):
        calls = cx.ghost.get("estimator_calls", [])
        res = [("the estimator is called exactly once", z3.BoolVal(len(calls) == 1))]
        if len(calls) != 1:
            return res
        args, kwargs = calls[0]
        names = ["self", "values", "attachments", "regularities"]
        got = dict(zip(names, args))
        got.update(kwargs)
        vals, att, reg = got.get("values"), got.get("attachments"), got.get("regularities")
        N, K = st["N"], st["K"]
        i = z3.Int("i_ind")
        dom = z3.And(0 <= i, i < N)
        ok_shape = isinstance(vals, dict) and sorted(vals) == sorted(st["names"]) and all(isinstance(v, STensor) and v.ndim == 3 for v in vals.values()) \
            and isinstance(att, STensor) and att.ndim == 2 and isinstance(reg, STensor) and reg.ndim == 2
        res.append(("with one (draws, individuals, components) tensor per variable and (draws, individuals) losses", z3.BoolVal(bool(ok_shape))))
        if not ok_shape:
            return res
        from pyvc.tensor import dim_z3 as dz
        for n, d in st["names"].items():
            v = vals[n]
            res.append((f"{n}: every recorded draw is handed over (number of draws = {K}, individuals = N, components = {d})",
                        z3.And(dz(v.shape_[0]) == K, dz(v.shape_[1]) == N, dz(v.shape_[2]) == d)))
            res.append((f"{n}: entry [k, i, c] is the k-th recorded draw of individual i",
                        z3.ForAll([i], z3.Implies(dom, z3.And(*[v.elem_real((z3.IntVal(k), i, z3.IntVal(c))) == st["vh"][n][k].elem_real((i, z3.IntVal(c)))
                                                                 for k in range(K) for c in range(d)])))))
        for label, t, h in (("attachments", att, st["ah"]), ("regularities", reg, st["rh"])):
            res.append((f"{label}: every recorded draw is handed over", z3.And(dz(t.shape_[0]) == K, dz(t.shape_[1]) == N)))
            res.append((f"{label}: entry [k, i] is the k-th recorded value of individual i",
                        z3.ForAll([i], z3.Implies(dom, z3.And(*[t.elem_real((z3.IntVal(k), i)) == h[k].elem_real((i,)) for k in range(K)])))))
        kept = out.value.get("individual_parameters_torch")
        res.append(("what the estimator returns is what is kept", z3.BoolVal(kept is st["est"])))
        return res


# ------------------------------------------------------------------------------------------------------------------
# scipy_minimize: the affine re-parametrisation and one subject's optimisation
SM = "leaspy.algo.personalize.scipy_minimize"
DIMS = {"with sources": {"tau": 1, "xi": 1, "sources": 2}, "no sources": {"tau": 1, "xi": 1}, "three sources": {"sources": 3, "tau": 1, "xi": 1}}


def make_scalings(cx, dims, by_hand=True):
    AS, AS1 = resolve(SM + ":_AffineScaling"), resolve(SM + ":_AffineScalings1D")
    scalings = {n: SymObj(AS, dict(loc=STensor.sym(cx, f"loc_{n}", (d,), "real"), scale=STensor.sym(cx, f"scale_{n}", (d,), "real")))
                for n, d in dims.items()}
    off, slices = 0, {}
    for n, d in dims.items():
        slices[n] = slice(off, off + d)
        off += d
    obj = SymObj(AS1, dict(scalings=scalings, slices=slices, length=off))
    return obj, scalings, slices, off


def nonzero_scales(scalings, dims):
    return [(f"scale of {n} is not zero (a standard deviation)", z3.And(*[sc.f["scale"].fn((z3.IntVal(c),)) != 0 for c in range(dims[n])]))
            for n, sc in scalings.items()]


class AffineSlices(Spec):
    """_AffineScalings1D(scalings): the slices are consecutive, start at 0, have the variables' dimensions, in the order of the
    scalings, and `length` is their total -- they partition range(length)."""
    target = SM + ":_AffineScalings1D.__post_init__"

    def configs(self):
        return [dict(dims=k) for k in DIMS]

    def setup(self, cx, cfg):
        dims = DIMS[cfg["dims"]]
        obj, scalings, slices, L = make_scalings(cx, dims)
        obj.f.pop("slices")
        obj.f.pop("length")
        return dict(args=(obj,), obj=obj, dims=dims, want=(slices, L))

    def post(self, cx, st, out):
        obj = st["obj"]
        slices, L = st["want"]
        got = obj.f.get("slices")
        same = isinstance(got, dict) and list(got) == list(slices) and all(
            isinstance(g, slice) and g.step is None and not is_symv(g.start) and not is_symv(g.stop) and (g.start, g.stop) == (w.start, w.stop)
            for g, w in zip(got.values(), slices.values()))
        return [("consecutive slices of the variables' dimensions, in order, from 0", z3.BoolVal(bool(same))),
                ("length = total dimension", z3.BoolVal(obj.f.get("length") == L))]


def is_symv(v):
    return isinstance(v, SV)


class Unscaling(Spec):
    """unscaling(x): for every variable n and component c, result[n][0, c] = loc_n[c] + scale_n[c] * x[offset_n + c]."""
    target = SM + ":_AffineScalings1D.unscaling"

    def configs(self):
        return [dict(dims=k) for k in DIMS]

    def setup(self, cx, cfg):
        dims = DIMS[cfg["dims"]]
        obj, scalings, slices, L = make_scalings(cx, dims)
        x = STensor.sym(cx, "x", (L,), "real")
        return dict(args=(obj, x), scalings=scalings, slices=slices, dims=dims, x=x)

    def post(self, cx, st, out):
        v = out.value
        dims = st["dims"]
        res = [("one tensor per variable, same order", z3.BoolVal(isinstance(v, dict) and list(v) == list(dims)))]
        if not (isinstance(v, dict) and list(v) == list(dims)):
            return res
        for n, d in dims.items():
            t = v[n]
            ok = isinstance(t, STensor) and t.shape_ == (1, d)
            res.append((f"{n}: shape (1, {d})", z3.BoolVal(ok)))
            if ok:
                sc, off = st["scalings"][n], st["slices"][n].start
                res += [(f"{n}[0, {c}] = loc + scale * x[{off + c}]",
                         t.elem_real((z3.IntVal(0), z3.IntVal(c))) == sc.f["loc"].fn((z3.IntVal(c),)) + sc.f["scale"].fn((z3.IntVal(c),)) * st["x"].fn((z3.IntVal(off + c),)))
                        for c in range(d)]
        return res


class Scaling(Spec):
    """scaling(p): result[offset_n + c] = (p[n][c] - loc_n[c]) / scale_n[c], a vector of the total dimension."""
    target = SM + ":_AffineScalings1D.scaling"

    def configs(self):
        return [dict(dims=k) for k in DIMS]

    def setup(self, cx, cfg):
        dims = DIMS[cfg["dims"]]
        obj, scalings, slices, L = make_scalings(cx, dims)
        p = {n: STensor.sym(cx, f"p_{n}", (d,), "real") for n, d in dims.items()}
        return dict(args=(obj, dict(p)), scalings=scalings, slices=slices, dims=dims, p=p, L=L)

    def pre(self, cx, st):
        return nonzero_scales(st["scalings"], st["dims"])

    def post(self, cx, st, out):
        t = out.value
        ok = isinstance(t, STensor) and t.shape_ == (st["L"],)
        res = [("a vector of the total dimension", z3.BoolVal(ok))]
        if ok:
            for n, d in st["dims"].items():
                sc, off = st["scalings"][n], st["slices"][n].start
                res += [(f"[{off + c}] = ({n}[{c}] - loc) / scale",
                         t.elem_real((z3.IntVal(off + c),)) == (st["p"][n].fn((z3.IntVal(c),)) - sc.f["loc"].fn((z3.IntVal(c),))) / sc.f["scale"].fn((z3.IntVal(c),)))
                        for c in range(d)]
        return res


def objective_fn(which, L):
    return z3.Function(f"objective_{which}_{L}", *([z3.RealSort()] * L), z3.RealSort())


class ObjState(Symbolic):
    """one subject's State as the objective sees it: the individual variables it currently holds, and two derived values
    nll_attach / nll_regul_ind_sum that are (unknown) functions of exactly those variables"""

    def __init__(self, cx, dims, init):
        self.cx, self.dims, self.cur = cx, dims, dict(init)
        self.dag = SymObj(object, dict(individual_variable_names=list(dims)))
        self.L = sum(dims.values())

    def components(self):
        out = []
        for n, d in self.dims.items():
            t = self.cur[n]
            out += [t.elem_real((z3.IntVal(0), z3.IntVal(c))) for c in range(d)]
        return out

    def _setitem(self, it, k, v, node=None):
        if k not in self.dims or not isinstance(v, STensor) or v.shape_ != (1, self.dims[k]):
            raise OutOfSubset(f"state[{k!r}] = value of another shape")
        self.cur[k] = v
        it.cx.log_write(("obj", id(self), None))

    def _getitem(self, it, k, node=None):
        if k in ("nll_attach", "nll_regul_ind_sum"):
            f = objective_fn(k, self.L)
            e = f(*self.components())
            return STensor((), lambda idx: e, "real")
        return self.cur[k]

    def _getattr(self, it, name, node=None):
        from pyvc.models import SymCallable
        if name == "get_tensor_value":
            return SymCallable(lambda it_, k: self.cur[k], "State.get_tensor_value")
        if name == "dag":
            return self.dag
        raise OutOfSubset(f"State.{name} in the objective")


def total_objective(L, comps):
    return objective_fn("nll_attach", L)(*comps) + objective_fn("nll_regul_ind_sum", L)(*comps)


def unscaled(scalings, slices, dims, x):
    return [scalings[n].f["loc"].fn((z3.IntVal(c),)) + scalings[n].f["scale"].fn((z3.IntVal(c),)) * x.fn((z3.IntVal(slices[n].start + c),))
            for n, d in dims.items() for c in range(d)]


import scipy.optimize as _sopt
import numpy as np
import torch
from pyvc import tensor as T
from pyvc.models import model as _model
import types as _types


@_model(_sopt.minimize)
def m_minimize(it, fun, x0=None, args=(), jac=None, **kw):
    """scipy.optimize.minimize: an unknown point of the same dimension as x0 (its guarantee fun(res.x) <= fun(x0) is NOT
    assumed here; it is the hypothesis of the non-worsening lemma)"""
    cx = it.cx
    x0t = x0 if isinstance(x0, STensor) else None
    if x0t is None and isinstance(x0, (np.ndarray, torch.Tensor, list, tuple)):
        try:
            x0t = T.from_native(torch.as_tensor(np.asarray(x0, dtype=float)))
        except Exception:
            x0t = None
    if x0t is None or x0t.ndim != 1 or not isinstance(x0t.shape_[0], int):
        raise OutOfSubset("minimize with a start point of unknown dimension")
    k = len(cx.ghost.get("minimize", []))
    res_x = STensor.sym(cx, "res_x" if k == 0 else f"res_x_call{k + 1}", x0t.shape_, "real")      # every call returns its own unknown point
    res_fun = z3.Real("res_fun" if k == 0 else f"res_fun_call{k + 1}")                              # ... and objective value at that point
    cx.ghost.setdefault("minimize", []).append(dict(fun=fun, x0=x0t, args=args, jac=jac, kw=kw, x=res_x, fun_value=res_fun))
    return SymObj(_types.SimpleNamespace, dict(x=res_x, success=SV(z3.Bool(cx.fresh_name("success")), "bool"), fun=SV(res_fun, "real")))


class OnePatient(Spec):
    """_get_individual_parameters_patient(state, scaling=, with_jac=False, patient_id=): scipy's minimize is called on
    obj_no_jac with (state, scaling), the first time from x0 = scaling(the state's current individual variables); the returned
    parameters are unscaling(res.x) of that run (or of a further run whose reported objective value is not larger on that path) and
    the returned loss is the objective nll_attach + 1.0 * nll_regul_ind_sum at exactly those parameters.  (Dropped by the configuration: the convergence-issue logger, set to None.)"""
    target = SM + ":ScipyMinimizeAlgorithm._get_individual_parameters_patient"

    def configs(self):
        return [dict(dims=k) for k in DIMS]

    def setup(self, cx, cfg):
        dims = DIMS[cfg["dims"]]
        obj, scalings, slices, L = make_scalings(cx, dims)
        p0 = {n: STensor.sym(cx, f"p0_{n}", (1, d), "real") for n, d in dims.items()}
        state = ObjState(cx, dims, p0)
        algo = SymObj(resolve(SM + ":ScipyMinimizeAlgorithm"), dict(scipy_minimize_params={"method": "Powell", "options": {"maxiter": 200}},
                                                                     logger=None, format_convergence_issues="", algo_parameters={"progress_bar": False}))
        return dict(args=(algo, state), kwargs=dict(scaling=obj, with_jac=False, patient_id="s"), algo=algo, state=state, obj=obj,
                    scalings=scalings, slices=slices, dims=dims, L=L, p0=p0)

    def pre(self, cx, st):
        return nonzero_scales(st["scalings"], st["dims"])

    def post(self, cx, st, out):
        dims, sc, sl, L = st["dims"], st["scalings"], st["slices"], st["L"]
        calls = cx.ghost.get("minimize", [])
        res = [("minimize is called", z3.BoolVal(len(calls) >= 1))]
        if not calls:
            return res
        c0 = calls[0]
        for c in calls:
            fun = c["fun"]
            res.append(("on the algorithm's obj_no_jac, with (state, scaling), without jacobian",
                        z3.BoolVal(getattr(fun, "func", None) is resolve(SM + ":ScipyMinimizeAlgorithm.obj_no_jac") and getattr(fun, "self_obj", None) is st["algo"]
                                   and len(c["args"]) == 2 and c["args"][0] is st["state"] and c["args"][1] is st["obj"] and c["jac"] is False)))
        res += [(f"(first call) start point [{sl[n].start + c}] = ({n}[{c}] - loc) / scale of the state's current value",
                 c0["x0"].fn((z3.IntVal(sl[n].start + c),)) == (st["p0"][n].fn((z3.IntVal(0), z3.IntVal(c))) - sc[n].f["loc"].fn((z3.IntVal(c),))) / sc[n].f["scale"].fn((z3.IntVal(c),)))
                for n, d in dims.items() for c in range(d)]
        v = out.value
        ok = isinstance(v, tuple) and len(v) == 2 and isinstance(v[0], dict) and list(v[0]) == list(dims)
        res.append(("returns (parameters per variable, loss)", z3.BoolVal(ok)))
        if ok:
            got = []
            shapes = True
            for n, d in dims.items():
                t = v[0][n]
                shapes = shapes and isinstance(t, STensor) and t.shape_ == (1, d)
                if shapes:
                    got += [t.elem_real((z3.IntVal(0), z3.IntVal(c))) for c in range(d)]
            res.append(("every variable has shape (1, dimension)", z3.BoolVal(bool(shapes))))
            if shapes:
                # the returned point is the result of the run started from the state's values -- or of another run whose reported
                # objective value is, on this path, not larger than that run's (scipy reports fun = objective at x)
                alts = []
                for r, c in enumerate(calls):
                    same = z3.And(*[g == w for g, w in zip(got, unscaled(sc, sl, dims, c["x"]))])
                    alts.append(same if r == 0 else z3.And(same, c["fun_value"] <= c0["fun_value"]))
                res.append(("returned parameters = unscaling(res.x) of the run started from the state's values (or of a run reported at least as good)", z3.Or(*alts)))
                res.append(("returned loss = objective at the returned parameters", z(v[1], "real") == total_objective(L, got)))
        return res


def LEMMAS():
    """optimisation-based personalisation is non-worsening, given scipy's guarantee"""
    out = []
    for label, dims in DIMS.items():
        L = sum(dims.values())
        p0 = [z3.Real(f"p0_{q}") for q in range(L)]
        loc = [z3.Real(f"loc_{q}") for q in range(L)]
        scale = [z3.Real(f"scale_{q}") for q in range(L)]
        rx = [z3.Real(f"resx_{q}") for q in range(L)]
        x0 = [(p0[q] - loc[q]) / scale[q] for q in range(L)]                       # OnePatient: start point (Scaling's contract)
        ret = [loc[q] + scale[q] * rx[q] for q in range(L)]                        # OnePatient: returned parameters (Unscaling's contract)

        def G(x):                                                                   # what minimize evaluates: obj_no_jac = objective o unscaling
            return total_objective(L, [loc[q] + scale[q] * x[q] for q in range(L)])
        out.append((f"non-worsening [{label}]: if scipy's result is not worse than its start point in the scaled coordinates, the returned "
                    "parameters' objective is not worse than the objective at the state's starting values",
                    [z3.And(*[s_ != 0 for s_ in scale]), G(rx) <= G(x0)] +
                    [loc[q] + scale[q] * ((p0[q] - loc[q]) / scale[q]) == p0[q] for q in range(L)],      # unscaling o scaling = id (checked below)
                    total_objective(L, ret) <= total_objective(L, p0)))
        out.append((f"unscaling o scaling = identity [{label}]", [z3.And(*[s_ != 0 for s_ in scale])],
                    z3.And(*[loc[q] + scale[q] * ((p0[q] - loc[q]) / scale[q]) == p0[q] for q in range(L)])))
    return out


class ObjNoJac(Spec):
    """obj_no_jac(x, state, scaling): puts unscaling(x) into the state and returns nll_attach + 1.0 * nll_regul_ind_sum read
    from that state -- i.e. the objective at unscaling(x)."""
    target = SM + ":ScipyMinimizeAlgorithm.obj_no_jac"

    def configs(self):
        return [dict(dims=k) for k in DIMS]

    def setup(self, cx, cfg):
        dims = DIMS[cfg["dims"]]
        obj, scalings, slices, L = make_scalings(cx, dims)
        p0 = {n: STensor.sym(cx, f"p0_{n}", (1, d), "real") for n, d in dims.items()}
        state = ObjState(cx, dims, p0)
        algo = SymObj(resolve(SM + ":ScipyMinimizeAlgorithm"), {})
        x = STensor.sym(cx, "x", (L,), "real")
        return dict(args=(algo, x, state, obj), state=state, scalings=scalings, slices=slices, dims=dims, L=L, x=x)

    def post(self, cx, st, out):
        want = unscaled(st["scalings"], st["slices"], st["dims"], st["x"])
        return [("the state holds unscaling(x)", z3.And(*[g == w for g, w in zip(st["state"].components(), want)])),
                ("returns the objective at unscaling(x)", z(out.value, "real") == total_objective(st["L"], want))]


PDV = z3.DeclareSort("OnePatientResult")
PDV_CODEC = Codec(PDV, wrap=lambda e: SV(e, "u:PDV"), name="one subject's optimisation result")


def align_iter_post(cx, env, snap, k, view):
    g = cx.ghost
    calls = g.get("adds", [])[snap:]
    res = [("exactly one addition per input individual", z3.BoolVal(len(calls) == 1))]
    if len(calls) == 1:
        ip, idx, d = calls[0]
        res += [("to the container that is returned", z3.BoolVal(ip is env.get("individual_parameters"))),
                ("under the k-th input identifier, as a string", z(idx) == g["indices"].at(k) if isinstance(idx, SV) and idx.kind == "str" else z3.BoolVal(False)),
                ("with the k-th optimisation result", d.e == g["results"].at(k) if isinstance(d, SV) and d.kind == "u:PDV" else z3.BoolVal(False))]
    return res


class ScipyAlignment(Spec):
    """ScipyMinimizeAlgorithm._compute_individual_parameters, last two statements (dropped: everything before -- the per-subject
    datasets / states and the joblib call that produces ind_p_all, assumed to return its results in the order of its inputs):
    a new container receives, for every position k, exactly one addition: identifier dataset.indices[k] with result k."""
    target = SM + ":ScipyMinimizeAlgorithm._compute_individual_parameters"
    fragment = (lambda t: t.startswith("individual_parameters = IndividualParameters()"), lambda t: t.startswith("for id_pat, ind_params_pat in zip("))
    loops = {("ScipyMinimizeAlgorithm._compute_individual_parameters", 1): LoopSpec(
        lambda cx, env, k, view: [], modifies=lambda cx, env: [],
        iter_pre=lambda cx, env, k, view: len(cx.ghost.get("adds", [])), iter_post=align_iter_post)}

    def setup(self, cx, cfg):
        from pyvc.coll import SSeq
        indices = SSeq(cx, STR, "indices", pytype=list)
        results = SSeq(cx, PDV_CODEC, "ind_p_all", pytype=list)
        cx.ghost.update(indices=indices, results=results)
        ds = SymObj(object, dict(indices=indices))
        from leaspy.io.outputs.individual_parameters import IndividualParameters
        return dict(env={"dataset": ds, "ind_p_all": results, "IndividualParameters": IndividualParameters}, indices=indices, results=results)

    def pre(self, cx, st):
        return [("one result per individual", z3.And(st["indices"].length >= 0, st["results"].length == st["indices"].length))]

    def post(self, cx, st, out):
        from leaspy.io.outputs.individual_parameters import IndividualParameters
        v = out.value.get("individual_parameters")
        return [("a new container is built", z3.BoolVal(isinstance(v, SymObj) and v.cls is IndividualParameters))]


import random as _random
from contracts.c03 import m_shuffle  # noqa: F401  (model of random.shuffle)

UNITS = [MeanEstimator(), ModeEstimator(), HistoryContainers(), KeptSampleLoop(), EstimatorHandOff(), AffineSlices(), Unscaling(), Scaling(), ObjNoJac(), OnePatient(), ScipyAlignment()]
from contracts.c16 import AddProbe
CALLEES = [SampleProbe(), TemperatureProbe(), AddProbe(), EstimatorProbe(), EstimatorProbeMode()]
ASSUMPTIONS = ["C17: real arithmetic for tensors (no NaN / rounding): the mean is the exact quotient, argmin returns the first minimal entry",
               "C17: torch.argmin modelled by its documented contract (index of the first minimum along the dimension)"]
NOT_DECIDED = ["objective at the returned point vs the start point (scipy's guarantee), finiteness: bounded stand-in only"]
