"""C13 -- estimate / personalize / simulate leave the model untouched.  Under contract (deductively), as frame conditions with
the State's methods as call-site probes (their own contracts are C01's: clone is value-equal and shares no cache; __setitem__
writes only the state it is called on):
  * compute_individual_trajectory / compute_prior_trajectory: every write goes to a clone (auto-fork disabled) of the model's
    state, the result is read from that clone, and the model's own state is neither written nor replaced;
  * McmcPersonalizeAlgorithm._compute_individual_parameters: likewise writes only to a clone;
  * McmcPersonalizeAlgorithm._terminate_algo: the model receives a clone of the working state whose data variables and
    individual latent variables have been unset -- nothing of the call stays behind;
  * ScipyMinimizeAlgorithm._compute_individual_parameters, per-individual loop: every individual gets its own clone
    (auto-fork disabled) whose individual latent variables are unset before the data and the starting point are put, and
    the model's state itself is never written -- so the result cannot depend on values an earlier call left in it;
  * BaseAlgorithm.__init__ deep-copies the settings' parameters (C11's unit, re-used): a settings object can be reused.
That the readers copy the caller's table, and the end-to-end history independence, are decided by the bounded stand-in only."""
import types

import z3

from pyvc.api import *
from pyvc.core import Symbolic
from pyvc.tensor import STensor

MODEL = "leaspy.models.mcmc_saem_compatible:McmcSaemCompatibleModel"
STATE = "leaspy.variables.state:State"


class Probe(Spec):
    def __init__(self, target, label, result=None):
        self.target, self.label, self._result = target, label, result

    def bind(self, it, args, kwargs):
        return dict(args=args, kwargs=kwargs)

    def havoc(self, cx, st):
        cx.ghost.setdefault("calls", []).append((self.label, st["args"], st["kwargs"]))

    def result(self, cx, st):
        return self._result(cx, st) if self._result else None


def new_clone(cx, st):
    from leaspy.variables.state import State
    src = st["args"][0]
    c = SymObj(State, dict(dag=src.f.get("dag"), auto_fork_type=None if st["kwargs"].get("disable_auto_fork") else src.f.get("auto_fork_type")),
               label=f"clone#{len(cx.ghost.setdefault('clones', [])) + 1}")
    cx.ghost["clones"].append((c, src, dict(st["kwargs"])))
    return c


def read_value(cx, st):
    return STensor.sym(cx, f"read_{st['args'][1]}", (2, 3), "real")


def model_state(cx):
    from leaspy.variables.state import State
    dag = SymObj(types.SimpleNamespace, dict(individual_variable_names=["tau", "xi"]), label="dag")
    return SymObj(State, dict(dag=dag, auto_fork_type="REF"), label="model state")


def calls(cx, label=None):
    return [c for c in cx.ghost.get("calls", []) if label is None or c[0] == label]


def writes_only_to_clones(cx, own_state):
    clones = [c[0] for c in cx.ghost.get("clones", [])]
    writers = [c for c in calls(cx) if c[0] in ("set", "put_individual", "put_population")]
    return [("every state write goes to a clone made by this call", z3.BoolVal(all(any(w[1][0] is c for c in clones) for w in writers))),
            ("the model's own state is never written", z3.BoolVal(all(w[1][0] is not own_state for w in writers)))]


class TrajectoryOnClone(Spec):
    """compute_individual_trajectory(timepoints, individual_parameters): one clone of the model's state with auto-fork disabled;
    the time-points and every individual parameter are written to that clone only; the result is the clone's 'model'
    value; the model's state is neither written nor replaced."""
    target = MODEL + ".compute_individual_trajectory"

    def setup(self, cx, cfg):
        from leaspy.models.logistic import LogisticModel
        s = model_state(cx)
        m = SymObj(LogisticModel, dict(_state=s), label="model")
        tp = STensor.sym(cx, "timepoints", (1, z3.Int("n_t")), "real")
        ips = {"xi": STensor.sym(cx, "xi", (1, 1), "real"), "tau": STensor.sym(cx, "tau", (1, 1), "real")}
        cx.ghost["tensorized"] = (tp, ips)
        return dict(args=(m, [70.0, 71.0], {"xi": 0.1, "tau": 70.0}), m=m, s=s, tp=tp, ips=ips)

    def frame(self, cx, st):
        return []

    def post(self, cx, st, out):
        clones = cx.ghost.get("clones", [])
        res = [("exactly one clone, of the model's state, with auto-fork disabled",
                z3.BoolVal(len(clones) == 1 and clones[0][1] is st["s"] and clones[0][2].get("disable_auto_fork") is True))]
        res += writes_only_to_clones(cx, st["s"])
        sets = calls(cx, "set")
        res.append(("time-points and each individual parameter are written once", z3.BoolVal(sorted(c[1][1] for c in sets) == ["t", "tau", "xi"])))
        gets = calls(cx, "get")
        res.append(("the result is the clone's 'model' value", z3.BoolVal(len(gets) >= 1 and gets[-1][1][1] == "model" and bool(clones) and gets[-1][1][0] is clones[0][0]
                                                                           and isinstance(out.value, STensor))))
        res.append(("the model keeps its own state object", z3.BoolVal(st["m"].f.get("_state") is st["s"])))
        return res


class PriorTrajectoryOnClone(Spec):
    """compute_prior_trajectory(timepoints, prior_type): same frame -- everything happens on a clone with auto-fork disabled."""
    target = MODEL + ".compute_prior_trajectory"

    def configs(self):
        return [dict(kind="mode"), dict(kind="samples")]

    def setup(self, cx, cfg):
        from leaspy.models.logistic import LogisticModel
        from leaspy.variables.specs import LatentVariableInitType as L
        s = model_state(cx)
        m = SymObj(LogisticModel, dict(_state=s), label="model")
        tp = STensor.sym(cx, "timepoints", (1, z3.Int("n_t")), "real")
        kw = dict(n_individuals=3) if cfg["kind"] == "samples" else {}
        return dict(args=(m, tp, L.PRIOR_SAMPLES if cfg["kind"] == "samples" else L.PRIOR_MODE), kwargs=kw, m=m, s=s)

    def frame(self, cx, st):
        return []

    def post(self, cx, st, out):
        clones = cx.ghost.get("clones", [])
        res = [("exactly one clone, of the model's state, with auto-fork disabled",
                z3.BoolVal(len(clones) == 1 and clones[0][1] is st["s"] and clones[0][2].get("disable_auto_fork") is True))]
        res += writes_only_to_clones(cx, st["s"])
        res.append(("the individual latent variables are put on the clone", z3.BoolVal(len(calls(cx, "put_individual")) == 1)))
        res.append(("the model keeps its own state object", z3.BoolVal(st["m"].f.get("_state") is st["s"])))
        return res


class McmcPersonalizeOnClone(Spec):
    """McmcPersonalizeAlgorithm._compute_individual_parameters: after the sampling (probe), the bookkeeping state is a clone
    (auto-fork disabled) of the model's state; data and individual values are written to that clone only."""
    target = "leaspy.algo.personalize.mcmc:McmcPersonalizeAlgorithm._compute_individual_parameters"

    def setup(self, cx, cfg):
        from leaspy.algo.personalize.mean_posterior import MeanPosteriorAlgorithm
        from leaspy.models.logistic import LogisticModel
        s = model_state(cx)
        m = SymObj(LogisticModel, dict(_state=s), label="model")
        a = SymObj(MeanPosteriorAlgorithm, {}, label="algo")
        ds = SymObj(types.SimpleNamespace, {}, label="dataset")
        return dict(args=(a, m, ds), m=m, s=s, a=a)

    def frame(self, cx, st):
        return []

    def post(self, cx, st, out):
        clones = cx.ghost.get("clones", [])
        res = [("one clone of the model's state, auto-fork disabled", z3.BoolVal(len(clones) == 1 and clones[0][1] is st["s"] and clones[0][2].get("disable_auto_fork") is True))]
        res += writes_only_to_clones(cx, st["s"])
        pd_ = calls(cx, "put_data")
        res.append(("the data are put on the clone", z3.BoolVal(len(pd_) == 1 and bool(clones) and pd_[0][1][1] is clones[0][0])))
        res.append(("returns what the sampling returned", z3.BoolVal(out.value is cx.ghost.get("the_ip"))))
        return res


class TerminateLeavesNothing(Spec):
    """McmcPersonalizeAlgorithm._terminate_algo(model, state): the model receives a CLONE of the working state on which, with
    auto-fork off, the data variables are reset and the individual latent variables unset; the working state is not written."""
    target = "leaspy.algo.personalize.mcmc:McmcPersonalizeAlgorithm._terminate_algo"

    def setup(self, cx, cfg):
        from leaspy.algo.personalize.mean_posterior import MeanPosteriorAlgorithm
        from leaspy.models.logistic import LogisticModel
        s = model_state(cx)
        old = model_state(cx)
        old.f["dag"] = s.f["dag"]
        m = SymObj(LogisticModel, dict(_state=old), label="model")
        a = SymObj(MeanPosteriorAlgorithm, {}, label="algo")
        return dict(args=(a, m, s), m=m, s=s)

    def post(self, cx, st, out):
        clones = cx.ghost.get("clones", [])
        cs = calls(cx)
        ok = len(clones) == 1 and clones[0][1] is st["s"]
        res = [("one clone of the working state", z3.BoolVal(ok))]
        if ok:
            c = clones[0][0]
            reset = [x for x in cs if x[0] == "reset_data"]
            unset = [x for x in cs if x[0] == "put_individual"]
            res += [("the data variables of the clone are reset", z3.BoolVal(len(reset) == 1 and reset[0][1][1] is c)),
                    ("the individual latent variables of the clone are unset", z3.BoolVal(len(unset) == 1 and unset[0][1][0] is c and unset[0][1][1] is None)),
                    ("the clone becomes the model's state", z3.BoolVal(st["m"].f.get("_state") is c)),
                    ("the working state is not written", z3.BoolVal(all(x[1][0] is not st["s"] for x in cs if x[0] in ("set", "put_individual"))))]
        return res


def scipy_iter_pre(cx, env, k, view):
    return dict(calls=len(cx.ghost.get("calls", [])), clones=len(cx.ghost.get("clones", [])))


def scipy_iter_post(cx, env, snap, k, view):
    g = cx.ghost
    new_calls = g.get("calls", [])[snap["calls"]:]
    new_clones = g.get("clones", [])[snap["clones"]:]
    ok = len(new_clones) == 1 and new_clones[0][1] is g["model_state"] and new_clones[0][2].get("disable_auto_fork") is True
    res = [("the individual gets its own clone of the model's state, auto-fork disabled", z3.BoolVal(ok))]
    if ok:
        c = new_clones[0][0]
        new_calls = [x for x in new_calls if x[0] != "clone"]
        labels = [x[0] for x in new_calls]
        res += [("unset the clone's individual latent variables, then put the data, then the starting point",
                 z3.BoolVal(labels == ["put_individual", "put_data", "put_start"])),
                ("all three on that clone", z3.BoolVal(len(new_calls) == 3 and new_calls[0][1][0] is c and new_calls[0][1][1] is None
                                                       and new_calls[1][1][1] is c and new_calls[2][1][1] is c)),
                ("the model's own state is not written", z3.BoolVal(all(x[1][0] is not g["model_state"] for x in new_calls if x[0] in ("set", "put_individual"))))]
    return res


class StatesMap(Symbolic):
    """the local dict `states` (identifier -> clone)"""

    def __init__(self):
        self.last = None

    def _setitem(self, it, k, v, node=None):
        self.last = (k, v)
        it.cx.log_write(("obj", id(self), None))

    def _getitem(self, it, k, node=None):
        return self.last[1]

    def _havoc(self, cx):
        pass


class DatasetsMap(Symbolic):
    def _getitem(self, it, k, node=None):
        return SymObj(types.SimpleNamespace, {}, label="dataset of one individual")


class ScipyPerIndividualClones(Spec):
    """ScipyMinimizeAlgorithm._compute_individual_parameters, the loop that prepares one state per individual (dropped: the
    pandas re-ingestion before it and the optimisation after it): for an arbitrary individual -- a fresh clone of the model's
    state with auto-fork disabled, its individual latent variables unset BEFORE the individual's data and starting point
    are put on it; the model's own state is never written."""
    target = "leaspy.algo.personalize.scipy_minimize:ScipyMinimizeAlgorithm._compute_individual_parameters"
    fragment = (lambda t: t.startswith("for idx in dataset.indices"), lambda t: t.startswith("for idx in dataset.indices"))
    loops = {("ScipyMinimizeAlgorithm._compute_individual_parameters", 0): LoopSpec(
        lambda cx, env, k, view: [], modifies=lambda cx, env: [env["states"]], iter_pre=scipy_iter_pre, iter_post=scipy_iter_post)}

    def setup(self, cx, cfg):
        from pyvc.coll import SSeq
        from leaspy.models.logistic import LogisticModel
        s = model_state(cx)
        cx.ghost["model_state"] = s
        m = SymObj(LogisticModel, dict(_state=s), label="model")
        indices = SSeq(cx, STR, "indices", pytype=list)
        ds = SymObj(types.SimpleNamespace, dict(indices=indices))
        return dict(env={"dataset": ds, "state": s, "model": m, "states": StatesMap(), "datasets": DatasetsMap()}, s=s, indices=indices)

    def pre(self, cx, st):
        return [("number of individuals", st["indices"].length >= 0)]

    def post(self, cx, st, out):
        return [("the loop ends", z3.BoolVal(True))]


def the_ip(cx, st):
    from leaspy.io.outputs.individual_parameters import IndividualParameters
    ip = SymObj(IndividualParameters, {}, label="individual parameters")
    cx.ghost["the_ip"] = ip
    return ip


class IpToPytorch(Probe):
    pass


from contracts.c11 import InitCopies          # BaseAlgorithm.__init__: deep copy of the settings' parameters, settings untouched
UNITS = [TrajectoryOnClone(), PriorTrajectoryOnClone(), McmcPersonalizeOnClone(), TerminateLeavesNothing(), ScipyPerIndividualClones(), InitCopies()]
# simulate's constructor on table-driven designs leaves the caller's table as it was (contract of C18, verified in its own context)
from contracts import c18 as _c18
UNITS += [foreign(_c18.SimInitTable(), "c18")]
# "leave none of the call's individual latent values behind": the un-setting used by every personalisation goes through the
# state's own assignment, so that nothing derived from them stays cached either
from contracts import c12 as _c12
UNITS += [foreign(_c12.UnsetIndividuals(), "c12")]
CALLEES = [Probe(STATE + ".clone", "clone", new_clone), Probe(STATE + ".__setitem__", "set"), Probe(STATE + ".__getitem__", "get", read_value),
           Probe(STATE + ".put_individual_latent_variables", "put_individual"), Probe(STATE + ".put_population_latent_variables", "put_population"),
           Probe(MODEL + ".put_data_variables", "put_data"), Probe(MODEL + ".reset_data_variables", "reset_data"),
           Probe("leaspy.models.time_reparametrized:TimeReparametrizedModel.put_individual_parameters", "put_start"),
           Probe(MODEL + "._get_tensorized_inputs", "tensorize", lambda cx, st: cx.ghost["tensorized"]),
           Probe(MODEL + "._check_individual_parameters_provided", "check_ips"),
           Probe("leaspy.algo.personalize.mcmc:McmcPersonalizeAlgorithm._get_individual_parameters", "sampling", the_ip),
           Probe("leaspy.io.outputs.individual_parameters:IndividualParameters.to_pytorch", "to_pytorch",
                 lambda cx, st: (["a"], {"xi": STensor.sym(cx, "ip_xi", (1, 1), "real"), "tau": STensor.sym(cx, "ip_tau", (1, 1), "real")}))]
ASSUMPTIONS = ["C13: State.clone / __setitem__ / __getitem__ / put_*_latent_variables and the model's put_data_variables / reset_data_variables / "
               "put_individual_parameters are call-site probes; a clone shares no mutable value with its source and a write touches only the state "
               "it is called on (C01 contracts: Clone, SetItem)",
               "C13: tensors held by a state are not mutated in place by the callers (assumed; torch in-place operators are outside the subset)"]
NOT_DECIDED = ["the readers' copy of the caller's table, joblib workers, and bit-identical results across histories: bounded stand-in only"]
LEVEL = "other"
