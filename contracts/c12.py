"""C12 -- a fitted model is self-consistent and survives save / load.  Under contract (deductively):
  * for every population latent variable of the real graph of each shipped model kind, the PRIOR_MODE initialisation function
    returns the location parameter of its prior, entry by entry (mode of the prior under the current parameters);
  * State.put_population_latent_variables(method) assigns every population latent variable exactly once -- that value, or
    None -- and nothing else;
  * the last statements of TensorMcmcSaemAlgorithm._run: the model receives a CLONE of the training state on which the
    population latent variables were put at their prior mode (the training state itself is returned untouched);
  * ModelSettings: name / parameters / every other key as hyper-parameter, refusal of incomplete files;
  * BaseModel.to_dict: every parameter and hyper-parameter is written (tensor_to_list), with name, features and dimension.
The JSON text, model_factory and load_parameters (tensor construction per declared shape) are run natively by the bounded
stand-in (save -> load -> save on fitted and hand-written models)."""
import z3

from pyvc.api import *
from pyvc.core import Symbolic
from pyvc.tensor import STensor, dim_z3
from contracts import dagsym as D


def pop_latents():
    from leaspy.variables.specs import PopulationLatentVariable
    out = []
    for label, (kind, kw) in list(D.KINDS.items()) + list(D.EXTRA_KINDS.items()):
        m, specs = D.model_specs(kind, **kw)
        out += [(label, name) for name in specs if isinstance(specs[name], PopulationLatentVariable)]
    return out


class PriorModeInit(Spec):
    """LatentVariable._get_init_func_generic('mode') . call(state) for every population latent variable of every shipped model
    kind: the value has the variable's shape and equals, entry by entry, the location parameter of its prior read from the
    state (the mode of a Normal prior is its location)."""
    target = "leaspy.variables.specs:PopulationLatentVariable.get_init_func"

    def configs(self):
        return [dict(kind=k_, var=v_) for k_, v_ in pop_latents()]

    def cfg_label(self, cfg):
        return f"{cfg['kind']}:{cfg['var']}"

    def setup(self, cx, cfg):
        from leaspy.variables.specs import LatentVariableInitType
        m, specs, vals, F, K = D.layouts(cx, cfg["kind"])
        var = specs[cfg["var"]]
        return dict(args=(var, LatentVariableInitType.PRIOR_MODE), var=var, vals=vals, specs=specs)

    def post(self, cx, st, out):
        f = out.value
        var, vals = st["var"], st["vals"]
        got = cx.it.call(ops_getattr(cx, f, "call"), (vals,), {})
        loc_name = var.prior.parameters_names[0]
        loc = vals[loc_name]
        want = vals[st["cfg"]["var"]]           # layout of the variable itself
        ok = isinstance(got, STensor) and isinstance(loc, STensor) and got.ndim == want.ndim
        res = [("a tensor of the variable's rank", z3.BoolVal(bool(ok)))]
        if ok:
            idx = tuple(z3.Int(f"i{q}") for q in range(got.ndim))
            res.append(("the variable's shape", z3.And(*[dim_z3(a) == dim_z3(b) for a, b in zip(got.shape_, want.shape_)])))
            lidx = idx[got.ndim - loc.ndim:]
            lidx = tuple(z3.IntVal(0) if (isinstance(d, int) and d == 1) else i for i, d in zip(lidx, loc.shape_))
            res.append((f"every entry is the prior's location {loc_name}", z3.ForAll(list(idx), z3.Implies(got.in_range(idx), got.fn(idx) == loc.fn(lidx))) if idx else got.fn(()) == loc.fn(())))
        return res


def ops_getattr(cx, obj, name):
    from pyvc import ops
    return ops.getattr_(cx.it, obj, name)


# ------------------------------------------------------------------------------------------------------------------
class SetProbe(Spec):
    target = "leaspy.variables.state:State.__setitem__"

    def bind(self, it, args, kwargs):
        return dict(args=args)

    def havoc(self, cx, st):
        cx.ghost.setdefault("sets", []).append(st["args"])


class GetProbe(Spec):
    target = "leaspy.variables.state:State.__getitem__"

    def bind(self, it, args, kwargs):
        return dict(args=args)

    def havoc(self, cx, st):
        cx.ghost.setdefault("gets", []).append((st["args"][1], len(cx.ghost.get("sets", []))))

    def result(self, cx, st):
        name = st["args"][1]
        return STensor.sym(cx, f"state_{name}_after_{len(cx.ghost.get('sets', []))}_sets", (2,), "real")


class UnsetIndividuals(Spec):
    """State.put_individual_latent_variables(None): every individual latent variable of the graph is unset through the state's own
    assignment (State.__setitem__, which resets the dependents and the fork: contract of C01) -- exactly once each, nothing else is
    assigned, and the private value table is not written behind its back."""
    target = "leaspy.variables.state:State.put_individual_latent_variables"

    def configs(self):
        return [dict(kind=k_) for k_ in list(D.KINDS) + list(D.EXTRA_KINDS)]

    def setup(self, cx, cfg):
        import types
        from leaspy.variables.state import State
        from leaspy.variables.specs import IndividualLatentVariable
        kind, kw = D.KINDS.get(cfg["kind"]) or D.EXTRA_KINDS[cfg["kind"]]
        m, specs = D.model_specs(kind, **kw)
        inds = {n_: specs[n_] for n_ in specs if isinstance(specs[n_], IndividualLatentVariable)}
        from pyvc.core import Symbolic

        class DagStub(Symbolic):
            def _getattr(self_, it, name, node=None):
                if name == "sorted_variables_by_type":
                    return {IndividualLatentVariable: inds}
                raise OutOfSubset(f"dag.{name}")

            def _getitem(self_, it, k, node=None):
                return specs[k]
        dag = DagStub()
        values = {n_: STensor.sym(cx, "stored_" + n_, (D.n, 1)) for n_ in inds}
        values["model"] = STensor.sym(cx, "stored_model", (D.n, 2, 3))          # a cached derived value
        s = SymObj(State, dict(dag=dag, _values=values, _last_fork=None))
        return dict(args=(s, None), self=s, inds=inds, values=values, snapshot=dict(values))

    def frame(self, cx, st):
        return []          # nothing of the state object is written directly: everything goes through __setitem__ (probe)

    def post(self, cx, st, out):
        sets = cx.ghost.get("sets", [])
        return [("every individual latent variable is unset through State.__setitem__, exactly once each, and nothing else is assigned",
                 z3.BoolVal(sorted(a[1] for a in sets) == sorted(st["inds"]) and all(a[0] is st["self"] and a[2] is None for a in sets))),
                ("the private value table is not written directly", z3.BoolVal(st["values"] == st["snapshot"] and st["self"].f.get("_values") is st["values"]))]


class PutPopulation(Spec):
    """State.put_population_latent_variables(method): every population latent variable of the graph is assigned exactly once,
    in graph order, and nothing else is assigned; with method None the value is None, otherwise it is that variable's
    initialisation function evaluated on this state, and that evaluation reads no population latent variable."""
    target = "leaspy.variables.state:State.put_population_latent_variables"

    def configs(self):
        return [dict(kind=k_, method=m_) for k_ in list(D.KINDS) + list(D.EXTRA_KINDS) for m_ in ("mode", None)]

    def cfg_label(self, cfg):
        return f"{cfg['kind']}:{cfg['method']}"

    def setup(self, cx, cfg):
        import types
        from leaspy.variables.state import State
        from leaspy.variables.specs import PopulationLatentVariable, LatentVariableInitType
        kind, kw = D.KINDS.get(cfg["kind"]) or D.EXTRA_KINDS[cfg["kind"]]
        m, specs = D.model_specs(kind, **kw)
        pops = {n_: specs[n_] for n_ in specs if isinstance(specs[n_], PopulationLatentVariable)}
        dag = SymObj(types.SimpleNamespace, dict(sorted_variables_by_type={PopulationLatentVariable: pops}))
        s = SymObj(State, dict(dag=dag))
        method = LatentVariableInitType.PRIOR_MODE if cfg["method"] else None
        return dict(args=(s, method), self=s, pops=pops)

    def post(self, cx, st, out):
        sets = cx.ghost.get("sets", [])
        gets = cx.ghost.get("gets", [])
        pops = st["pops"]
        res = [("every population latent variable is assigned exactly once, in order, on this state, and nothing else",
                z3.BoolVal([a[1] for a in sets] == list(pops) and all(a[0] is st["self"] for a in sets)))]
        if st["cfg"]["method"] is None:
            res.append(("the value is None", z3.BoolVal(all(a[2] is None for a in sets))))
        else:
            res.append(("the value is a tensor computed from the state", z3.BoolVal(all(isinstance(a[2], STensor) for a in sets))))
            res.append(("computing the values reads no population latent variable (the modes are those under the parameters)",
                        z3.BoolVal(all(g[0] not in pops for g in gets))))
            want = {n_: set(v_.prior.parameters_names) for n_, v_ in pops.items()}
            reads_ok = True
            for k_, name in enumerate(pops):
                mine = {g[0] for g in gets if g[1] == k_}
                reads_ok = reads_ok and mine == want[name]
            res.append(("each value is computed from exactly the parameters of that variable's prior", z3.BoolVal(reads_ok)))
        return res


# ------------------------------------------------------------------------------------------------------------------
class CloneProbe(Spec):
    target = "leaspy.variables.state:State.clone"

    def bind(self, it, args, kwargs):
        return dict(args=args, kwargs=kwargs)

    def havoc(self, cx, st):
        cx.ghost.setdefault("events", []).append(("clone", st["args"][0], st["kwargs"]))

    def result(self, cx, st):
        from leaspy.variables.state import State
        c = SymObj(State, dict(auto_fork_type="REF-of-clone"), label="clone")
        cx.ghost["the_clone"] = c
        return c


class PutPopProbe(Spec):
    target = "leaspy.variables.state:State.put_population_latent_variables"

    def bind(self, it, args, kwargs):
        return dict(args=args, kwargs=kwargs)

    def havoc(self, cx, st):
        cx.ghost.setdefault("events", []).append(("put_population", st["args"][0], st["args"][1], st["args"][0].f.get("auto_fork_type"),
                                                  len(cx.ghost.get("sets", []))))


class FitEnd(Spec):
    """TensorMcmcSaemAlgorithm._run, from `model_state = state.clone()` to `return state` (dropped: the iterations before): the
    training state is cloned once, the population latent variables of THE CLONE are put at their prior mode while its
    auto-fork is off (and restored afterwards), the clone becomes model.state, and the training state itself is returned."""
    target = "leaspy.algo.fit.mcmc_saem:TensorMcmcSaemAlgorithm._run"
    fragment = (lambda t: t.startswith("model_state ="), lambda t: t.startswith("return state"))

    def setup(self, cx, cfg):
        from leaspy.variables.state import State
        from leaspy.variables.specs import LatentVariableInitType
        state = SymObj(State, dict(auto_fork_type="REF"), label="training state")
        model = SymObj(object, {}, label="model")
        return dict(env={"state": state, "model": model, "LatentVariableInitType": LatentVariableInitType}, state=state, model=model)

    def post(self, cx, st, out):
        from leaspy.variables.specs import LatentVariableInitType
        ev = cx.ghost.get("events", [])
        clone = cx.ghost.get("the_clone")
        env = out.value
        ok_seq = [e[0] for e in ev] == ["clone", "put_population"]
        res = [("one clone, then one initialisation of the population latent variables", z3.BoolVal(ok_seq))]
        if ok_seq:
            res += [("the training state is what gets cloned", z3.BoolVal(ev[0][1] is st["state"])),
                    ("the population latent variables of the clone are put at PRIOR_MODE", z3.BoolVal(ev[1][1] is clone and ev[1][2] is LatentVariableInitType.PRIOR_MODE)),
                    ("with the clone's auto-fork switched off during the assignment", z3.BoolVal(ev[1][3] is None)),
                    ("and restored afterwards", z3.BoolVal(clone.f.get("auto_fork_type") == "REF-of-clone")),
                    ("the clone becomes the model's state", z3.BoolVal(st["model"].f.get("state") is clone)),
                    ("the training state is not re-assigned", z3.BoolVal(env.get("state") is st["state"] and st["state"].f.get("auto_fork_type") == "REF")),
                    ("the training state is returned", z3.BoolVal(env.get("__return__") is st["state"]))]
        return res


class LoadParametersTail(Spec):
    """StatefulModel.load_parameters, from the loop that stores the provided parameters to the initialisation of the population latent
    variables (dropped: the validation before, the consistency checks after): every provided parameter is assigned to the model's
    state, and AFTER all of them the population latent variables of that state are put at the mode of their priors -- on every
    call, whether the state was just created or the model already had one (parameters "written by hand" on a live model)."""
    target = "leaspy.models.stateful:StatefulModel.load_parameters"
    fragment = (lambda t: t.startswith("for p, val in provided_params.items()"), lambda t: "put_population_latent_variables" in t)

    def configs(self):
        return [dict(state="already there"), dict(state="just created")]

    def setup(self, cx, cfg):
        from leaspy.variables.state import State
        from leaspy.variables.specs import LatentVariableInitType
        from leaspy.models.logistic import LogisticModel
        state = SymObj(State, dict(auto_fork_type=None), label="model state")
        model = SymObj(LogisticModel, dict(_state=state), label="model")
        provided = {"log_g_mean": STensor.sym(cx, "new_log_g_mean", (2,)), "tau_mean": STensor.sym(cx, "new_tau_mean", ()),
                    "noise_std": STensor.sym(cx, "new_noise_std", ())}
        env = {"self": model, "provided_params": provided, "LatentVariableInitType": LatentVariableInitType,
               "parameters": dict(provided), "params_names": list(provided)}
        # locals a reasonable implementation may have computed before this point
        env["is_fresh_state"] = env["fresh_state"] = env["state_was_none"] = (cfg["state"] == "just created")
        return dict(env=env, state=state, model=model, provided=provided)

    def post(self, cx, st, out):
        from leaspy.variables.specs import LatentVariableInitType
        sets = cx.ghost.get("sets", [])
        ev = [e for e in cx.ghost.get("events", []) if e[0] == "put_population"]
        names = [a[1] for a in sets]
        res = [("every provided parameter is assigned once, to the model's state, with the provided value",
                z3.BoolVal(sorted(names) == sorted(st["provided"]) and all(a[0] is st["state"] and a[2] is st["provided"][a[1]] for a in sets))),
               ("the population latent variables of that state are put at PRIOR_MODE exactly once",
                z3.BoolVal(len(ev) == 1 and ev[0][1] is st["state"] and ev[0][2] is LatentVariableInitType.PRIOR_MODE)),
               ("after all the assignments", z3.BoolVal(len(ev) == 1 and ev[0][4] == len(st["provided"]))),
               ("the model keeps its state object", z3.BoolVal(st["model"].f.get("_state") is st["state"]))]
        return res


class ObsModelChoice(Spec):
    """TimeReparametrizedModel.__init__, the statements that choose the observation model (from `dimension = kwargs.get(...)` to the
    if / elif / else that fills kwargs["obs_models"]; dropped: the super().__init__ call and the source-dimension validation after
    them): the observation model REQUESTED by the caller -- a name, a {"y": name} dictionary as written in a saved file, or a
    list of names -- is the one that is built, whatever the number of features; only when none is requested the default is chosen
    (scalar Gaussian when the dimension is unknown, diagonal Gaussian otherwise); the dimension handed to the factory is the number of
    features when features are given, else the `dimension` argument."""
    target = "leaspy.models.time_reparametrized:TimeReparametrizedModel.__init__"
    fragment = (lambda t: t.startswith("dimension = kwargs.get("), lambda t: t.startswith("if isinstance(observation_models, (list, tuple))"))

    REQ = {"none": None, "name": "bernoulli", "saved": {"y": "bernoulli"}, "saved-gaussian": {"y": "gaussian-diagonal"}, "list": ["gaussian-scalar"]}
    DIMS = {"unknown": {}, "dimension=1": {"dimension": 1}, "dimension=3": {"dimension": 3}, "one feature": {"features": ["y"]},
            "three features": {"features": ["a", "b", "c"], "dimension": 3}}

    def configs(self):
        return [dict(requested=r, dims=d) for r in self.REQ for d in self.DIMS]

    def setup(self, cx, cfg):
        from pyvc.models import SymCallable
        import copy as _copy
        kwargs = dict(_copy.deepcopy(self.DIMS[cfg["dims"]]))
        if self.REQ[cfg["requested"]] is not None:
            kwargs["obs_models"] = _copy.deepcopy(self.REQ[cfg["requested"]])
        calls = []

        def factory(it_, model, **kw):
            calls.append((model, dict(kw)))
            return ("built", len(calls))
        env = {"self": SymObj(object, {}, label="model"), "name": "logistic", "source_dimension": None, "kwargs": kwargs,
               "observation_model_factory": SymCallable(factory, "observation_model_factory")}
        return dict(env=env, kwargs=kwargs, calls=calls)

    def post(self, cx, st, out):
        cfg, calls = st["cfg"], st["calls"]
        dims = self.DIMS[cfg["dims"]]
        dim = len(dims["features"]) if "features" in dims else dims.get("dimension")
        req = self.REQ[cfg["requested"]]
        if req is None:
            want = ["gaussian-scalar" if dim is None else "gaussian-diagonal"]
        elif isinstance(req, dict):
            want = [req["y"]]
        elif isinstance(req, list):
            want = list(req)
        else:
            want = [req]
        kw = out.value.get("kwargs")
        res = [("the observation model(s) built are the requested one(s) (the documented default when none is requested)",
                z3.BoolVal([c[0] for c in calls] == want)),
               ("kwargs['obs_models'] is the tuple of what the factory returned, in order",
                z3.BoolVal(isinstance(kw, dict) and kw.get("obs_models") == tuple(("built", k + 1) for k in range(len(want)))))]
        if not isinstance(req, list):
            res.append(("the factory receives the number of features as dimension", z3.BoolVal(all(c[1].get("dimension", "absent") == dim for c in calls))))
        return res


# ------------------------------------------------------------------------------------------------------------------
class ModelSettingsInit(Spec):
    """ModelSettings(dict): LeaspyModelInputError iff 'name', 'parameters' or 'leaspy_version' is missing; otherwise name is the
    lower-cased name, parameters the given dictionary, and every other key (lower-cased) except 'hyperparameters' becomes a
    hyper-parameter with its value unchanged."""
    target = "leaspy.models.settings:ModelSettings.__init__"

    def configs(self):
        return [dict(missing=m_) for m_ in (None, "name", "parameters", "leaspy_version")]

    def setup(self, cx, cfg):
        from leaspy.models.settings import ModelSettings
        d = {"leaspy_version": "2.0.2", "name": "Logistic", "features": ["f0", "f1"], "dimension": cx.int("dim"),
             "hyperparameters": {"xi_mean": cx.real("xm")}, "parameters": {"tau_mean": cx.real("tm"), "g": [cx.real("g0"), cx.real("g1")]},
             "obs_models": {"y": "gaussian-scalar"}, "fit_metrics": {"nll_tot": cx.real("nll")}, "Source_Dimension": cx.int("S")}
        if cfg["missing"]:
            d.pop(cfg["missing"])
        s = SymObj(ModelSettings, {})
        return dict(args=(s, d), self=s, d=d, d0=dict(d))

    def raises(self, cx, st):
        from leaspy.exceptions import LeaspyModelInputError
        return [(LeaspyModelInputError, z3.BoolVal(st["cfg"]["missing"] is not None))]

    def post(self, cx, st, out):
        s, d = st["self"], st["d0"]
        hp = s.f.get("hyperparameters")
        want = {k.lower(): v for k, v in d.items() if k not in ("name", "parameters", "hyperparameters", "leaspy_version")}
        return [("name lower-cased", z3.BoolVal(s.f.get("name") == "logistic")),
                ("parameters as given", z3.BoolVal(s.f.get("parameters") is d["parameters"])),
                ("every other key is a hyper-parameter, value unchanged", z3.BoolVal(isinstance(hp, dict) and list(hp) == list(want) and all(hp[k] is want[k] for k in want))),
                ("the given dictionary is not modified", z3.BoolVal(list(st["d"]) == list(d) and all(st["d"][k] is d[k] for k in d)))]


class BaseToDict(Spec):
    """BaseModel.to_dict(): leaspy_version, name, features, dimension, and one entry per hyper-parameter and per parameter holding
    tolist() of its tensor -- none dropped, none added, values entry by entry."""
    target = "leaspy.models.base:BaseModel.to_dict"

    def setup(self, cx, cfg):
        from leaspy.models.logistic import LogisticModel
        params = {"tau_mean": STensor.sym(cx, "tau_mean", (1,), "real"), "log_g_mean": STensor.sym(cx, "log_g_mean", (3,), "real"),
                  "betas_mean": STensor.sym(cx, "betas_mean", (2, 2), "real"), "noise_std": STensor.sym(cx, "noise_std", (), "real")}
        hyper = {"xi_mean": STensor.sym(cx, "xi_mean", (), "real"), "sources_mean": STensor.sym(cx, "sources_mean", (2,), "real")}
        import types
        from leaspy.variables.specs import Hyperparameter, ModelParameter
        dag = SymObj(types.SimpleNamespace, dict(sorted_variables_by_type={Hyperparameter: {k: None for k in hyper}, ModelParameter: {k: None for k in params}}))

        class GhostState(Symbolic):
            def _getitem(self_, it, k, node=None):
                return {**params, **hyper}[k]

            def _getattr(self_, it, name, node=None):
                if name == "dag":
                    return dag
                raise OutOfSubset(f"State.{name} in to_dict")

            def _is(self_, it, other):
                return other is self_
        m = SymObj(LogisticModel, dict(_name="logistic", _features=["a", "b", "c"], _dimension=3, _state=GhostState()))
        cx.ghost["c12"] = dict(params=params, hyper=hyper)
        return dict(args=(m,), m=m, params=params, hyper=hyper)

    def post(self, cx, st, out):
        d = out.value
        ok = isinstance(d, dict) and list(d) == ["leaspy_version", "name", "features", "dimension", "hyperparameters", "parameters"]
        res = [("the six documented keys", z3.BoolVal(ok))]
        if not ok:
            return res
        res.append(("name, features, dimension of the model", z3.BoolVal(d["name"] == "logistic" and d["features"] == ["a", "b", "c"] and d["dimension"] == 3)))

        def flat(v):
            return [x for y in v for x in flat(y)] if isinstance(v, list) else [v]
        for key, src in (("parameters", st["params"]), ("hyperparameters", st["hyper"])):
            got = d[key]
            res.append((f"{key}: same names, same order", z3.BoolVal(isinstance(got, dict) and list(got) == list(src))))
            if isinstance(got, dict) and list(got) == list(src):
                for n_, t in src.items():
                    import itertools
                    cells = [t.fn(tuple(z3.IntVal(i) for i in idx)) for idx in itertools.product(*[range(dd) for dd in t.shape_])]
                    vals = flat(got[n_])
                    same = len(vals) == len(cells) and all(isinstance(x, SV) for x in vals)
                    res.append((f"{key}[{n_}] = tolist() of the tensor", z3.And(*[z(x, "real") == c for x, c in zip(vals, cells)]) if same else z3.BoolVal(False)))
        return res


UNITS = [PriorModeInit(), PutPopulation(), FitEnd(), LoadParametersTail(), ObsModelChoice(), ModelSettingsInit(), BaseToDict()]
CALLEES = [SetProbe(), GetProbe(), CloneProbe(), PutPopProbe()]
ASSUMPTIONS = ["C12: the model's `parameters` / `hyperparameters` properties are read through a ghost model object (their definition -- the state's values of "
               "the ModelParameter / Hyperparameter variables -- is the stand-in's business)",
               "C12: State.__getitem__ / __setitem__ / clone are call-site probes here; their contracts are C01's"]
NOT_DECIDED = ["JSON text, model_factory(**hyperparameters) and load_parameters: bounded stand-in only; the two `assert (cond, msg)` of "
               "StatefulModel.load_parameters are vacuous (always true): derived values present in a file are never compared"]
