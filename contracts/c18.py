"""C18 -- simulation honours the requested design (validation and the integer/real skeleton of the run).

Real functions under contract: SimulationAlgorithm.__init__ (with _set_param_study, _validate_algo_parameters,
_check_features, _check_params inlined), and two statement ranges extracted from the current AST of
_generate_dataset (the rounding-precision selection) and _generate_visit_ages (the visit loop)."""
import numpy as np
import z3

from pyvc.api import *
from pyvc.models import model as _model
from pyvc.core import SymObj, SV, Symbolic, OutOfSubset

SIM = "leaspy.algo.simulate.simulate:SimulationAlgorithm"


def AlgoErr():
    from leaspy.exceptions import LeaspyAlgoInputError
    return LeaspyAlgoInputError


@_model(np.random.normal)
def m_np_normal(it, loc=0.0, scale=1.0, size=None):
    """numpy.random.normal(loc, scale): loc + scale * z with z the next number of numpy's normal stream"""
    if size is not None:
        raise OutOfSubset("np.random.normal with a size")
    cx = it.cx
    g = cx.ghost.setdefault("rng", {"torch": 0, "np": 0, "py": 0, "log": []})
    c = g["np"]
    g["np"] += 1
    zc = z3.Real(cx.fresh_name(f"npZ#{c}"))
    return SV(to_z3(loc, "real") + to_z3(scale, "real") * zc, "real")


PARAMS = ["patient_number", "first_visit_mean", "first_visit_std", "time_follow_up_mean", "time_follow_up_std",
          "distance_visit_mean", "distance_visit_std", "min_spacing_between_visits"]
KINDS = ["int", "float", "str", "none", "missing", "bool"]


def value_of(cx, p, kind):
    if kind == "int":
        return cx.int(p)
    if kind == "float":
        return cx.real(p)
    if kind == "str":
        return "7"
    if kind == "none":
        return None
    if kind == "bool":
        return True
    raise KeyError(kind)


class SimInit(Spec):
    """SimulationAlgorithm(settings) with random visits: accepted iff R, the documented requirements --
    every parameter present; patient_number an int >= 1; the means numbers; the standard deviations numbers
    >= 0; a positive mean distance between visits; min_spacing_between_visits (optional) a number >= 0 --
    and refused with LeaspyAlgoInputError otherwise (never another exception, nothing drawn)."""
    target = SIM + ".__init__"

    def configs(self):
        out = [dict(dev=None)]
        for p in PARAMS:
            for k in KINDS:
                if p == "min_spacing_between_visits" and k == "missing":
                    continue   # that is the base configuration
                out.append(dict(dev=p, kind=k))
        return out

    def cfg_label(self, cfg):
        return "base" if cfg["dev"] is None else f"{cfg['dev']}={cfg['kind']}"

    def setup(self, cx, cfg):
        from leaspy.algo.settings import AlgorithmSettings
        from leaspy.algo.base import AlgorithmName
        vp = {"visit_type": "random"}
        kinds = {}
        for p in PARAMS[:-1]:
            kinds[p] = "int" if p == "patient_number" else "float"
        if cfg["dev"] is not None:
            kinds[cfg["dev"]] = cfg["kind"]
        for p, k in kinds.items():
            if k != "missing":
                vp[p] = value_of(cx, p, k)
        settings = SymObj(AlgorithmSettings, dict(name=AlgorithmName.SIMULATE, seed=None, logs=None, device="cpu",
                                                  parameters={"features": ["f1", "f2"], "visit_parameters": vp}))
        self_ = SymObj(resolve(SIM))
        return dict(args=(self_, settings), self=self_, vp=vp, kinds=kinds)

    def requirement(self, st):
        vp, kinds = st["vp"], st["kinds"]
        conj = []
        for p in PARAMS:
            k = kinds.get(p, "missing")
            if p == "min_spacing_between_visits":
                if k == "missing":
                    continue
                if k not in ("int", "float", "bool"):
                    return z3.BoolVal(False)
                conj.append(num(vp[p]) >= 0)
                continue
            if k == "missing":
                return z3.BoolVal(False)
            if p == "patient_number":
                if k not in ("int", "bool"):
                    return z3.BoolVal(False)
                conj.append(num(vp[p]) >= 1)
            else:
                if k not in ("int", "float", "bool"):
                    return z3.BoolVal(False)
                if p.endswith("_std"):
                    conj.append(num(vp[p]) >= 0)
                if p == "distance_visit_mean":
                    conj.append(num(vp[p]) > 0)
        return z3.And(*conj)

    def raises(self, cx, st):
        return [(AlgoErr(), z3.Not(self.requirement(st)))]

    def post(self, cx, st, out):
        f = st["self"].f
        g = cx.ghost.get("rng", {"torch": 0, "np": 0, "py": 0})
        return [("nothing is drawn by the constructor", z3.BoolVal(g["torch"] == 0 and g["np"] == 0 and g["py"] == 0)),
                ("param_study holds the given values", z3.BoolVal(all(
                    f["param_study"].get(p) is st["vp"][p] for p in st["vp"] if p != "visit_type")))]


def num(v):
    if isinstance(v, SV):
        return z3.ToReal(v.e) if v.kind == "int" else (z3.If(v.e, z3.RealVal(1), z3.RealVal(0)) if v.kind == "bool" else v.e)
    return z3.RealVal(int(v)) if isinstance(v, bool) else z3.RealVal(str(v))


class SimInitFeatures(Spec):
    """features must be a non-empty list of non-blank strings (representative concrete cases)."""
    target = SIM + ".__init__"
    CASES = {"ok": ["a", "b c"], "not_list": ("a", "b"), "string": "ab", "empty": [], "non_str": ["a", 3],
             "blank": ["a", "  "], "empty_str": ["", "a"], "none": None, "tab": ["\t"]}

    def configs(self):
        return [dict(case=c) for c in self.CASES]

    def setup(self, cx, cfg):
        from leaspy.algo.settings import AlgorithmSettings
        from leaspy.algo.base import AlgorithmName
        vp = {"visit_type": "random", "patient_number": 3, "first_visit_mean": 0.0, "first_visit_std": 0.4,
              "time_follow_up_mean": 5.0, "time_follow_up_std": 1.0, "distance_visit_mean": 1.0, "distance_visit_std": 0.2}
        settings = SymObj(AlgorithmSettings, dict(name=AlgorithmName.SIMULATE, seed=None, logs=None, device="cpu",
                                                  parameters={"features": self.CASES[cfg["case"]], "visit_parameters": vp}))
        self_ = SymObj(resolve(SIM))
        return dict(args=(self_, settings), self=self_)

    def raises(self, cx, st):
        return [(AlgoErr(), z3.BoolVal(st["cfg"]["case"] != "ok"))]

    def post(self, cx, st, out):
        return [("features kept", z3.BoolVal(st["self"].f["features"] == self.CASES["ok"]))]


class SimInitTable(Spec):
    """table-driven designs: accepted iff the table has columns ID and TIME and no missing TIME; the number
    of individuals is the number of distinct IDs (concrete representative tables; pandas runs natively)."""
    target = SIM + ".__init__"

    def tables(self):
        import pandas as pd
        return {
            "ok": pd.DataFrame({"ID": ["a", "a", "b"], "TIME": [70.0, 71.5, 65.0]}),
            "unsorted_dups": pd.DataFrame({"ID": ["b", "a", "b", "a"], "TIME": [72.0, 71.5, 65.0, 71.5]}),
            "int_ids": pd.DataFrame({"ID": [3, 3, 12, 12], "TIME": [70.0, 71.5, 65.0, 66.0]}),
            "no_time": pd.DataFrame({"ID": ["a", "b"], "AGE": [70.0, 71.0]}),
            "no_id": pd.DataFrame({"SUBJ": ["a", "b"], "TIME": [70.0, 71.0]}),
            "null_time": pd.DataFrame({"ID": ["a", "b"], "TIME": [70.0, None]}),
            "not_a_table": {"ID": ["a"], "TIME": [1.0]},
        }

    def configs(self):
        return [dict(table=t) for t in self.tables()]

    def setup(self, cx, cfg):
        from leaspy.algo.settings import AlgorithmSettings
        from leaspy.algo.base import AlgorithmName
        df = self.tables()[cfg["table"]]
        vp = {"visit_type": "dataframe", "df_visits": df}
        settings = SymObj(AlgorithmSettings, dict(name=AlgorithmName.SIMULATE, seed=None, logs=None, device="cpu",
                                                  parameters={"features": ["f1"], "visit_parameters": vp}))
        self_ = SymObj(resolve(SIM))
        return dict(args=(self_, settings), self=self_, df=df)

    def raises(self, cx, st):
        return [(AlgoErr(), z3.BoolVal(st["cfg"]["table"] not in ("ok", "unsorted_dups", "int_ids")))]

    def post(self, cx, st, out):
        fresh = self.tables()[st["cfg"]["table"]]
        same = fresh.equals(st["df"]) and list(map(str, fresh.dtypes)) == list(map(str, st["df"].dtypes)) and list(fresh.columns) == list(st["df"].columns)
        return [("one simulated individual per distinct ID of the table",
                 z3.BoolVal(st["self"].f["param_study"]["patient_number"] == 2)),
                ("the caller's table is the one used", z3.BoolVal(st["self"].f["param_study"]["df_visits"] is st["df"])),
                ("and it is left exactly as it was (values, columns, dtypes)", z3.BoolVal(bool(same)))]


class RoundingPrecision(Spec):
    """statement range of _generate_dataset (from `rounding_options = ...` to the end of the `for precision, val`
    loop; the pandas code around it is dropped): for every accepted spacing (>= 0) a rounding precision in
    {0,1,2,3} is selected -- the coarsest one whose step does not exceed the spacing, the finest one when the
    spacing is below every step -- so that `round(precision)` cannot fail."""
    target = SIM + "._generate_dataset"
    fragment = (lambda t: t.startswith("rounding_options ="), lambda t: t.startswith("for precision, val in"))

    def setup(self, cx, cfg):
        ms = cx.real("min_spacing")
        return dict(env={"min_spacing_between_visits": ms}, ms=ms)

    def pre(self, cx, st):
        return [("accepted spacing", z(st["ms"]) >= 0)]

    def post(self, cx, st, out):
        env = out.value
        rp = env.get("rounding_precision")
        ms = z(st["ms"])
        ok = rp is not None
        res = [("a precision is selected (round(None) would raise)", z3.BoolVal(ok))]
        if ok:
            r = to_z3(rp, "int")
            res.append(("precision in {0,1,2,3}", z3.And(r >= 0, r <= 3)))
            res.append(("coarsest step not exceeding the spacing, else the finest",
                        r == z3.If(ms >= 1, 0, z3.If(ms * 10 >= 1, 1, z3.If(ms * 100 >= 1, 2, 3)))))
        return res


class OpaqueList(Symbolic):
    def _getattr(self, it, name, node=None):
        from pyvc.models import SymCallable
        if name == "append":
            return SymCallable(lambda it_, x: None, "list.append")
        raise OutOfSubset(f"list.{name}")

    def _havoc(self, cx):
        pass




def visit_loop_inv(cx, env, k, view):
    t, t0 = to_z3(env["time"], "real"), cx.ghost["t0"]
    return [("time never decreases", t >= t0)]


def visit_loop_variant(cx, env):
    t = to_z3(env["time"], "real")
    fu, mean = cx.ghost["fu"], cx.ghost["mean"]
    return z3.If(fu > t, z3.ToInt((fu - t) / mean) + 1, z3.IntVal(0))


class VisitLoop(Spec):
    """statement range of _generate_visit_ages (`time = ...; age_visits = [time]; while time < follow-up: ...`
    for one individual, the pandas bookkeeping around it dropped): with a positive mean distance and std = 0
    (regularly spaced visits) the loop terminates and the ages strictly increase."""
    target = SIM + "._generate_visit_ages"
    fragment = (lambda t: t.startswith("while time <"), lambda t: t.startswith("while time <"))

    def __init__(self):
        self.loops = {("SimulationAlgorithm._generate_visit_ages", 1): LoopSpec(
            visit_loop_inv, decreases=visit_loop_variant, modifies=lambda cx, env: [env["age_visits"]],
            iter_pre=None)}

    def setup(self, cx, cfg):
        from leaspy.algo.simulate.simulate import VisitType
        t0, fu, mean = z3.Reals("t0 follow_up mean")
        cx.ghost.update(t0=t0, fu=fu, mean=mean)

        class _Loc(Symbolic):
            def _getitem(self_, it, idx, node=None):
                return SV(fu, "real")

        class _DF(Symbolic):
            def _getattr(self_, it, name, node=None):
                if name == "loc":
                    return _Loc()
                raise OutOfSubset(name)
        self_ = SymObj(resolve(SIM), dict(visit_type="random", param_study={"distance_visit_mean": SV(mean, "real"),
                                                                             "distance_visit_std": 0.0}))
        env = {"self": self_, "time": SV(t0, "real"), "age_visits": OpaqueList(), "df_ind": _DF(), "id_": "s0",
               "VisitType": VisitType}
        return dict(env=env, t0=t0, fu=fu, mean=mean)

    def pre(self, cx, st):
        return [("positive mean distance (accepted design)", st["mean"] > 0)]

    def post(self, cx, st, out):
        t = to_z3(out.value["time"], "real")
        return [("the loop ends at or after the follow-up age", t >= st["fu"])]


def visit_ages_entry(cx, env):
    """the list the loop appends to, as a symbolic sequence (it is a python list of one or no symbolic age when the loop is reached)"""
    from pyvc.coll import seq_from_list, REAL, SSeq
    lst = env.get("age_visits")
    if isinstance(lst, list):
        env["age_visits"] = seq_from_list(cx, REAL, lst, pytype=list, name="age_visits")


def visit_ages_inv(cx, env, k, view):
    from pyvc.coll import SSeq
    t, t0 = to_z3(env["time"], "real"), cx.ghost["t0"]
    av = env.get("age_visits")
    if not isinstance(av, SSeq):
        return [("the visit ages are a list", z3.BoolVal(False))]
    i, j = z3.Ints("i_inv j_inv")
    return [("time never decreases", t >= t0),
            ("the baseline age is the first visit (at least one visit)", z3.And(av.length >= 1, av.at(0) == t0)),
            ("the ages listed so far strictly increase", z3.ForAll([i, j], z3.Implies(z3.And(0 <= i, i < j, j < av.length), av.at(i) < av.at(j)))),
            ("the last listed age is the current one", av.at(av.length - 1) == t)]


class VisitAges(Spec):
    """statement range of _generate_visit_ages for one individual, from `time = <baseline age>` to `dict_timepoints[id_] = ...`
    (dropped: the pandas bookkeeping around it), random design with a positive mean distance and std = 0: the individual gets at
    least one visit, the first one at its baseline age -- also when the follow-up is zero or negative -- and the ages strictly increase."""
    target = SIM + "._generate_visit_ages"
    fragment = (lambda t: t.startswith("time = df_ind.loc["), lambda t: t.startswith("dict_timepoints[id_] ="))

    def __init__(self):
        self.loops = {("SimulationAlgorithm._generate_visit_ages", 1): LoopSpec(
            visit_ages_inv, decreases=visit_loop_variant, modifies=lambda cx, env: [env["age_visits"]], on_entry=visit_ages_entry)}

    def setup(self, cx, cfg):
        from leaspy.algo.simulate.simulate import VisitType
        t0, fu, mean = z3.Reals("t0 follow_up mean")
        cx.ghost.update(t0=t0, fu=fu, mean=mean)

        class _Loc(Symbolic):
            def _getitem(self_, it, idx, node=None):
                col = idx[1] if isinstance(idx, tuple) else idx
                return SV(t0 if col == "AGE_AT_BASELINE" else fu, "real")

        class _DF(Symbolic):
            def _getattr(self_, it, name, node=None):
                if name == "loc":
                    return _Loc()
                raise OutOfSubset(name)
        self_ = SymObj(resolve(SIM), dict(visit_type=VisitType.RANDOM, param_study={"distance_visit_mean": SV(mean, "real"), "distance_visit_std": 0.0}))
        out = {}
        env = {"self": self_, "df_ind": _DF(), "id_": "s0", "VisitType": VisitType, "dict_timepoints": out, "np": __import__("numpy")}
        return dict(env=env, t0=t0, fu=fu, mean=mean, out=out)

    def pre(self, cx, st):
        return [("positive mean distance (accepted design)", st["mean"] > 0)]

    def post(self, cx, st, out):
        from pyvc.coll import SSeq
        v = st["out"].get("s0")
        if isinstance(v, list):
            n = len(v)
            ages = [to_z3(x, "real") for x in v]
            return [("at least one visit, the first at the baseline age", z3.BoolVal(n >= 1) if n == 0 else ages[0] == st["t0"]),
                    ("ages strictly increase", z3.And(*[a < b for a, b in zip(ages, ages[1:])]) if n > 1 else z3.BoolVal(True))]
        if not isinstance(v, SSeq):
            return [("the individual's visit ages are stored", z3.BoolVal(False))]
        i, j = z3.Ints("i_p j_p")
        return [("at least one visit, the first at the baseline age", z3.And(v.length >= 1, v.at(0) == st["t0"])),
                ("ages strictly increase", z3.ForAll([i, j], z3.Implies(z3.And(0 <= i, i < j, j < v.length), v.at(i) < v.at(j))))]


UNITS = [SimInit(), SimInitFeatures(), SimInitTable(), RoundingPrecision(), VisitLoop(), VisitAges()]
CALLEES = []
NOT_DECIDED = ["termination of the visit loop when distance_visit_std > 0 (a Gaussian step can be negative: almost-sure only)",
               "the pandas / scipy part of _generate_dataset and _run (bounded stand-in)", "distribution of the draws"]
ASSUMPTIONS = ["np.random.normal(loc, scale) = loc + scale * z (z the next normal draw)",
               "pandas runs natively on the concrete representative tables of the table-driven unit"]
