"""Background theory shared by the State / sampler contracts (C01, C02, C03, C12, C13).

Abstract view of a `State` (DESIGN section 4):  I : Name -> Val  are the *independent* values;
Sem(n, I) is the value of node n obtained by evaluating its definition from scratch on I.
The dependency graph is abstract (any well-formed DAG): uninterpreted predicates constrained by the
axioms below.  That the real `VariablesDAG` constructor produces such a graph is property C15;
here it is the precondition `dag.wf()`.
"""
import z3

from pyvc.api import *
from pyvc.core import Symbolic, SV, OutOfSubset
from pyvc.models import SymCallable
from pyvc import ops

Name = z3.DeclareSort("Name")
Val = z3.DeclareSort("Val")
NONE = z3.Const("NONE", Val)
View = z3.ArraySort(Name, Val)

indag = z3.Function("indag", Name, z3.BoolSort())
par = z3.Function("par", Name, Name, z3.BoolSort())        # direct parent
anc = z3.Function("anc", Name, Name, z3.BoolSort())        # strict transitive ancestor
indep = z3.Function("indep", Name, z3.BoolSort())          # IndepVariable: compute() is None
settable = z3.Function("settable", Name, z3.BoolSort())
hyper = z3.Function("hyper", Name, z3.BoolSort())
hval = z3.Function("hval", Name, Val)
pos = z3.Function("pos", Name, z3.IntSort())               # a topological numbering
Sem = z3.Function("Sem", Name, View, Val)
F = z3.Function("F", Name, View, Val)                      # LinkedVariable.compute on a cache
vadd = z3.Function("vadd", Val, Val, Val)                  # tensor addition on abstract values
vindex_put = z3.Function("vindex_put", Val, z3.IntSort(), z3.IntSort(), z3.IntSort(), Val, z3.BoolSort(), Val)


def _val_wrap(e):
    return SV(e, "u:Val")


def _val_unwrap(v):
    if v is None:
        return NONE
    if isinstance(v, SV) and v.kind == "u:Val":
        return v.e
    raise OutOfSubset(f"value {v!r} stored where an abstract variable value is expected")


def _name_unwrap(v):
    if isinstance(v, SV) and v.kind == "u:Name":
        return v.e
    raise OutOfSubset(f"{v!r} used as a variable name")


NAME = Codec(Name, wrap=lambda e: SV(e, "u:Name"), unwrap=_name_unwrap, name="variable name")
VAL = Codec(Val, wrap=_val_wrap, unwrap=_val_unwrap, name="variable value or None")


def axioms():
    n, m, a, p = z3.Consts("n m a p", Name)
    I, J, V = z3.Consts("I J V", View)
    ax = [
        # graph: par within the dag, anc is the transitive closure direction we need, pos is topological
        z3.ForAll([p, n], z3.Implies(par(p, n), z3.And(anc(p, n), indag(p), indag(n)))),
        z3.ForAll([a, p, n], z3.Implies(z3.And(anc(a, p), anc(p, n)), anc(a, n))),
        z3.ForAll([a, n], z3.Implies(anc(a, n), z3.And(pos(a) < pos(n), indag(a), indag(n)))),
        # independent variables have no parents; hyperparameters are independent and not settable
        z3.ForAll([p, n], z3.Implies(indep(n), z3.Not(par(p, n)))),
        z3.ForAll([a, n], z3.Implies(indep(n), z3.Not(anc(a, n)))),
        z3.ForAll([n], z3.Implies(hyper(n), z3.And(indep(n), z3.Not(settable(n)), hval(n) != NONE))),
        z3.ForAll([n], z3.Implies(settable(n), indep(n))),
        # every ancestor relation goes through a direct parent
        z3.ForAll([a, n], z3.Implies(anc(a, n), z3.Or(par(a, n), z3.Exists([p], z3.And(anc(a, p), par(p, n)))))),
        # semantics: independent nodes read the view
        z3.ForAll([n, I], z3.Implies(indep(n), Sem(n, I) == I[n])),
        # LinkedVariable.compute: function of the direct parents' cache entries; gives Sem when those are right
        z3.ForAll([n, V, I], z3.Implies(
            z3.And(z3.Not(indep(n)), z3.ForAll([p], z3.Implies(par(p, n), z3.And(V[p] == Sem(p, I), V[p] != NONE)))),
            z3.And(F(n, V) == Sem(n, I), Sem(n, I) != NONE))),
        # definedness: a derived value exists iff all its parents' values exist
        z3.ForAll([n, I, p], z3.Implies(z3.And(z3.Not(indep(n)), par(p, n), Sem(p, I) == NONE), Sem(n, I) == NONE)),
        # ... hence (induction along a dependency path; Lean lemma `undefined_propagates`) for every ancestor
        z3.ForAll([n, I, a], z3.Implies(z3.And(anc(a, n), Sem(a, I) == NONE), Sem(n, I) == NONE)),
        # frame: Sem(n, .) depends only on the independent ancestors of n (and on n itself if independent)
        z3.ForAll([n, I, J], z3.Implies(
            z3.And(z3.ForAll([a], z3.Implies(z3.And(anc(a, n), indep(a)), I[a] == J[a])),
                   z3.Implies(indep(n), I[n] == J[n])),
            Sem(n, I) == Sem(n, J))),
        # tensor arithmetic on set values gives a value
        z3.ForAll([z3.Const("va", Val), z3.Const("vb", Val)],
                  z3.Implies(z3.And(z3.Const("va", Val) != NONE, z3.Const("vb", Val) != NONE),
                             vadd(z3.Const("va", Val), z3.Const("vb", Val)) != NONE)),
        z3.ForAll([z3.Const("va", Val), z3.Const("vb", Val), z3.Int("k0"), z3.Int("k1"), z3.Int("k2"), z3.Bool("kb")],
                  z3.Implies(z3.And(z3.Const("va", Val) != NONE, z3.Const("vb", Val) != NONE),
                             vindex_put(z3.Const("va", Val), z3.Int("k0"), z3.Int("k1"), z3.Int("k2"), z3.Const("vb", Val), z3.Bool("kb")) != NONE)),
    ]
    return ax


def inv(values: SMap, I):
    """representation invariant of State._values w.r.t. the view I"""
    n = z3.Const("n_inv", Name)
    return z3.ForAll([n], z3.And(
        values.has(n) == indag(n),
        z3.Implies(indag(n), z3.And(
            z3.Implies(indep(n), values.at(n) == I[n]),
            z3.Implies(z3.And(z3.Not(indep(n)), values.at(n) != NONE), values.at(n) == Sem(n, I))))))


def view_of(values: SMap):
    """the view read off a cache: I[n] = values[n] (only independent entries matter)"""
    return values.val


def hyper_init(I):
    n = z3.Const("n_h", Name)
    return z3.ForAll([n], z3.Implies(indag(n), I[n] == z3.If(hyper(n), hval(n), NONE)))


# ---------------------------------------------------------------------------------------------------
# the abstract DAG object seen by the interpreter (assumed contract of VariablesDAG = C15's postcondition)


class SVarNode(Symbolic):
    def __init__(self, name_e):
        self.n = name_e

    def _getattr(self, it, name, node=None):
        if name == "is_settable":
            return SV(settable(self.n), "bool")
        if name == "value":
            return _val_wrap(hval(self.n))
        if name == "compute":
            def compute(it_, values):
                if not isinstance(values, SMap):
                    raise OutOfSubset("compute() on something else than the cache")
                cx = it_.cx
                if cx.branch(indep(self.n)):
                    return None
                # LinkedVariable.compute reads state[k] for every parent k: a missing (None) parent would be
                # passed to the function -- the contract requires them to be present
                p = z3.Const(cx.fresh_name("p"), Name)
                cx.prove("call compute: every direct parent is cached (not None)",
                         z3.ForAll([p], z3.Implies(par(p, self.n), z3.And(values.has(p), values.at(p) != NONE))))
                cx.ghost.setdefault("computed", []).append(self.n)
                return _val_wrap(F(self.n, values.val))
            return SymCallable(compute, "VariableInterface.compute")
        raise OutOfSubset(f"attribute {name} of a variable specification", node)

    def _isinstance(self, it, k):
        from leaspy.variables.specs import Hyperparameter, IndepVariable, VariableInterface
        if k is Hyperparameter:
            return SV(hyper(self.n), "bool")
        if k is IndepVariable:
            return SV(indep(self.n), "bool")
        if k in (VariableInterface, object):
            return True
        raise OutOfSubset(f"isinstance(variable, {k})")


class SDag(Symbolic):
    """well-formed VariablesDAG: `in`, [], sorted_children / sorted_ancestors (exactly the transitive
    dependents / dependencies, in topological order), iteration in topological order"""

    def __init__(self):
        self._cache = {}

    def _contains(self, it, k, node=None):
        return SV(indag(_name_unwrap(k)), "bool")

    def _getitem(self, it, k, node=None):
        return SVarNode(_name_unwrap(k))

    def _isinstance(self, it, k):
        from leaspy.variables.dag import VariablesDAG
        return k in (VariablesDAG, object)

    def closure_seq(self, cx, n, children: bool):
        key = (str(n), children)
        seq = SSeq(cx, NAME, ("children" if children else "ancestors"))
        i, j = z3.Ints(f"{cx.fresh_name('i')} {cx.fresh_name('j')}")
        m = z3.Const(cx.fresh_name("m"), Name)
        rel = (lambda x: anc(n, x)) if children else (lambda x: anc(x, n))
        idx = z3.Function(cx.fresh_name("ix"), Name, z3.IntSort())
        cx.assume(seq.length >= 0)
        cx.assume(z3.ForAll([i], z3.Implies(z3.And(0 <= i, i < seq.length), rel(seq.at(i)))))
        cx.assume(z3.ForAll([m], z3.Implies(rel(m), z3.And(0 <= idx(m), idx(m) < seq.length, seq.at(idx(m)) == m))))
        cx.assume(z3.ForAll([i, j], z3.Implies(z3.And(0 <= i, i < j, j < seq.length), pos(seq.at(i)) < pos(seq.at(j)))))
        seq.idx = idx
        seq.mem = rel
        return seq

    def all_nodes_seq(self, cx):
        seq = SSeq(cx, NAME, "nodes")
        i, j = z3.Ints(f"{cx.fresh_name('i')} {cx.fresh_name('j')}")
        m = z3.Const(cx.fresh_name("m"), Name)
        idx = z3.Function(cx.fresh_name("ix"), Name, z3.IntSort())
        cx.assume(seq.length >= 0)
        cx.assume(z3.ForAll([i], z3.Implies(z3.And(0 <= i, i < seq.length), indag(seq.at(i)))))
        cx.assume(z3.ForAll([m], z3.Implies(indag(m), z3.And(0 <= idx(m), idx(m) < seq.length, seq.at(idx(m)) == m))))
        cx.assume(z3.ForAll([i, j], z3.Implies(z3.And(0 <= i, i < j, j < seq.length), pos(seq.at(i)) < pos(seq.at(j)))))
        seq.idx = idx
        seq.mem = lambda m_: indag(m_)
        return seq

    def _getattr(self, it, name, node=None):
        dag = self
        if name in ("sorted_children", "sorted_ancestors"):
            children = name == "sorted_children"

            class _M(Symbolic):
                def _getitem(self_, it_, k, node_=None):
                    return dag.closure_seq(it_.cx, _name_unwrap(k), children)
            return _M()
        if name == "items":
            def items(it_):
                return SDagItems(dag)
            return SymCallable(items, "VariablesDAG.items")
        raise OutOfSubset(f"VariablesDAG.{name}", node)

    # `for n in dag`
    _symbolic_iterable = True

    def _loop_view(self, it):
        seq = self.all_nodes_seq(it.cx)
        return seq.length, (lambda j: NAME.wrap(seq.at(j))), (lambda j: seq.at(j))


class SDagItems(Symbolic):
    _symbolic_iterable = True
    _mem = staticmethod(lambda m_: indag(m_))
    _key_codec = NAME
    _value_codec_hint = VAL

    def __init__(self, dag):
        self.dag = dag

    def _loop_view(self, it):
        seq = self.dag.all_nodes_seq(it.cx)
        self.seq = seq
        return seq.length, (lambda j: (NAME.wrap(seq.at(j)), SVarNode(seq.at(j)))), (lambda j: seq.at(j))


def fork_types():
    from leaspy.variables.state import StateForkType
    return {"none": None, "ref": StateForkType.REF, "copy": StateForkType.COPY}


def make_state(cx, fork="none", last_fork=False, label="state"):
    from leaspy.variables.state import State
    values = SMap(cx, NAME, VAL, label + "._values")
    lf = SMap(cx, NAME, VAL, label + "._last_fork") if last_fork else None
    dag = SDag()
    st = SymObj(State, dict(dag=dag, auto_fork_type=fork_types()[fork], _values=values, _last_fork=lf,
                            _tracked_variables=set()), label=label)
    return st


def engine_setup(eng):
    import ast as _ast
    eng.declare_none(Val, NONE)

    def val_binop(op, a, b):
        if op is _ast.Add and isinstance(a, SV) and isinstance(b, SV) and a.kind == b.kind == "u:Val":
            return SV(vadd(a.e, b.e), "u:Val")
        return None
    eng.binop_hooks.append(val_binop)

    def val_attr(it, obj, name):
        if isinstance(obj, SV) and obj.kind == "u:Val" and name == "index_put":
            def index_put(it_, indices=None, values=None, accumulate=False):
                # out-of-place Tensor/WeightedTensor.index_put with scalar index tensors (at most 2 of them)
                from pyvc.tensor import STensor
                idx = []
                for t in indices:
                    if not (isinstance(t, STensor) and t.ndim == 0):
                        raise OutOfSubset("index_put with non-scalar index")
                    idx.append(t.fn(()))
                if len(idx) > 2:
                    raise OutOfSubset("index_put with more than two indices")
                while len(idx) < 2:
                    idx.append(z3.IntVal(-1))
                acc = accumulate.e if isinstance(accumulate, SV) else z3.BoolVal(bool(accumulate))
                return SV(vindex_put(obj.e, z3.IntVal(len(indices)), idx[0], idx[1], _val_unwrap(values), acc), "u:Val")
            return SymCallable(index_put, "Tensor.index_put")
        return None
    eng.attr_hooks.append(val_attr)


# ---------------------------------------------------------------------------------------------------
# row structure of values carrying the individual axis (used by the partial-revert lemma, C02, C07)
elem = z3.Function("elem", Val, z3.IntSort(), z3.IntSort(), z3.RealSort())   # entry (individual i, flattened rest r)
indiv = z3.Function("indiv", Name, z3.BoolSort())                             # the variable carries the individual axis
rowmask = z3.Function("mask", z3.IntSort(), z3.BoolSort())
Blend = z3.Function("B", Val, Val, Val)                                       # result of State._select(mask, old, cur)


def agree_row(I, J, c, i):
    """views I, J agree on everything row i of variable c may depend on"""
    a = z3.Const("a_row", Name)
    r = z3.Int("r_row")
    return z3.ForAll([a], z3.Implies(
        z3.And(indep(a), z3.Or(a == c, anc(a, c))),
        z3.And(z3.Implies(indiv(a), z3.ForAll([r], elem(I[a], i, r) == elem(J[a], i, r))),
               z3.Implies(z3.Not(indiv(a)), I[a] == J[a]))))


def row_axioms():
    m, a = z3.Consts("m_r a_r", Name)
    I, J = z3.Consts("I_r J_r", View)
    v, w = z3.Consts("v_r w_r", Val)
    i, r = z3.Ints("i_r r_r")
    return {
        # proved per shipped linked variable under C07 (row-locality = non-interference over the individual index)
        "row_locality": z3.ForAll([m, I, J, i], z3.Implies(
            z3.And(indiv(m), agree_row(I, J, m, i)),
            z3.ForAll([r], elem(Sem(m, I), i, r) == elem(Sem(m, J), i, r)))),
        # a value with the individual axis is determined by its entries
        "extensionality": z3.ForAll([v, w], z3.Implies(
            z3.And(v != NONE, w != NONE, z3.ForAll([i, r], elem(v, i, r) == elem(w, i, r))), v == w)),
        # contract of State._select, proved on the real code (unit RevertPartial): entry-wise selection
        "select": z3.ForAll([v, w, i, r], elem(Blend(v, w), i, r) == z3.If(rowmask(i), elem(v, i, r), elem(w, i, r))),
        "select_not_none": z3.ForAll([v, w], z3.Implies(z3.And(v != NONE, w != NONE), Blend(v, w) != NONE)),
        # whether a derived value exists depends only on which independent ancestors are set
        "definedness_frame": z3.ForAll([m, I, J], z3.Implies(
            z3.ForAll([a], z3.Implies(z3.And(indep(a), z3.Or(a == m, anc(a, m))), (I[a] == NONE) == (J[a] == NONE))),
            (Sem(m, I) == NONE) == (Sem(m, J) == NONE))),
    }
