"""C15 -- dependency-graph construction.  The global statement (sorted names are a topological order, dependents / dependencies
are the transitive closure, cycles and dangling references are refused) is decided by the exhaustive stand-in only.
Under contract (deductively) are the *transitions* of Kahn's algorithm in VariablesDAG.compute_topological_order_and_path_matrix,
on the real statements, for graphs of any size:
  * EdgeStep  (inner loop, one edge n -> m): column m of the path matrix becomes (column m) OR (column n) OR {n}, no other
    entry changes; m loses exactly n from its remaining direct ancestors, nobody else's remaining ancestors change; m is
    enqueued iff it has no remaining ancestor, and nothing else is enqueued;
  * InitRoots (first loop): exactly the nodes without direct ancestor are enqueued;
  * NodeStep  (outer loop, one dequeued node n): n is appended to the order, is the node that was at the front of the
    queue, and its edges are then processed;
  * the acyclicity test after the loop: ValueError iff some node was never emitted;
and lemmas over those transitions: every path-matrix entry set corresponds to a real path (soundness, z3), and
`lemmas/Closure.lean` (Lean 4 + Mathlib, checked by `lake build` in setup): a relation that contains the edges and is closed
under "append an edge" contains every path (the completeness step the solvers cannot do by themselves).
Not decided here: that every edge is eventually processed and every node emitted exactly when the graph is acyclic
(termination / progress of Kahn's algorithm) -- stand-in only."""
import types

import z3

from pyvc.api import *
from pyvc.core import Symbolic
from pyvc.coll import SSeq, SMap, SSet
from pyvc.tensor import STensor, dim_z3

DAG = "leaspy.variables.dag:VariablesDAG.compute_topological_order_and_path_matrix"
from contracts.state_theory import Name, NAME
S = Name          # names are dictionary keys and set elements only: an uninterpreted sort (no string reasoning needed)
STR = NAME


def name_const(n):
    return z3.Const(n, Name)


def name_sv(n):
    return SV(z3.Const(n, Name), "u:Name")
NODE = z3.Function("is_node", S, z3.BoolSort())
IX = z3.Function("index_of", S, z3.IntSort())
N = z3.Int("n_nodes")
CL = z3.Function("n_children", S, z3.IntSort())
CH = z3.Function("child", S, z3.IntSort(), S)
SETSORT = z3.ArraySort(S, z3.BoolSort())
SET = Codec(SETSORT, wrap=lambda e: SSet(STR, e), unwrap=lambda v: v.chi if isinstance(v, SSet) else (_ for _ in ()).throw(OutOfSubset("a non-set stored as remaining ancestors")),
            name="set of names")


def graph_axioms():
    x, y = (name_const("x_g"), name_const("y_g"))
    k, l = z3.Ints("k_g l_g")
    return [N >= 1,
            z3.ForAll([x], z3.Implies(NODE(x), z3.And(0 <= IX(x), IX(x) < N))),
            z3.ForAll([x, y], z3.Implies(z3.And(NODE(x), NODE(y), IX(x) == IX(y)), x == y)),
            z3.ForAll([x], CL(x) >= 0),
            z3.ForAll([x, k], z3.Implies(z3.And(NODE(x), 0 <= k, k < CL(x)), z3.And(NODE(CH(x, k)), CH(x, k) != x))),   # children are nodes, no self loop
            z3.ForAll([x, k, l], z3.Implies(z3.And(NODE(x), 0 <= k, k < l, l < CL(x)), CH(x, k) != CH(x, l)))]          # a sorted list of a set: no repeats


class ChildrenMap(Symbolic):
    """direct_children_: node -> sorted list of its direct children"""

    def __init__(self, cx):
        self.cx = cx

    def _getitem(self, it, k, node=None):
        kz = to_z3(k)
        arr = z3.Const(self.cx.fresh_name("children"), z3.ArraySort(z3.IntSort(), S))
        j = z3.Int(self.cx.fresh_name("j"))
        self.cx.assume(z3.ForAll([j], z3.Select(arr, j) == CH(kz, j)))
        return SSeq(self.cx, STR, "children", length=CL(kz), arr=arr, pytype=list)


class GhostQueue(Symbolic):
    """queue.SimpleQueue seen as a sequence: `put` appends, `get` takes the front"""

    def __init__(self, cx):
        self.cx = cx
        self.puts = []
        self.content = SSeq(cx, STR, "queue", pytype=list)      # unknown content at the start of the step
        self.head = z3.IntVal(0)
        self.gets = 0

    def _getattr(self, it, name, node=None):
        from pyvc.models import SymCallable
        if name == "put":
            def put(it_, x):
                self.puts.append(x)
                it_.cx.log_write(("obj", id(self), None))
            return SymCallable(put, "SimpleQueue.put")
        if name == "get":
            def get(it_):
                self.gets += 1
                it_.cx.log_write(("obj", id(self), None))
                v = SV(self.content.at(self.head), "u:Name")
                self.head = z3.simplify(self.head + 1)
                return v
            return SymCallable(get, "SimpleQueue.get")
        if name == "empty":
            return SymCallable(lambda it_: SV(self.content.length - self.head + len(self.puts) <= 0, "bool"), "SimpleQueue.empty")
        raise OutOfSubset(f"SimpleQueue.{name}")

    def _havoc(self, cx):
        self.puts = []
        self.content = SSeq(cx, STR, "queue", pytype=list)
        self.head = z3.IntVal(0)

    def all_nodes(self):
        j = z3.Int("j_q")
        return z3.And(z3.ForAll([j], z3.Implies(z3.And(0 <= j, j < self.content.length), NODE(self.content.at(j)))),
                      *[NODE(to_z3(p)) for p in self.puts])


def kahn_env(cx):
    ix = SMap(cx, STR, INT, "ix_nodes")
    anc = SMap(cx, STR, SET, "direct_ancestors_")
    x = name_const("x_e")
    cx.assume(z3.ForAll([x], z3.And(ix.has(x) == NODE(x), z3.Implies(NODE(x), ix.at(x) == IX(x)))))
    cx.assume(z3.ForAll([x], anc.has(x) == NODE(x)))
    for ax in graph_axioms():
        cx.assume(ax)
    P = STensor.sym(cx, "path_matrix", (N, N), "bool")
    q = GhostQueue(cx)
    return ix, anc, P, q


def edge_inv(cx, env, k, view):
    x = name_const("x_i")
    return [("every node keeps its remaining-ancestor entry", z3.ForAll([x], env["direct_ancestors_"].has(x) == NODE(x))),
            ("every queued name is a node", env["q_roots"].all_nodes())]


def edge_pre(cx, env, k, view):
    g = cx.ghost
    P, anc, q = env["path_matrix"], env["direct_ancestors_"], env["q_roots"]
    return dict(P=STensor(P.shape_, P.fn, "bool"), anc=anc.snapshot(), puts=len(q.puts))


def edge_post(cx, env, snap, k, view):
    P, anc, q = env["path_matrix"], env["direct_ancestors_"], env["q_roots"]
    P0, anc0 = snap["P"], snap["anc"]
    n = to_z3(env["n"])
    m = CH(n, k)
    i, j = IX(n), IX(m)
    a, b = z3.Ints("a_e b_e")
    x, y = (name_const("x_e2"), name_const("y_e2"))
    inside = z3.And(0 <= a, a < N, 0 <= b, b < N)
    res = [("column m of the path matrix := column m OR column n OR {n}; every other entry unchanged",
            z3.ForAll([a, b], z3.Implies(inside, P.fn((a, b)) == z3.If(b == j, z3.Or(P0.fn((a, j)), P0.fn((a, i)), a == i), P0.fn((a, b)))))),
           ("m loses exactly n from its remaining direct ancestors; nobody else's remaining ancestors change",
            z3.ForAll([x, y], z3.Implies(NODE(x), z3.Select(anc.at(x), y) == z3.If(x == m, z3.And(z3.Select(anc0.at(m), y), y != n), z3.Select(anc0.at(x), y))))),
           ("the nodes keep their remaining-ancestor entry", z3.ForAll([x], anc.has(x) == anc0.has(x)))]
    new_puts = q.puts[snap["puts"]:]
    empty_now = z3.ForAll([y], z3.Not(z3.Select(anc.at(m), y)))
    res.append(("m is enqueued iff it has no remaining ancestor; nothing else is enqueued",
                z3.And(z3.BoolVal(len(new_puts) <= 1 and all(isinstance(p, SV) and p.kind == "u:Name" for p in new_puts)),
                       z3.BoolVal(len(new_puts) == 1) == empty_now,
                       *[to_z3(p) == m for p in new_puts])))
    return res


class EdgeStep(Spec):
    """the inner loop `for m in direct_children_[n]` of Kahn's algorithm, one arbitrary iteration (edge n -> m), any graph size."""
    target = DAG
    fragment = (lambda t: t.startswith("for m in direct_children_[n]"), lambda t: t.startswith("for m in direct_children_[n]"))

    def __init__(self):
        self.loops = {("VariablesDAG.compute_topological_order_and_path_matrix", 2): LoopSpec(
            edge_inv, modifies=lambda cx, env: [env["path_matrix"], env["direct_ancestors_"], env["q_roots"]],
            iter_pre=edge_pre, iter_post=edge_post)}

    def setup(self, cx, cfg):
        ix, anc, P, q = kahn_env(cx)
        n = name_sv("n")
        env = {"n": n, "i": SV(IX(n.e), "int"), "ix_nodes": ix, "direct_children_": ChildrenMap(cx), "direct_ancestors_": anc,
               "path_matrix": P, "q_roots": q}
        return dict(env=env, n=n)

    def pre(self, cx, st):
        return [("n is a node", NODE(st["n"].e)), ("every queued name is a node (class invariant of the loop state)", st["env"]["q_roots"].all_nodes())]

    def post(self, cx, st, out):
        return [("the loop ends", z3.BoolVal(True))]


def node_pre(cx, env, k, view):
    q = env["q_roots"]
    return dict(front=q.content.at(q.head), order=env["sorted_nodes"], gets=q.gets)


def node_post(cx, env, snap, k, view):
    q, order = env["q_roots"], env["sorted_nodes"]
    o0 = snap["order"]
    j = z3.Int("j_n")
    ok = isinstance(order, SSeq) and isinstance(o0, SSeq)
    res = [("exactly one node is taken from the queue: its front", z3.BoolVal(q.gets - snap["gets"] == 1))]
    if ok:
        res.append(("that node is appended to the order, the earlier ones are kept",
                    z3.And(order.length == o0.length + 1, order.at(o0.length) == snap["front"],
                           z3.ForAll([j], z3.Implies(z3.And(0 <= j, j < o0.length), order.at(j) == o0.at(j))))))
        res.append(("its edges are processed with i = its index", to_z3(env["i"]) == IX(snap["front"]) if "i" in env else z3.BoolVal(False)))
    else:
        res.append(("the order stays a tuple", z3.BoolVal(False)))
    return res


class NodeStep(Spec):
    """the outer loop `while not q_roots.empty()`, one arbitrary iteration: the front of the queue is removed, appended to the
    order and its out-edges are processed (inner loop by its own contract)."""
    target = DAG
    fragment = (lambda t: t.startswith("while not q_roots.empty()"), lambda t: t.startswith("while not q_roots.empty()"))

    def __init__(self):
        self.loops = {("VariablesDAG.compute_topological_order_and_path_matrix", 1): LoopSpec(
            edge_inv, modifies=lambda cx, env: [env["path_matrix"], env["direct_ancestors_"], env["q_roots"]],
            havoc_local=lambda cx, name, cur: None, iter_pre=node_pre, iter_post=node_post),
            ("VariablesDAG.compute_topological_order_and_path_matrix", 2): LoopSpec(
            edge_inv, modifies=lambda cx, env: [env["path_matrix"], env["direct_ancestors_"], env["q_roots"]])}

    def setup(self, cx, cfg):
        ix, anc, P, q = kahn_env(cx)
        order = SSeq(cx, STR, "sorted_nodes", pytype=tuple)
        env = {"ix_nodes": ix, "direct_children_": ChildrenMap(cx), "direct_ancestors_": anc, "path_matrix": P, "q_roots": q,
               "sorted_nodes": order, "n": name_sv("n_prev"), "i": cx.int("i_prev")}
        return dict(env=env)

    def pre(self, cx, st):
        return [("every queued name is a node (class invariant of the loop state)", st["env"]["q_roots"].all_nodes())]

    def post(self, cx, st, out):
        return [("the loop ends", z3.BoolVal(True))]


def roots_post(cx, env, snap, k, view):
    q, anc = env["q_roots"], env["direct_ancestors_"]
    new = q.puts[snap:]
    n = view.elem_z3(k)
    y = name_const("y_r")
    is_root = z3.ForAll([y], z3.Not(z3.Select(anc.at(n), y)))
    return [("the node is enqueued iff it has no direct ancestor; nothing else is enqueued",
             z3.And(z3.BoolVal(len(new) <= 1), z3.BoolVal(len(new) == 1) == is_root, *[to_z3(p) == n for p in new]))]


class InitRoots(Spec):
    """the loop before the main one: every node without a direct ancestor -- and no other -- is put in the queue (one arbitrary
    iteration over the nodes)."""
    target = DAG
    fragment = (lambda t: t.startswith("for n, s_ancestors in direct_ancestors_.items()"), lambda t: t.startswith("for n, s_ancestors in direct_ancestors_.items()"))

    def __init__(self):
        self.loops = {("VariablesDAG.compute_topological_order_and_path_matrix", 0): LoopSpec(
            lambda cx, env, k, view: [], modifies=lambda cx, env: [env["q_roots"]],
            iter_pre=lambda cx, env, k, view: len(env["q_roots"].puts), iter_post=roots_post)}

    def setup(self, cx, cfg):
        ix, anc, P, q = kahn_env(cx)
        return dict(env={"direct_ancestors_": anc, "q_roots": q})

    def post(self, cx, st, out):
        return [("the loop ends", z3.BoolVal(True))]


class PathMatrixCreation(Spec):
    """the statement that creates the path matrix: a square BOOLEAN matrix over the nodes, all False (what the transition contracts
    below take as their starting point: `|=` / `= True` on it are set operations; a counting matrix of a narrow integer type would
    wrap around)."""
    target = DAG
    fragment = (lambda t: t.startswith("path_matrix = "), lambda t: t.startswith("path_matrix = "))

    def setup(self, cx, cfg):
        import torch as _torch
        n = z3.Int("n_nodes")
        return dict(env={"n_nodes": SV(n, "int"), "nodes": SSeq(cx, STR, "nodes", pytype=list), "torch": _torch}, n=n)

    def pre(self, cx, st):
        return [("number of nodes", z3.And(st["n"] >= 0, st["env"]["nodes"].length == st["n"]))]

    def post(self, cx, st, out):
        P = out.value.get("path_matrix")
        ok = isinstance(P, STensor) and P.ndim == 2
        res = [("a 2-D tensor", z3.BoolVal(bool(ok)))]
        if ok:
            i, j = z3.Ints("i_c j_c")
            res += [("of booleans", z3.BoolVal(P.dtype == "bool")),
                    ("one row and one column per node", z3.And(dim_z3(P.shape_[0]) == st["n"], dim_z3(P.shape_[1]) == st["n"]))]
            if P.dtype == "bool":
                res.append(("all False", z3.ForAll([i, j], z3.Implies(z3.And(0 <= i, i < st["n"], 0 <= j, j < st["n"]), z3.Not(P.fn((i, j)))))))
        return res


class AcyclicityTest(Spec):
    """the statement after the loop: ValueError ('not a DAG') iff some node was never emitted (given that only nodes are emitted)."""
    target = DAG
    # the first `if ...: raise ValueError('Input graph is not a DAG')` after the loop, whatever its condition is
    fragment = (lambda t: t.startswith("if ") and "raise ValueError('Input graph is not a DAG')" in t,
                lambda t: t.startswith("if ") and "raise ValueError('Input graph is not a DAG')" in t)

    def setup(self, cx, cfg):
        nodes = SSeq(cx, STR, "nodes", pytype=list)
        order = SSeq(cx, STR, "sorted_nodes", pytype=tuple)
        ix, anc, P, q = kahn_env(cx)
        return dict(env={"nodes": nodes, "sorted_nodes": order, "direct_ancestors_": anc, "direct_children_": ChildrenMap(cx), "ix_nodes": ix,
                         "path_matrix": P}, nodes=nodes, order=order)

    def pre(self, cx, st):
        from pyvc.coll import member_formula as member
        x = name_const("x_a")
        return [("lengths", z3.And(st["nodes"].length >= 0, st["order"].length >= 0)),
                ("only nodes are emitted", z3.ForAll([x], z3.Implies(member(st["order"], x), member(st["nodes"], x))))]

    def raises(self, cx, st):
        from pyvc.coll import member_formula as member
        x = name_const("x_r")
        return [(ValueError, z3.Exists([x], z3.And(member(st["nodes"], x), z3.Not(member(st["order"], x)))))]

    def post(self, cx, st, out):
        return [("falls through", z3.BoolVal(True))]


def LEMMAS():
    """soundness of the path matrix along EdgeStep transitions: every entry set stands for a real path"""
    Node = z3.DeclareSort("V")
    E = z3.Function("edge", Node, Node, z3.BoolSort())
    Path = z3.Function("path", Node, Node, z3.BoolSort())
    P0 = z3.Function("P_before", Node, Node, z3.BoolSort())
    P1 = z3.Function("P_after", Node, Node, z3.BoolSort())
    a, b, c = z3.Consts("a b c", Node)
    n, m = z3.Consts("n m", Node)
    path_ax = [z3.ForAll([a, b], z3.Implies(E(a, b), Path(a, b))), z3.ForAll([a, b, c], z3.Implies(z3.And(Path(a, b), Path(b, c)), Path(a, c)))]
    step = z3.ForAll([a, b], P1(a, b) == z3.If(b == m, z3.Or(P0(a, m), P0(a, n), a == n), P0(a, b)))          # EdgeStep's first clause
    out = [("soundness: if every entry set before an edge step n -> m is a real path, so is every entry set after it",
            path_ax + [E(n, m), step, z3.ForAll([a, b], z3.Implies(P0(a, b), Path(a, b)))],
            z3.ForAll([a, b], z3.Implies(P1(a, b), Path(a, b)))),
           ("closure: after the edge step n -> m the matrix contains the edge and everything that reached n reaches m; nothing is lost",
            [step],
            z3.And(P1(n, m), z3.ForAll([a], z3.Implies(P0(a, n), P1(a, m))), z3.ForAll([a, b], z3.Implies(P0(a, b), P1(a, b)))))]
    return out + kahn_invariant_lemmas()


def kahn_invariant_lemmas():
    """Progress of Kahn's algorithm as an induction over the step contracts (the steps themselves are the units above; the final
    graph-theoretic argument -- a non-empty set of nodes each with a direct ancestor inside it contains a cycle -- is
    lemmas/Progress.lean).  Ghost state of the outer loop: em(v) `v is in sorted_nodes`, pos(v) its position, cnt = len(sorted_nodes),
    inQ(v) `v is in the queue`, R(m, a) `a is in direct_ancestors_[m]`.  E(a, m): a is a direct ancestor of m."""
    V = z3.DeclareSort("Vk")
    B, I = z3.BoolSort(), z3.IntSort()
    E = z3.Function("E", V, V, B)
    n = z3.Const("n_dequeued", V)
    a, b, m, x, y, v = z3.Consts("a_k b_k m_k x_k y_k v_k", V)
    j, k = z3.Ints("j_k k_k")
    # the child list of n: exactly the m with E(n, m), without repeats (graph_axioms / the construction of the children map)
    CLn = z3.Int("n_children_of_n")
    CHn = z3.Function("child_of_n", I, V)
    J = z3.Function("position_in_children_of_n", V, I)
    children = [CLn >= 0,
                z3.ForAll([j], z3.Implies(z3.And(0 <= j, j < CLn), z3.And(E(n, CHn(j)), J(CHn(j)) == j))),
                z3.ForAll([x], z3.If(E(n, x), z3.And(0 <= J(x), J(x) < CLn, CHn(J(x)) == x), J(x) == -1)),
                z3.ForAll([x], z3.Not(E(x, x)))]
    # ---- inner loop: composition of the EdgeStep transitions over the children of n
    Rk = z3.Function("R_after", I, V, V, B)         # remaining ancestors after k iterations of the inner loop
    Enq = z3.Function("enqueued_within", I, V, B)   # put in the queue during the first k iterations

    def inv_edge(kk):
        done = z3.And(0 <= J(x), J(x) < kk)
        return z3.And(z3.ForAll([x, y], Rk(kk, x, y) == z3.If(done, z3.And(Rk(0, x, y), y != n), Rk(0, x, y))),
                      z3.ForAll([x], Enq(kk, x) == z3.And(done, z3.ForAll([y], z3.Not(z3.And(Rk(0, x, y), y != n))))))
    mk = CHn(k)
    edge_step = z3.And(          # EdgeStep's contract for iteration k (edge n -> CHn(k)): clauses 2 and 4 of edge_post
        z3.ForAll([x, y], Rk(k + 1, x, y) == z3.If(x == mk, z3.And(Rk(k, mk, y), y != n), Rk(k, x, y))),
        z3.ForAll([x], Enq(k + 1, x) == z3.Or(Enq(k, x), z3.And(x == mk, z3.ForAll([y], z3.Not(Rk(k + 1, mk, y)))))))
    out = [("kahn: the inner loop's effect after k iterations (children 0..k-1 lost n, those left without ancestor were enqueued) holds initially",
            children + [z3.ForAll([x], z3.Not(Enq(0, x)))], inv_edge(z3.IntVal(0))),
           ("kahn: ... and is preserved by one EdgeStep transition",
            children + [0 <= k, k < CLn, inv_edge(k), edge_step], inv_edge(k + 1))]
    # ---- outer loop: one NodeStep (dequeue the front n, append it, run the inner loop to its end)
    em, inQ, pos, R = z3.Function("em", V, B), z3.Function("inQ", V, B), z3.Function("pos", V, I), z3.Function("R", V, V, B)
    em2, inQ2, pos2, R2 = z3.Function("em'", V, B), z3.Function("inQ'", V, B), z3.Function("pos'", V, I), z3.Function("R'", V, V, B)
    cnt, cnt2 = z3.Ints("cnt cnt'")

    def INV(em_, inQ_, pos_, R_, cnt_):
        return z3.And(
            z3.ForAll([m, a], R_(m, a) == z3.And(E(a, m), z3.Not(em_(a)))),
            z3.ForAll([m], z3.Implies(inQ_(m), z3.And(z3.Not(em_(m)), z3.ForAll([a], z3.Not(R_(m, a)))))),
            z3.ForAll([m], z3.Implies(z3.And(z3.Not(em_(m)), z3.Not(inQ_(m))), z3.Exists([a], R_(m, a)))),
            z3.ForAll([a, b], z3.Implies(z3.And(em_(b), E(a, b)), z3.And(em_(a), pos_(a) < pos_(b)))),
            z3.ForAll([v], z3.Implies(em_(v), z3.And(0 <= pos_(v), pos_(v) < cnt_))), cnt_ >= 0)
    node_step = [inQ(n),                                                             # NodeStep: the node taken is (at the front of) the queue
                 z3.ForAll([v], em2(v) == z3.Or(em(v), v == n)), cnt2 == cnt + 1,      # ... appended to the order
                 z3.ForAll([v], pos2(v) == z3.If(v == n, cnt, pos(v))),
                 z3.ForAll([x, y], Rk(0, x, y) == R(x, y)), z3.ForAll([x], z3.Not(Enq(0, x))),
                 inv_edge(CLn),                                                      # the inner loop ran over all children (lemmas above)
                 z3.ForAll([x, y], R2(x, y) == Rk(CLn, x, y)),
                 z3.ForAll([v], inQ2(v) == z3.Or(z3.And(inQ(v), v != n), Enq(CLn, v)))]
    out.append(("kahn: the loop invariant (remaining ancestors = non-emitted direct ancestors; queued = non-emitted without remaining ancestor; "
                "waiting nodes have one; emitted nodes come after their emitted direct ancestors) is preserved by one NodeStep",
                children + [INV(em, inQ, pos, R, cnt)] + node_step, INV(em2, inQ2, pos2, R2, cnt2)))
    out.append(("kahn: the invariant holds when the main loop is reached (InitRoots: exactly the nodes without direct ancestor are queued)",
                [z3.ForAll([v], z3.Not(em(v))), cnt == 0, z3.ForAll([m, a], R(m, a) == E(a, m)),
                 z3.ForAll([m], inQ(m) == z3.ForAll([a], z3.Not(R(m, a))))], INV(em, inQ, pos, R, cnt)))
    out.append(("kahn: when the queue runs empty every non-emitted node has a non-emitted direct ancestor, and every emitted node comes after its "
                "(emitted) direct ancestors -- the hypotheses of lemmas/Progress.lean (refused_iff_cyclic)",
                [INV(em, inQ, pos, R, cnt), z3.ForAll([v], z3.Not(inQ(v)))],
                z3.And(z3.ForAll([m], z3.Implies(z3.Not(em(m)), z3.Exists([a], z3.And(z3.Not(em(a)), E(a, m))))),
                       z3.ForAll([a, b], z3.Implies(z3.And(em(b), E(a, b)), z3.And(em(a), pos(a) < pos(b)))))))
    return out


UNITS = [PathMatrixCreation(), InitRoots(), EdgeStep(), NodeStep(), AcyclicityTest()]
CALLEES = []
ASSUMPTIONS = ["C15: queue.SimpleQueue as a FIFO sequence (put appends, get removes the front); len(s) == 0 iff the set s is empty; "
               "frozenset.difference by its set-algebra meaning; a boolean tensor column update `P[:, j] |= P[:, i]` entry-wise",
               "C15: class invariants of the loop state taken as preconditions of a step: ix_nodes numbers the nodes injectively in [0, n), every "
               "child list holds distinct nodes different from their parent (established by the validation before the loop; stand-in)"]
NOT_DECIDED = ["the construction of the children map (taken as the inverse of the ancestors map, each child listed once: a hypothesis of the progress "
               "lemmas), the validation before the loop, the re-ordering of the matrix and compute_sorted_children_and_ancestors: bounded stand-in "
               "(all labelled digraphs up to 4 / 5 nodes) only",
               "termination of the loops themselves (each NodeStep emits a new node; the loop variant is not discharged)"]
LEAN_FILES = ["lemmas/Closure.lean", "lemmas/Progress.lean"]
LEVEL = "exploration"
