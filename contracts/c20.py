"""C20 -- benchmark models.  The numpy code (nanmax / nanmean / argmax / fancy indexing of ConstantPredictionAlgorithm,
the LME algebra on numpy arrays, statsmodels) is outside the verifier's subset and is decided by the bounded stand-in
(exhaustive small scope).  Under contract here: ConstantModel.compute_individual_trajectory."""
import numpy as np
import z3

from pyvc.api import *
from pyvc.tensor import STensor


class ConstantTrajectory(Spec):
    """ConstantModel.compute_individual_trajectory: shape (1, n_ages, n_features); every row holds the individual's
    per-feature values in the model's feature order, whatever the requested ages are; an uninitialised model is refused."""
    target = "leaspy.models.constant:ConstantModel.compute_individual_trajectory"

    def configs(self):
        return [dict(n_ages=k, feats=f) for k in (1, 2, 4) for f in (("A", "B"), ("only",), None)]

    def setup(self, cx, cfg):
        from leaspy.models.constant import ConstantModel
        feats = list(cfg["feats"]) if cfg["feats"] else None
        self_ = SymObj(ConstantModel, dict(features=feats))
        ages = [SV(z3.Real(f"age{j}"), "real") for j in range(cfg["n_ages"])]
        ip = {f: SV(z3.Real(f"v_{f}"), "real") for f in (feats or [])}
        ip["unrelated"] = SV(z3.Real("v_unrelated"), "real")
        return dict(args=(self_, ages, ip), ip=ip, feats=feats)

    def raises(self, cx, st):
        from leaspy.exceptions import LeaspyModelInputError
        return [(LeaspyModelInputError, z3.BoolVal(st["feats"] is None))]

    def post(self, cx, st, out):
        r, cfg = out.value, st["cfg"]
        nf = len(st["feats"])
        ok = isinstance(r, STensor) and r.ndim == 3
        res = [("a 3-D tensor", z3.BoolVal(ok))]
        if ok:
            shp = tuple(d if isinstance(d, int) else None for d in r.shape_)
            res.append(("shape (1, n_ages, n_features)", z3.BoolVal(shp == (1, cfg["n_ages"], nf) or (cfg["n_ages"] == 0 and shp[0] == 1))))
            if cfg["n_ages"]:
                res.append(("every requested age gets the individual's values in feature order", z3.And(*[
                    r.fn((z3.IntVal(0), z3.IntVal(j), z3.IntVal(q))) == st["ip"][f].e
                    for j in range(cfg["n_ages"]) for q, f in enumerate(st["feats"])])))
        return res


# ------------------------------------------------------------------------------------------------------------------
# ConstantPredictionAlgorithm._get_feature_values: any number of visits and features
from pyvc.tensor import F_ISNAN, dim_z3


class FeatureValues(Spec):
    """ConstantPredictionAlgorithm._get_feature_values(times, values), for ANY number of visits (>= 1) and of features (>= 1),
    ages in any order, any pattern of missing values:
      max        -- per feature, the largest non-missing value (one of the observed values, >= every other), missing iff all are;
      mean       -- per feature, (sum of the non-missing values) / (their number), missing iff all are;
      last       -- the values of one visit whose age is >= every age (missing values kept);
      last-known -- per feature, the non-missing value of a visit whose age is >= the age of every visit where that feature
                    is not missing; missing iff all are."""
    target = "leaspy.algo.personalize.constant_prediction_algo:ConstantPredictionAlgorithm._get_feature_values"

    def configs(self):
        return [dict(kind=k) for k in ("max", "mean", "last", "last-known")]

    def setup(self, cx, cfg):
        from leaspy.algo.personalize.constant_prediction_algo import ConstantPredictionAlgorithm, PredictionType
        N, F = z3.Ints("n_visits n_features")
        self_ = SymObj(ConstantPredictionAlgorithm, dict(prediction_type=PredictionType(cfg["kind"])))
        times = STensor.sym(cx, "times", (N,))
        values = STensor.sym(cx, "values", (N, F))
        return dict(args=(self_, times, values), N=N, F=F, times=times, values=values)

    def pre(self, cx, st):
        k = z3.Int("k_pre")
        return [("at least one visit and one feature", z3.And(st["N"] >= 1, st["F"] >= 1)),
                ("ages are numbers (never NaN: the reader refuses them)", z3.ForAll([k], z3.Not(F_ISNAN(st["times"].fn((k,))))))]

    def post(self, cx, st, out):
        r, kind = out.value, st["cfg"]["kind"]
        N, F, T, V = st["N"], st["F"], st["times"], st["values"]
        ok = isinstance(r, STensor) and r.ndim == 1
        res = [("a 1-D array", z3.BoolVal(bool(ok)))]
        if not ok:
            return res
        res.append(("one entry per feature", dim_z3(r.shape_[0]) == F))
        f, i, j, k = z3.Ints("f_p i_p j_p k_p")
        inF = z3.And(0 <= f, f < F)

        def inN(x):
            return z3.And(0 <= x, x < N)

        def obs(x):
            return z3.Not(F_ISNAN(V.fn((x, f))))
        all_missing = z3.ForAll([i], z3.Implies(inN(i), z3.Not(obs(i))))
        rf = r.fn((f,))
        if kind == "max":
            body = z3.If(all_missing, F_ISNAN(rf),
                         z3.And(z3.Not(F_ISNAN(rf)), z3.ForAll([i], z3.Implies(z3.And(inN(i), obs(i)), V.fn((i, f)) <= rf)),
                                z3.Exists([j], z3.And(inN(j), obs(j), V.fn((j, f)) == rf))))
            res.append(("per feature: the largest non-missing value; missing iff every value is", z3.ForAll([f], z3.Implies(inF, body))))
        elif kind == "mean":
            from pyvc.tensor import sigma_term
            s = sigma_term(cx, lambda x: z3.If(F_ISNAN(V.fn((x, f))), z3.RealVal(0), V.fn((x, f))), N)
            c = sigma_term(cx, lambda x: z3.If(F_ISNAN(V.fn((x, f))), z3.RealVal(0), z3.RealVal(1)), N)
            body = z3.If(c == 0, F_ISNAN(rf), z3.And(z3.Not(F_ISNAN(rf)), rf * c == s))
            res.append(("per feature: sum of the non-missing values over their number; missing iff there is none", z3.ForAll([f], z3.Implies(inF, body))))
        elif kind == "last":
            res.append(("the values of one visit whose age is >= every age",
                        z3.Exists([j], z3.And(inN(j), z3.ForAll([k], z3.Implies(inN(k), T.fn((k,)) <= T.fn((j,)))),
                                              z3.ForAll([f], z3.Implies(inF, rf == V.fn((j, f))))))))
        else:
            body = z3.If(all_missing, F_ISNAN(rf),
                         z3.Exists([j], z3.And(inN(j), obs(j), rf == V.fn((j, f)),
                                               z3.ForAll([k], z3.Implies(z3.And(inN(k), obs(k)), T.fn((k,)) <= T.fn((j,)))))))
            res.append(("per feature: the non-missing value of the most recent visit where it is not missing; missing iff every value is",
                        z3.ForAll([f], z3.Implies(inF, body))))
        return res


# ------------------------------------------------------------------------------------------------------------------
# LME benchmark: conditional means of the random effects, straight-line trajectories
def _lme_model(cx, slope):
    from leaspy.models.lme import LMEModel
    k = 2 if slope else 1
    par = dict(ages_mean=SV(z3.Real("ages_mean"), "real"), ages_std=SV(z3.Real("ages_std"), "real"),
               fe_params=STensor.sym(cx, "fe_params", (2,)), cov_re_unscaled_inv=STensor.sym(cx, "cov_re_unscaled_inv", (k, k)))
    return SymObj(LMEModel, dict(parameters=par, with_random_slope_age=slope, features=["Y"])), par


class RemoveNans(Spec):
    """assumed callee contract of LMEPersonalizeAlgorithm._remove_nans (boolean-mask selection is outside the subset; the
    bounded stand-in runs the real one): two arrays of one common length holding the non-missing values and their ages."""
    target = "leaspy.algo.personalize.lme_personalize:LMEPersonalizeAlgorithm._remove_nans"

    def bind(self, it, args, kwargs):
        return dict(args=args)

    def result(self, cx, st):
        m = z3.Int(cx.fresh_name("n_obs"))
        cx.assume(m >= 0)
        v, t = STensor.sym(cx, cx.fresh_name("obs_values"), (m,)), STensor.sym(cx, cx.fresh_name("obs_ages"), (m,))
        cx.ghost.update(n_obs=m, obs_values=v, obs_ages=t)
        return (v, t)


class GenericRandomEffects(Spec):
    """LMEPersonalizeAlgorithm._generic_get_random_effects(resid, Z, C): for ANY number of observations, the solution b of
    (Z'Z + C) b = Z' resid -- the conditional mean of the random effects given the variance components; a singular
    Z'Z + C makes numpy raise LinAlgError.  Verified on the real body, used as the callee's contract by RandomEffects."""
    target = "leaspy.algo.personalize.lme_personalize:LMEPersonalizeAlgorithm._generic_get_random_effects"

    def configs(self):
        return [dict(k_re=1), dict(k_re=2)]

    def setup(self, cx, cfg):
        n, k = z3.Int("n_obs"), cfg["k_re"]
        cx.assume(n >= 0)
        st = dict(resid=STensor.sym(cx, "resid", (n,)), Z=STensor.sym(cx, "Z", (n, k)), C=STensor.sym(cx, "C", (k, k)), k=k, n=n)
        st["args"] = (st["resid"], st["Z"], st["C"])
        return st

    def bind(self, it, args, kwargs):
        resid, Z, C = args
        k = Z.shape_[1]
        if not (isinstance(k, int) and k in (1, 2)):
            raise OutOfSubset("random effects of this dimension")
        return dict(resid=resid, Z=Z, C=C, k=k, n=Z.shape_[0])

    def _system(self, cx, st):
        from pyvc.tensor import sigma_term
        Z, C, r, k, n = st["Z"], st["C"], st["resid"], st["k"], st["n"]
        A = [[sigma_term(cx, (lambda q, i=i, j=j: Z.fn((q, z3.IntVal(i))) * Z.fn((q, z3.IntVal(j)))), n) + C.at(i, j) for j in range(k)] for i in range(k)]
        v = [sigma_term(cx, (lambda q, i=i: Z.fn((q, z3.IntVal(i))) * r.fn((q,))), n) for i in range(k)]
        det = A[0][0] if k == 1 else A[0][0] * A[1][1] - A[0][1] * A[1][0]
        return A, v, det

    def raises(self, cx, st):
        return [(np.linalg.LinAlgError, self._system(cx, st)[2] == 0)]

    def result(self, cx, st):
        return STensor.sym(cx, cx.fresh_name("random_effects"), (st["k"],))

    def post(self, cx, st, out):
        b = out.value
        ok = isinstance(b, STensor) and b.ndim == 1
        res = [("a 1-D array", z3.BoolVal(bool(ok)))]
        if not ok:
            return res
        k = st["k"]
        A, v, _ = self._system(cx, st)
        res.append(("one entry per random effect", dim_z3(b.shape_[0]) == k))
        for i in range(k):
            res.append((f"row {i} of (Z'Z + C) b = Z' resid", sum(A[i][j] * b.at(j) for j in range(k)) == v[i]))
        return res


class RandomEffects(Spec):
    """LMEPersonalizeAlgorithm._get_individual_random_effects_and_residuals, for ANY number m >= 0 of non-missing observations
    (y_k at normalised ages a_k = (t_k - ages_mean) / ages_std, fixed-effect residuals r_k = y_k - fe_0 - fe_1 a_k):
      random intercept only  --  b (m + c) = sum_k r_k                         (c = cov_re_unscaled_inv, 1x1);
      random intercept+slope --  (Z'Z + C) b = Z'r  with Z = [1, a_k]           (C = cov_re_unscaled_inv, 2x2): the conditional mean
    of the random effects given the fitted variance components; the returned residuals are r_k - (Z b)_k."""
    target = "leaspy.algo.personalize.lme_personalize:LMEPersonalizeAlgorithm._get_individual_random_effects_and_residuals"
    ob_meta = {"purify_first": False}

    def configs(self):
        return [dict(slope=False), dict(slope=True)]

    def setup(self, cx, cfg):
        from leaspy.algo.personalize.lme_personalize import LMEPersonalizeAlgorithm
        model, par = _lme_model(cx, cfg["slope"])
        n = z3.Int("n_visits")
        times, values = STensor.sym(cx, "times", (n,)), STensor.sym(cx, "values", (n, 1))
        return dict(args=(LMEPersonalizeAlgorithm, model, times, values), par=par, n=n)

    def pre(self, cx, st):
        par = st["par"]
        C = par["cov_re_unscaled_inv"]
        res = [("at least one visit; the ages were normalised by a non-zero spread", z3.And(st["n"] >= 1, par["ages_std"].e != 0))]
        if not st["cfg"]["slope"]:
            res.append(("cov_re_unscaled_inv > 0 (inverse of a variance ratio)", C.at(0, 0) > 0))
        return res

    # the 2x2 system is singular only if Z'Z + C is, which a positive definite C excludes (Cauchy-Schwarz on the sums: not
    # discharged, see ASSUMPTIONS); on that path numpy raises LinAlgError, which this contract leaves unconstrained
    may_raise = (np.linalg.LinAlgError,)

    def post(self, cx, st, out):
        from pyvc.tensor import sigma_term
        par, g = st["par"], cx.ghost
        r = out.value
        ok = isinstance(r, tuple) and len(r) == 2 and isinstance(r[0], dict) and isinstance(r[1], STensor) and "n_obs" in g
        res = [("(random effects, residuals) from the non-missing observations", z3.BoolVal(bool(ok)))]
        if not ok:
            return res
        re_d, resid = r
        m, Y, T = g["n_obs"], g["obs_values"], g["obs_ages"]
        mean, std, fe, C = par["ages_mean"].e, par["ages_std"].e, par["fe_params"], par["cov_re_unscaled_inv"]

        def a(k):
            return (T.fn((k,)) - mean) / std

        def r0(k):
            return Y.fn((k,)) - fe.at(0) - fe.at(1) * a(k)
        want = ["random_intercept"] + (["random_slope_age"] if st["cfg"]["slope"] else [])
        res.append(("exactly the documented random effects", z3.BoolVal(sorted(re_d) == sorted(want))))
        if sorted(re_d) != sorted(want):
            return res

        def val(x):
            return x.elem_real(()) if isinstance(x, STensor) else to_z3(x, "real")
        b = [val(re_d[nm]) for nm in want]
        kq = z3.Int("k_p")
        res.append(("one residual per non-missing observation", dim_z3(resid.shape_[0]) == m if resid.ndim == 1 else z3.BoolVal(False)))
        if not st["cfg"]["slope"]:
            res.append(("b (m + c) = sum of the fixed-effect residuals", b[0] * (z3.ToReal(m) + C.at(0, 0)) == sigma_term(cx, r0, m)))
            res.append(("residuals: r_k - b", z3.ForAll([kq], z3.Implies(z3.And(0 <= kq, kq < m), resid.fn((kq,)) == r0(kq) - b[0]))))
        else:
            Z = [lambda k: z3.RealVal(1), a]
            for i in range(2):
                lhs = sum((sigma_term(cx, (lambda k, i=i, j=j: Z[i](k) * Z[j](k)), m) + C.at(i, j)) * b[j] for j in range(2))
                res.append((f"row {i} of (Z'Z + C) b = Z'r", lhs == sigma_term(cx, (lambda k, i=i: Z[i](k) * r0(k)), m)))
            res.append(("residuals: r_k - b_0 - b_1 a_k", z3.ForAll([kq], z3.Implies(z3.And(0 <= kq, kq < m), resid.fn((kq,)) == r0(kq) - b[0] - b[1] * a(kq)))))
        return res


class LmeTrajectory(Spec):
    """LMEModel.compute_individual_trajectory: at every requested age t the straight line
    (fe_0 + b_0) + (fe_1 + b_1) (t - ages_mean) / ages_std  (b_1 = 0 without random slope), shape (1, n_ages, 1)."""
    target = "leaspy.models.lme:LMEModel.compute_individual_trajectory"

    def configs(self):
        return [dict(slope=s_) for s_ in (False, True)]

    def setup(self, cx, cfg):
        model, par = _lme_model(cx, cfg["slope"])
        n = z3.Int("n_ages")
        cx.assume(n >= 1)
        ages = STensor.sym(cx, "ages", (n,))           # any number of requested ages, given as an array
        ip = {"random_intercept": STensor.sym(cx, "b0", ()), "random_slope_age": STensor.sym(cx, "b1", ())}
        if not cfg["slope"]:
            del ip["random_slope_age"]
        return dict(args=(model, ages, ip), par=par, ages=ages, ip=ip, n=n)

    def pre(self, cx, st):
        return [("non-zero age spread", st["par"]["ages_std"].e != 0)]

    def post(self, cx, st, out):
        r, cfg, par = out.value, st["cfg"], st["par"]
        ok = isinstance(r, STensor) and r.ndim == 3
        res = [("a 3-D tensor", z3.BoolVal(bool(ok)))]
        if not ok:
            return res
        n = st["n"]
        res.append(("shape (1, n_ages, 1)", z3.And(dim_z3(r.shape_[0]) == 1, dim_z3(r.shape_[1]) == n, dim_z3(r.shape_[2]) == 1)))
        b0 = st["ip"]["random_intercept"].fn(())
        b1 = st["ip"]["random_slope_age"].fn(()) if cfg["slope"] else z3.RealVal(0)
        fe = par["fe_params"]
        j = z3.Int("j_p")
        res.append(("the straight line in (normalised) age", z3.ForAll([j], z3.Implies(z3.And(0 <= j, j < n),
            r.elem_real((z3.IntVal(0), j, z3.IntVal(0))) ==
            (fe.at(0) + b0) + (fe.at(1) + b1) * (st["ages"].fn((j,)) - par["ages_mean"].e) / par["ages_std"].e))))
        return res


def engine_setup(eng):
    from pyvc import npmodels
    npmodels.register_statsmodels()


_GRE = GenericRandomEffects()
UNITS = [ConstantTrajectory(), FeatureValues(), _GRE, RandomEffects(), LmeTrajectory()]
CALLEES = [RemoveNans(), _GRE]
NOT_DECIDED = ["agreement of the personalised random effects with the reference mixed-model library on the training individuals (depends on the fit): bounded stand-in only",
               "the per-individual driver loops (_compute_individual_parameters of both algorithms) and LMEPersonalizeAlgorithm._remove_nans (boolean-mask selection; assumed callee contract): bounded stand-in only",
               "invertibility of Z'Z + C for a positive definite C (Cauchy-Schwarz over sums): the singular path is left to numpy's LinAlgError"]
ASSUMPTIONS = ["torch.tensor(nested list) builds the tensor row by row",
               "numpy by contract: nanmax / nanmin (largest / smallest non-NaN entry along the axis, NaN iff all are), nanmean (sum of the non-NaN entries over their number), "
               "argmax (first maximal entry), sorted(range(n), key=a.__getitem__, reverse=...) (a stable ordered permutation of the indices), a[index arrays] (gather), "
               "dot / @ (sums of products), linalg.inv (a two-sided inverse; LinAlgError iff the determinant is 0; 1x1 and 2x2 only), statsmodels add_constant(has_constant='add') = [1, x]",
               "NaN is the explicit predicate isnan(x) on real-valued entries; comparisons are only made between non-NaN entries by the modelled operations; ages are never NaN",
               "LMEPersonalizeAlgorithm._remove_nans returns two arrays of one common length (assumed callee contract, exercised by the stand-in)"]
LEVEL = "other"   # deductive kernel + stand-in for the library agreement and the driver loops
