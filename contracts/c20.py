"""C20 -- benchmark models.  The numpy code (nanmax / nanmean / argmax / fancy indexing of ConstantPredictionAlgorithm,
the LME algebra on numpy arrays, statsmodels) is outside the verifier's subset and is decided by the bounded stand-in
(exhaustive small scope).  Under contract here: ConstantModel.compute_individual_trajectory."""
import z3

from pyvc.api import *
from pyvc.tensor import STensor


class ConstantTrajectory(Spec):
    """ConstantModel.compute_individual_trajectory: shape (1, n_ages, n_features); every row holds the individual's
    per-feature values in the model's feature order, whatever the requested ages are; an uninitialised model is refused."""
    target = "leaspy.models.constant:ConstantModel.compute_individual_trajectory"

    def configs(self):
        return [dict(n_ages=k, feats=f) for k in (1, 2, 4) for f in (("A", "B"), ("only",), None)]

    def setup(self, cx, cfg):
        from leaspy.models.constant import ConstantModel
        feats = list(cfg["feats"]) if cfg["feats"] else None
        self_ = SymObj(ConstantModel, dict(features=feats))
        ages = [SV(z3.Real(f"age{j}"), "real") for j in range(cfg["n_ages"])]
        ip = {f: SV(z3.Real(f"v_{f}"), "real") for f in (feats or [])}
        ip["unrelated"] = SV(z3.Real("v_unrelated"), "real")
        return dict(args=(self_, ages, ip), ip=ip, feats=feats)

    def raises(self, cx, st):
        from leaspy.exceptions import LeaspyModelInputError
        return [(LeaspyModelInputError, z3.BoolVal(st["feats"] is None))]

    def post(self, cx, st, out):
        r, cfg = out.value, st["cfg"]
        nf = len(st["feats"])
        ok = isinstance(r, STensor) and r.ndim == 3
        res = [("a 3-D tensor", z3.BoolVal(ok))]
        if ok:
            shp = tuple(d if isinstance(d, int) else None for d in r.shape_)
            res.append(("shape (1, n_ages, n_features)", z3.BoolVal(shp == (1, cfg["n_ages"], nf) or (cfg["n_ages"] == 0 and shp[0] == 1))))
            if cfg["n_ages"]:
                res.append(("every requested age gets the individual's values in feature order", z3.And(*[
                    r.fn((z3.IntVal(0), z3.IntVal(j), z3.IntVal(q))) == st["ip"][f].e
                    for j in range(cfg["n_ages"]) for q, f in enumerate(st["feats"])])))
        return res


UNITS = [ConstantTrajectory()]
CALLEES = []
NOT_DECIDED = ["ConstantPredictionAlgorithm._get_feature_values and the LME personalisation (numpy / statsmodels): bounded stand-in only"]
ASSUMPTIONS = ["torch.tensor(nested list) builds the tensor row by row"]
LEVEL = "exploration"   # the property is decided mainly by the bounded stand-in (numpy / statsmodels code)
