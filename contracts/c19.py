"""C19 -- temperature and proposal-scale schedules stay within their documented envelopes.

Real functions under contract:
  AlgorithmWithAnnealingMixin.__init__ / _initialize_annealing / _update_temperature
  GibbsSamplerMixin._set_acceptation_bounds / _set_adaptive_std_factor / _update_std
  AbstractSampler._update_acceptation_rate
plus the schedule lemma (induction over the iterations) stated over the contract of _update_temperature.
"""
import z3

from pyvc.api import *
from pyvc.tensor import STensor, sigma_term
from pyvc.core import Obligation

ANN = "leaspy.algo.algo_with_annealing:AlgorithmWithAnnealingMixin"
GIBBS = "leaspy.samplers.gibbs:GibbsSamplerMixin"
BASE = "leaspy.samplers.base:AbstractSampler"


def algo_class():
    from leaspy.algo.fit.mcmc_saem import TensorMcmcSaemAlgorithm
    return TensorMcmcSaemAlgorithm


def AlgoErr():
    from leaspy.exceptions import LeaspyAlgoInputError
    return LeaspyAlgoInputError


def InputErr():
    from leaspy.exceptions import LeaspyInputError
    return LeaspyInputError


def make_settings(cx, params):
    from leaspy.algo.settings import AlgorithmSettings
    from leaspy.algo.base import AlgorithmName
    return SymObj(AlgorithmSettings, dict(name=AlgorithmName.FIT_MCMC_SAEM, seed=None, parameters=params,
                                          logs=None, device="cpu"))


# ------------------------------------------------------------------------------------------------
class AnnealingInit(Spec):
    """constructor: temperature 1, number of annealing iterations = explicit count or int(frac * n_iter)."""
    target = ANN + ".__init__"

    def configs(self):
        out = [dict(ann="off"), dict(ann="absent")]
        for c in ("none", "int", "absent"):
            for f in ("none", "real"):
                out.append(dict(ann="on", count=c, frac=f))
        return out

    def setup(self, cx, cfg):
        n_iter, frac, count = cx.int("n_iter"), cx.real("frac"), cx.int("count")
        params = {"n_iter": n_iter, "n_burn_in_iter_frac": 0.9, "burn_in_step_power": 0.8}
        if cfg["ann"] != "absent":
            ann = {"do_annealing": cfg["ann"] == "on"}
            if cfg["ann"] == "on":
                ann["n_iter_frac"] = frac if cfg["frac"] == "real" else None
                if cfg["count"] == "int":
                    ann["n_iter"] = count
                elif cfg["count"] == "none":
                    ann["n_iter"] = None
            params["annealing"] = ann
        settings = make_settings(cx, params)
        self_ = SymObj(algo_class())
        return dict(args=(self_, settings), self=self_, n_iter=n_iter, frac=frac, count=count)

    def pre(self, cx, st):
        return [("n_iter >= 0", z(st["n_iter"]) >= 0),
                ("0 <= frac <= 1", z3.And(z(st["frac"]) >= 0, z(st["frac"]) <= 1))]

    def raises(self, cx, st):
        cfg = st["cfg"]
        return [(AlgoErr(), z3.BoolVal(cfg["ann"] == "on" and cfg["count"] != "int" and cfg["frac"] == "none"))]

    def post(self, cx, st, out):
        cfg, f = st["cfg"], st["self"].f
        res = [("temperature starts at 1", z3.And(z(f["temperature"], "real") == 1, z(f["temperature_inv"], "real") == 1)),
               ("annealing_on reflects the setting", z3.BoolVal(f["annealing_on"] == (cfg["ann"] == "on")))]
        if cfg["ann"] == "on":
            got = f["algo_parameters"]["annealing"]["n_iter"]
            if cfg["count"] == "int":
                res.append(("explicit annealing count kept", z(got) == z(st["count"])))
            else:
                prod = z(st["frac"]) * z3.ToReal(z(st["n_iter"]))
                res.append(("annealing count = floor(frac * n_iter)",
                            z3.And(z3.ToReal(z(got)) <= prod, prod < z3.ToReal(z(got)) + 1)))
        return res


# ------------------------------------------------------------------------------------------------
class InitializeAnnealing(Spec):
    """start of a run: T = T0, 1/T; plateau length p = N // (P-1) and decrement d = (T0-1)/(P-1);
    every configuration that is not refused here must let the run complete (p >= 1)."""
    target = ANN + "._initialize_annealing"

    def configs(self):
        return [dict(on=False), dict(on=True, P="int"), dict(on=True, P="float"), dict(on=True, P="bool")]

    def setup(self, cx, cfg):
        T0, N = cx.real("T0"), cx.int("N")
        P = {"int": cx.int("P"), "float": cx.real("Pf"), "bool": True}[cfg.get("P", "int")]
        ann = {"initial_temperature": T0, "n_plateau": P, "n_iter": N, "do_annealing": cfg["on"]}
        self_ = SymObj(algo_class(), dict(annealing_on=cfg["on"], temperature=1.0, temperature_inv=1.0,
                                          _annealing_period=None, _annealing_temperature_decrement=None,
                                          algo_parameters={"annealing": ann, "n_iter": cx.int("n_iter")}))
        return dict(args=(self_,), self=self_, T0=T0, N=N, P=P)

    def pre(self, cx, st):
        # established by the constructor: N = explicit count or floor(frac*n_iter) >= 0
        return [("N >= 0", z(st["N"]) >= 0)]

    def raises(self, cx, st):
        """refused exactly when the envelope of the property cannot be met: T0 < 1, a plateau count that
        is not a positive integer, or (two or more plateaus and (T0 <= 1 or fewer annealing iterations
        than temperature steps: N < P - 1))."""
        cfg = st["cfg"]
        if not cfg["on"]:
            return []
        T0 = z(st["T0"])
        if cfg["P"] == "float":
            return [(AlgoErr(), z3.BoolVal(True))]
        if cfg["P"] == "bool":      # True is an int equal to 1 in python: one plateau
            return [(AlgoErr(), z3.Not(T0 >= 1))]
        P, N = z(st["P"]), z(st["N"])
        return [(AlgoErr(), z3.Or(z3.Not(T0 >= 1), P <= 0, z3.And(P >= 2, z3.Or(T0 <= 1, N < P - 1))))]

    def frame(self, cx, st):
        s = st["self"]
        return [loc_field(s, n) for n in ("temperature", "temperature_inv", "_annealing_period",
                                          "_annealing_temperature_decrement")]

    def post(self, cx, st, out):
        cfg, f = st["cfg"], st["self"].f
        if not cfg["on"]:
            return [("without annealing the temperature stays 1",
                     z3.And(z(f["temperature"], "real") == 1, z(f["temperature_inv"], "real") == 1))]
        T0 = z(st["T0"])
        res = [("T = T0", z(f["temperature"], "real") == T0),
               ("T_inv = 1/T0", z(f["temperature_inv"], "real") * T0 == 1)]
        if cfg["P"] == "int":
            P, N = z(st["P"]), z(st["N"])
            per, dec = f["_annealing_period"], f["_annealing_temperature_decrement"]
            res.append(("one plateau: no schedule", z3.Implies(P == 1, z3.BoolVal(per is None))))
            if per is None:
                res.append(("temperature can reach 1 after the annealing iterations (one plateau never moves: needs T0 = 1)", T0 == 1))
            if per is not None:
                p = z(per)
                res.append(("plateau length p = N // (P-1)", z3.And(p * (P - 1) <= N, N < (p + 1) * (P - 1))))
                res.append(("decrement d = (T0-1)/(P-1)", z(dec, "real") * z3.ToReal(P - 1) == T0 - 1))
                res.append(("accepted configuration can run: plateau length >= 1 (else k % 0 at the first iteration)", p >= 1))
        return res


# ------------------------------------------------------------------------------------------------
class UpdateTemperature(Spec):
    """iteration k: T' = max(T - d, 1) iff k <= N and k mod p == 0, else T' = T; T_inv' = 1/T'; no run-time error."""
    target = ANN + "._update_temperature"

    def configs(self):
        return [dict(on=False, per="int"), dict(on=True, per="none"), dict(on=True, per="int")]

    def setup(self, cx, cfg):
        T, Tinv, d, k, N, p = cx.real("T"), cx.real("Tinv"), cx.real("d"), cx.int("k"), cx.int("N"), cx.int("p")
        P = cx.int("P")
        self_ = SymObj(algo_class(), dict(
            annealing_on=cfg["on"], temperature=T, temperature_inv=Tinv, current_iteration=k,
            _annealing_period=p if cfg["per"] == "int" else None, _annealing_temperature_decrement=d,
            algo_parameters={"annealing": {"n_iter": N, "n_plateau": P}}))
        return dict(args=(self_,), self=self_, T=T, Tinv=Tinv, d=d, k=k, N=N, p=p, P=P)

    def pre(self, cx, st):
        return [("k >= 1", z(st["k"]) >= 1), ("T >= 1", z(st["T"]) >= 1), ("d > 0", z(st["d"]) > 0),
                ("T_inv = 1/T", z(st["Tinv"]) * z(st["T"]) == 1),
                ("p >= 1 (established by _initialize_annealing)", z(st["p"]) >= 1),
                ("P >= 2 (a schedule exists only then)", z(st["P"]) >= 2)]

    def frame(self, cx, st):
        return [loc_field(st["self"], "temperature"), loc_field(st["self"], "temperature_inv")]

    def post(self, cx, st, out):
        cfg, f = st["cfg"], st["self"].f
        T, d, k, N, p = z(st["T"]), z(st["d"]), z(st["k"]), z(st["N"]), z(st["p"])
        T2, Tinv2 = z(f["temperature"], "real"), z(f["temperature_inv"], "real")
        if not cfg["on"] or cfg["per"] == "none":
            return [("temperature untouched", z3.And(T2 == T, Tinv2 == z(st["Tinv"])))]
        return self.relation(T, d, k, N, p, z(st["P"]), T2, Tinv2)

    @staticmethod
    def relation(T, d, k, N, p, P, T2, Tinv2):
        """the transition relation promised by the contract (also used by the schedule lemmas)"""
        boundary = z3.And(k <= N, k % p == 0)
        last = k / p >= P - 1          # all P-1 temperature steps have been taken
        mx = z3.If(T - d >= 1, T - d, z3.RealVal(1))
        return [("T' = max(T - d, 1) at a plateau boundary before the last plateau", z3.Implies(z3.And(boundary, z3.Not(last)), T2 == mx)),
                ("T' is exactly 1 from the last plateau on, whatever rounding accumulated in T", z3.Implies(z3.And(boundary, last), T2 == 1)),
                ("T' = T elsewhere", z3.Implies(z3.Not(boundary), T2 == T)),
                ("never increases", T2 <= T), ("never below 1", T2 >= 1),
                ("T_inv' = 1/T'", Tinv2 * T2 == 1)]


def LEMMAS():
    """schedule lemma by induction over the iterations, from the contracts only:
    T_k = max(T0 - floor(k/p) d, 1) for 0 <= k <= N, hence T_N = 1, and T_k = T_N afterwards."""
    T0, d, T, T2, Ti2 = z3.Reals("T0 d T T2 Ti2")
    k, N, p, P = z3.Ints("k N p P")

    def mx(x):
        return z3.If(x >= 1, x, z3.RealVal(1))

    def inv(kk, TT):
        return TT == mx(T0 - z3.ToReal(kk / p) * d)
    # what _initialize_annealing's contract establishes on normal return with P >= 2
    base = [p >= 1, P >= 2, T0 > 1, d * z3.ToReal(P - 1) == T0 - 1, p * (P - 1) <= N, N < (p + 1) * (P - 1)]
    step = z3.And(*[f for _, f in UpdateTemperature.relation(T, d, k, N, p, P, T2, Ti2)])
    # hints: the division algorithm for k and k-1 (theorems of integer arithmetic for p >= 1, stated
    # explicitly because the solvers' nonlinear reasoning does not find them reliably)
    q, r, q1, r1 = z3.Ints("q r q1 r1")
    hint = [q == k / p, r == k % p, k == p * q + r, 0 <= r, r < p,
            q1 == (k - 1) / p, r1 == (k - 1) % p, k - 1 == p * q1 + r1, 0 <= r1, r1 < p]
    return [
        ("schedule lemma: invariant holds initially (T_0 = T0)", base, inv(z3.IntVal(0), T0)),
        ("schedule lemma: invariant preserved by one iteration", base + hint + [1 <= k, k <= N, inv(k - 1, T), step], inv(k, T2)),
        ("schedule lemma: temperature is exactly 1 once the annealing iterations are over", base + [inv(N, T)], T == 1),
        ("schedule lemma: no change after the annealing window", base + [k > N, step], T2 == T),
        ("schedule lemma: changes only at plateau boundaries", base + hint + [1 <= k, step, T2 != T], k % p == 0),
    ]


# ------------------------------------------------------------------------------------------------
class SetAcceptationBounds(Spec):
    """accepts exactly pairs 0 < lo < hi < 1."""
    target = GIBBS + "._set_acceptation_bounds"

    def configs(self):
        return [dict(kind="pair"), dict(kind="triple"), dict(kind="scalar")]

    def setup(self, cx, cfg):
        from leaspy.samplers.gibbs import IndividualGibbsSampler
        lo, hi = cx.real("lo"), cx.real("hi")
        arg = {"pair": (lo, hi), "triple": (lo, hi, hi), "scalar": lo}[cfg["kind"]]
        self_ = SymObj(IndividualGibbsSampler)
        return dict(args=(self_, arg), self=self_, lo=lo, hi=hi)

    def raises(self, cx, st):
        lo, hi = z(st["lo"]), z(st["hi"])
        if st["cfg"]["kind"] != "pair":
            return [(InputErr(), z3.BoolVal(True))]
        return [(InputErr(), z3.Not(z3.And(0 < lo, lo < hi, hi < 1)))]

    def post(self, cx, st, out):
        f = st["self"].f
        return [("bounds stored", z3.And(z(f["_mean_acceptation_lower_bound_before_adaptation"]) == z(st["lo"]),
                                         z(f["_mean_acceptation_upper_bound_before_adaptation"]) == z(st["hi"])))]


class SetAdaptiveStdFactor(Spec):
    """accepts exactly factors in (0, 1)."""
    target = GIBBS + "._set_adaptive_std_factor"

    def setup(self, cx, cfg):
        from leaspy.samplers.gibbs import IndividualGibbsSampler
        fct = cx.real("factor")
        self_ = SymObj(IndividualGibbsSampler)
        return dict(args=(self_, fct), self=self_, fct=fct)

    def raises(self, cx, st):
        return [(InputErr(), z3.Not(z3.And(0 < z(st["fct"]), z(st["fct"]) < 1)))]

    def post(self, cx, st, out):
        return [("factor stored", z(st["self"].f["_adaptive_std_factor"]) == z(st["fct"]))]


class UpdateStd(Spec):
    """every L-th call, per block: std*(1-f) if mean acceptance < lo, std*(1+f) if > hi, unchanged inside
    the band; between multiples of L nothing changes; std stays positive."""
    target = GIBBS + "._update_std"

    def configs(self):
        return [dict(rank=0), dict(rank=1), dict(rank=2)]

    sampler_class = "leaspy.samplers.gibbs:IndividualGibbsSampler"

    def setup(self, cx, cfg):
        IndividualGibbsSampler = resolve(self.sampler_class)        # the class whose (possibly overridden) method is verified
        r = cfg["rank"]
        dims = tuple(z3.Int(f"n{k}") for k in range(r))
        L = cx.int("L")
        std = STensor.sym(cx, "std", dims)
        hist = STensor.sym(cx, "hist", (z(L),) + dims)
        c, lo, hi, fct = cx.int("counter"), cx.real("lo"), cx.real("hi"), cx.real("factor")
        self_ = SymObj(IndividualGibbsSampler, dict(
            std=std, acceptation_history=hist, acceptation_history_length=L, _counter=c,
            _mean_acceptation_lower_bound_before_adaptation=lo,
            _mean_acceptation_upper_bound_before_adaptation=hi, _adaptive_std_factor=fct))
        return dict(args=(self_,), self=self_, std=std, hist=hist, L=L, c=c, lo=lo, hi=hi, fct=fct, dims=dims)

    def pre(self, cx, st):
        lo, hi, fct = z(st["lo"]), z(st["hi"]), z(st["fct"])
        idx = st["std"].fresh_idx(cx, "b")
        pos = st["std"].fn(idx) > 0
        return [("L >= 1 (window length; no constructor checks it)", z(st["L"]) >= 1),
                ("counter >= 0", z(st["c"]) >= 0),
                ("0 < lo < hi < 1 (from _set_acceptation_bounds)", z3.And(0 < lo, lo < hi, hi < 1)),
                ("0 < f < 1 (from _set_adaptive_std_factor)", z3.And(0 < fct, fct < 1)),
                ("std > 0", z3.ForAll(list(idx), pos) if idx else pos)] + \
               [(f"dim {d} >= 0", d >= 0) for d in st["dims"]]

    def snap(self, cx, st):
        st["std_old"] = STensor(st["std"].shape_, st["std"].fn, "real")

    def post(self, cx, st, out):
        f = st["self"].f
        std_new, std_old, hist = f["std"], st["std_old"], st["hist"]
        L, c = z(st["L"]), z(st["c"])
        lo, hi, fct = z(st["lo"]), z(st["hi"]), z(st["fct"])
        idx = std_old.fresh_idx(cx, "b")
        j = z3.Int("j")
        mean_acc = sigma_term(cx, lambda j: hist.fn((j,) + idx), L) / z3.ToReal(L)
        new, old = std_new.fn(idx), std_old.fn(idx)
        adapt = (c + 1) % L == 0
        q = (lambda b: z3.ForAll(list(idx), b)) if idx else (lambda b: b)
        return [("same tensor object adapted in place", z3.BoolVal(std_new is st["std"])),
                ("counter incremented by one", z(f["_counter"]) == c + 1),
                ("unchanged between multiples of L", z3.Implies(z3.Not(adapt), q(new == old))),
                ("too low -> *(1-f)", z3.Implies(adapt, q(z3.Implies(mean_acc < lo, new == old * (1 - fct))))),
                ("too high -> *(1+f)", z3.Implies(adapt, q(z3.Implies(mean_acc > hi, new == old * (1 + fct))))),
                ("inside the band unchanged", z3.Implies(adapt, q(z3.Implies(z3.And(mean_acc >= lo, mean_acc <= hi), new == old)))),
                ("std stays positive", q(new > 0))]


class UpdateAcceptationRate(Spec):
    """rolling window: drop the oldest decision, append the newest; length preserved."""
    target = BASE + "._update_acceptation_rate"

    def configs(self):
        return [dict(rank=0), dict(rank=1), dict(rank=2)]

    def setup(self, cx, cfg):
        from leaspy.samplers.gibbs import IndividualGibbsSampler
        r = cfg["rank"]
        dims = tuple(z3.Int(f"n{k}") for k in range(r))
        L = cx.int("L")
        hist = STensor.sym(cx, "hist", (z(L),) + dims)
        acc = STensor.sym(cx, "accepted", dims)
        self_ = SymObj(IndividualGibbsSampler, dict(acceptation_history=hist, acceptation_history_length=L))
        return dict(args=(self_, acc), self=self_, hist=hist, acc=acc, L=L, dims=dims)

    def pre(self, cx, st):
        return [("L >= 1", z(st["L"]) >= 1)] + [(f"dim {d} >= 0", d >= 0) for d in st["dims"]]

    def post(self, cx, st, out):
        new = st["self"].f["acceptation_history"]
        hist, acc, L = st["hist"], st["acc"], z(st["L"])
        idx = acc.fresh_idx(cx, "b")
        j = z3.Int("j")
        ok_shape = len(new.shape_) == len(hist.shape_)
        res = [("rank preserved", z3.BoolVal(ok_shape))]
        if ok_shape:
            res.append(("window length preserved", dimz(new.shape_[0]) == L))
            res.append(("content shifted by one, newest last", z3.ForAll(
                [j] + list(idx), z3.Implies(z3.And(0 <= j, j < L),
                                            new.fn((j,) + idx) == z3.If(j < L - 1, hist.fn((j + 1,) + idx), acc.fn(idx))))))
        return res


def dimz(d):
    return z3.IntVal(d) if isinstance(d, int) else d


class SamplerConstructors(Spec):
    """the constructors of the individual and of the three population Gibbs samplers: the configured acceptance band and adaptation
    factor are the ones the sampler adapts with (whatever the sampler kind), the window length is the configured one, the
    adaptation counter starts at 0 and every proposal scale starts at the same positive multiple of the configured scale."""
    target = "leaspy.samplers.gibbs:IndividualGibbsSampler.__init__"

    kind = "individual"

    def setup(self, cx, cfg):
        cls = resolve(self.target.rsplit(".", 1)[0])
        lo, hi, fct, scale = cx.real("lo"), cx.real("hi"), cx.real("factor"), cx.real("scale")
        L = cx.int("L")
        self_ = SymObj(cls)
        kw = dict(scale=scale, mean_acceptation_rate_target_bounds=(lo, hi), adaptive_std_factor=fct, acceptation_history_length=L)
        if self.kind == "individual":
            kw["n_patients"] = 4
            shape = (2,)
        else:
            shape = (3,)
        return dict(args=(self_, "VARNAME", shape), kwargs=kw, self=self_, lo=lo, hi=hi, fct=fct, scale=scale, L=L)

    def pre(self, cx, st):
        lo, hi, f, sc, L = (z(st[k]) for k in ("lo", "hi", "fct", "scale", "L"))
        return [("accepted settings", z3.And(0 < lo, lo < hi, hi < 1, 0 < f, f < 1, sc > 0, L >= 1))]

    def post(self, cx, st, out):
        f = st["self"].f
        need = ("_adaptive_std_factor", "_mean_acceptation_lower_bound_before_adaptation", "_mean_acceptation_upper_bound_before_adaptation", "_counter", "std",
                "acceptation_history_length")
        ok = all(k in f for k in need) and isinstance(f.get("std"), STensor)
        res = [("the sampler holds its adaptation settings", z3.BoolVal(bool(ok)))]
        if not ok:
            return res
        std = f["std"]
        idx = std.fresh_idx(cx, "s")
        first = std.fn(tuple(z3.IntVal(0) for _ in idx))
        res += [("the configured adaptation factor is the one in force", z(f["_adaptive_std_factor"]) == z(st["fct"])),
                ("the configured acceptance band is the one in force", z3.And(z(f["_mean_acceptation_lower_bound_before_adaptation"]) == z(st["lo"]),
                                                                             z(f["_mean_acceptation_upper_bound_before_adaptation"]) == z(st["hi"]))),
                ("the configured window length is the one in force", z(f["acceptation_history_length"]) == z(st["L"])),
                ("the adaptation counter starts at 0", z(f["_counter"]) == 0),
                ("every proposal scale starts at the same positive value", z3.And(first > 0, z3.ForAll(list(idx), z3.Implies(std.in_range(idx), std.fn(idx) == first)) if idx else z3.BoolVal(True)))]
        return res



def _update_std_units():
    """the adaptation rule as each concrete sampler class runs it (an override in a sub-class is what gets verified)"""
    out = [UpdateStd()]          # the mixin's own function
    for cls, ranks in (("IndividualGibbsSampler", (1,)), ("PopulationGibbsSampler", (0, 1, 2)), ("PopulationFastGibbsSampler", (0, 1)),
                       ("PopulationMetropolisHastingsSampler", (0,))):
        sub = type("UpdateStd_" + cls, (UpdateStd,), dict(target=f"leaspy.samplers.gibbs:{cls}._update_std", sampler_class=f"leaspy.samplers.gibbs:{cls}",
                                                          configs=(lambda self, ranks=ranks: [dict(rank=r_) for r_ in ranks]), __doc__=UpdateStd.__doc__))
        out.append(sub())
    return out


def _constructor_units():
    out = [SamplerConstructors()]
    for kind, cls in (("pop-gibbs", "PopulationGibbsSampler"), ("pop-fast", "PopulationFastGibbsSampler"), ("pop-mh", "PopulationMetropolisHastingsSampler")):
        sub = type("SamplerConstructors_" + cls, (SamplerConstructors,), dict(target=f"leaspy.samplers.gibbs:{cls}.__init__", kind=kind,
                                                                               __doc__=SamplerConstructors.__doc__))
        out.append(sub())
    return out


UNITS = _constructor_units() + [AnnealingInit(), InitializeAnnealing(), UpdateTemperature(), SetAcceptationBounds(),
         SetAdaptiveStdFactor()] + _update_std_units() + [UpdateAcceptationRate()]
CALLEES = []

NOT_DECIDED = ["overflow/underflow of std after ~930 consecutive one-sided adaptations (arithmetic treated as mathematical)",
               "the oscillating annealing branch (outside 'the default scheme')"]
