"""C04 -- the maximisation step is the closed-form maximiser of the sufficient statistics.

For every ModelParameter of the real variable graph of each shipped (non-mixture) model kind, the real
`ModelParameter.compute_update` -- with the sufficient statistics produced by the real `Collect` of that parameter on
symbolic latent values -- is compared with the documented closed form (prior means = (averaged) latent values,
prior standard deviations = their dispersion around the PRE-step mean, noise = root-mean-square residual over the
observed entries, globally or per feature).  `update_parameters` is proved to compute every update from the
pre-step state before assigning any (batched)."""
import z3

from pyvc.api import *
from pyvc.core import Symbolic, OutOfSubset
from pyvc.tensor import STensor, sigma_term, F_SQRT, dim_z3
from contracts import dagsym as D

n = D.n
# the six standard graphs and the joint (longitudinal + event) graph; the mixture model has its own rules (units below)
KINDS4 = dict(D.KINDS, joint=D.EXTRA_KINDS["joint"])


def model_parameters():
    from leaspy.variables.specs import ModelParameter
    out = []
    for label, (kind, kw) in KINDS4.items():
        m, specs = D.model_specs(kind, **kw)
        for name in specs:
            if isinstance(specs[name], ModelParameter):
                out.append((label, name))
    return out


def ConvErr():
    from leaspy.exceptions import LeaspyConvergenceError
    return LeaspyConvergenceError


class UpdateRule(Spec):
    """ModelParameter.compute_update for every model parameter of every shipped model kind, in and after the
    memory-less phase: the result equals the documented closed form of the sufficient statistics and of the
    parameter values held before the step."""
    target = "leaspy.variables.specs:ModelParameter.compute_update"
    max_paths = 600
    ob_meta = {"purify_first": True}     # code and closed form meet in one normal form: congruence suffices

    def configs(self):
        # noise_std after the memory-less phase: the rule is the same function of the statistics; its closed form in terms
        # of y and the model is decided in the burn-in configuration, where the statistics are those of the current state
        return [dict(kind=k_, param=p_, burn_in=b) for k_, p_ in model_parameters() for b in (True, False)
                if not (p_ == "noise_std" and not b)]

    def cfg_label(self, cfg):
        return f"{cfg['kind']}:{cfg['param']}:{'burn-in' if cfg['burn_in'] else 'memory'}"

    def setup(self, cx, cfg):
        cx.assume(z3.And(n >= 2, D.v >= 1))
        m, specs, vals, F, K = D.layouts(cx, cfg["kind"])
        mp = specs[cfg["param"]]
        if cfg["param"] == "noise_std":
            # the rule depends on the trajectory only through its value: an arbitrary tensor with the layout of `model`
            vals["model"] = D.fresh_like(cx, D.evaluate(cx, specs, vals, "model"), "model")
        for name in mp.suff_stats.variables:
            D.evaluate(cx, specs, vals, name)
        suff = cx.it.call(mp.suff_stats, (vals,), {})          # the real Collect on the symbolic state
        if not cfg["burn_in"]:
            # after the memory-less phase the statistics are convex combinations: arbitrary values of the same layout
            suff = {k_: D.fresh_like(cx, v_, "S_" + k_) for k_, v_ in suff.items()}
        if cfg["param"] == "noise_std":
            for name in ("y_L2", "n_obs", "y_L2_per_ft", "n_obs_per_ft"):
                if name in specs:
                    D.evaluate(cx, specs, vals, name)
        return dict(args=(mp,), kwargs=dict(state=vals, suff_stats=suff, burn_in=cfg["burn_in"]), mp=mp, vals=vals,
                    suff=suff, specs=specs, F=F)

    def pre(self, cx, st):
        p = []
        if st["cfg"]["param"] == "noise_std" and st["cfg"]["burn_in"]:
            # a root-mean-square over observed entries needs at least one observed entry (per feature)
            yw = D.weight_of(st["vals"]["y"])
            for q in range(st["F"]):
                cnt = sigma_term(cx, lambda i: sigma_term(cx, lambda j: z3.If(yw.fn((i, j, z3.IntVal(q))), z3.RealVal(1), z3.RealVal(0)), D.v), n)
                p.append((f"feature {q} is observed at least once", cnt > 0))
        for name, val in list(st["suff"].items()) + [(k_, st["vals"][k_]) for k_ in ("y", "t") if k_ in st["vals"]]:
            w = D.weight_of(val)
            if w is not None and w.dtype != "bool":
                idx = w.fresh_idx(cx, "w")
                p.append((f"weights of {name} are 0/1", z3.ForAll(list(idx), z3.Or(w.fn(idx) == 0, w.fn(idx) == 1))))
        return p

    may_raise = ()

    def closed_form(self, cx, st, idx):
        """(expected value at entry idx, variance-like term whose smallness must be refused or None)"""
        cfg, vals, suff = st["cfg"], st["vals"], st["suff"]
        name = cfg["param"]
        z0 = z3.IntVal(0)
        if name == "noise_std":
            y, yw = D.tensor_of(vals["y"]), D.weight_of(vals["y"])
            mdl = D.tensor_of(suff["model_x_model"])        # only used to know the layout; the spec is written on y and model:
            # the statistics were produced by the real Collect from y and model (burn-in configuration only)
            model = D.tensor_of(vals["model"])
            F = st["F"]
            per_ft = "y_L2_per_ft" in st["specs"]

            def rss(kfix):
                def inner(i, j, k_):
                    w = z3.If(yw.fn((i, j, k_)), z3.RealVal(1), z3.RealVal(0))
                    dlt = y.fn((i, j, k_)) - model.fn((i, j, k_))
                    return w * dlt * dlt, w
                feats = [kfix] if kfix is not None else [z3.IntVal(q) for q in range(F)]
                num = sum((sigma_term(cx, lambda i: sigma_term(cx, lambda j: inner(i, j, kq)[0], D.v), n) for kq in feats), z3.RealVal(0))
                den = sum((sigma_term(cx, lambda i: sigma_term(cx, lambda j: inner(i, j, kq)[1], D.v), n) for kq in feats), z3.RealVal(0))
                return num / den
            var = rss(idx[0]) if per_ft else rss(None)
            return F_SQRT(var), var
        base = name[:-5] if name.endswith("_mean") else name[:-4]
        x = D.tensor_of(suff[base])
        if name.endswith("_mean"):
            if D.has_ind_axis(x):
                # mean over the individuals, per coordinate
                return sigma_term(cx, lambda i: x.fn((i,) + tuple(idx)), n) / z3.ToReal(n), None
            return x.fn(tuple(idx)), None
        # *_std of an individual latent variable
        mean_x = sigma_term(cx, lambda i: x.fn((i,) + tuple(idx)), n) / z3.ToReal(n)
        if cfg["burn_in"]:
            var = sigma_term(cx, lambda i: (x.fn((i,) + tuple(idx)) - mean_x) * (x.fn((i,) + tuple(idx)) - mean_x), n) / (z3.ToReal(n) - 1)
            return F_SQRT(var), None
        x2 = D.tensor_of(suff[base + "_sqr"])
        mu_old = D.tensor_of(vals[base + "_mean"])
        mean_x2 = sigma_term(cx, lambda i: x2.fn((i,) + tuple(idx)), n) / z3.ToReal(n)
        mo = mu_old.fn(tuple(idx)) if mu_old.ndim else mu_old.fn(())
        var = mean_x2 - 2 * mo * mean_x + mo * mo
        return F_SQRT(var), var

    def raises(self, cx, st):
        cfg = st["cfg"]
        name = cfg["param"]
        if name == "noise_std" and not cfg["burn_in"]:
            return []     # decided in the burn-in configuration (statistics produced from y and model)
        if name == "noise_std" or (name.endswith("_std") and not cfg["burn_in"]):
            per_entry = "y_L2_per_ft" in st["specs"] or name != "noise_std"
            q = z3.Int("q_r")
            tol = z3.RealVal("1/100000")
            if per_entry and name == "noise_std":
                var = self.closed_form(cx, st, (q,))[1]
                return [(ConvErr(), z3.Exists([q], z3.And(0 <= q, q < st["F"], var < tol)))]
            if name == "noise_std":
                return [(ConvErr(), self.closed_form(cx, st, ())[1] < tol)]
            x_lat = D.tensor_of(st["suff"][name[:-4]])
            idx = tuple(z3.IntVal(0) for _ in x_lat.shape_[1:])
            # tau_std / xi_std are vectors of length 1 (sources_std is a hyper-parameter)
            return [(ConvErr(), self.closed_form(cx, st, idx)[1] < tol)]
        return []

    def post(self, cx, st, out):
        cfg = st["cfg"]
        r = D.tensor_of(out.value)
        ok = isinstance(r, STensor)
        res = [("a tensor", z3.BoolVal(ok))]
        if not ok:
            return res
        if cfg["param"] == "noise_std" and not cfg["burn_in"]:
            return res + [("(closed form decided in the burn-in configuration, where the statistics come from y and model)", z3.BoolVal(True))]
        idx = r.fresh_idx(cx, "e")
        want, _ = self.closed_form(cx, st, idx)
        body = z3.Implies(r.in_range(idx), r.fn(idx) == want)
        res.append(("documented closed form of the sufficient statistics and the pre-step parameters",
                    z3.ForAll(list(idx), body) if idx else body))
        return res


# ------------------------------------------------------------------------------------------------
class Probe(Spec):
    def __init__(self, target, label):
        self.target, self.label = target, label

    def bind(self, it, args, kwargs):
        return dict(args=args, kwargs=kwargs)

    def result(self, cx, st):
        mp = st["args"][0]
        cx.ghost.setdefault("events", []).append(("compute_update", mp, st["kwargs"]))
        return STensor.sym(cx, cx.fresh_name("upd"), ())


class RecState(Symbolic):
    """the algorithm's State, used through __getitem__/__setitem__; reads and writes are logged in order"""

    def __init__(self, cx, dag, vals):
        self.cx, self.dag_, self.vals = cx, dag, vals

    def _getattr(self, it, name, node=None):
        if name == "dag":
            return self.dag_
        raise OutOfSubset(f"State.{name}")

    def _getitem(self, it, k, node=None):
        self.cx.ghost.setdefault("events", []).append(("read", k))
        return self.vals[k]

    def _setitem(self, it, k, v, node=None):
        self.cx.ghost.setdefault("events", []).append(("write", k, v))
        self.vals[k] = v


class UpdateParameters(Spec):
    """update_parameters: every parameter's update is computed (from the pre-step state, with the statistics in force
    and the burn-in flag) before any parameter is assigned; each parameter is assigned exactly its own update."""
    target = "leaspy.models.mcmc_saem_compatible:McmcSaemCompatibleModel.update_parameters"

    def configs(self):
        return [dict(kind=k_, burn_in=b) for k_ in KINDS4 for b in (True, False)]

    def setup(self, cx, cfg):
        from leaspy.variables.specs import ModelParameter
        kind, kw = KINDS4[cfg["kind"]]
        m, specs = D.model_specs(kind, **kw)
        mps = {k_: specs[k_] for k_ in specs if isinstance(specs[k_], ModelParameter)}
        dag = SymObj(object, dict(sorted_variables_by_type={ModelParameter: mps}))
        state = RecState(cx, dag, {})
        suff = {"dummy": 0}
        return dict(args=(type(m), state, suff), kwargs=dict(burn_in=cfg["burn_in"]), mps=mps, state=state, suff=suff)

    def post(self, cx, st, out):
        ev = cx.ghost.get("events", [])
        kinds = [e[0] for e in ev]
        names = list(st["mps"])
        n_mp = len(names)
        res = [("all updates are computed before the first assignment (batched from the pre-step state)",
                z3.BoolVal(kinds == ["compute_update"] * n_mp + ["write"] * n_mp))]
        cu = [e for e in ev if e[0] == "compute_update"]
        wr = [e for e in ev if e[0] == "write"]
        res.append(("every parameter gets an update computed by its own rule", z3.BoolVal(
            sorted(id(e[1]) for e in cu) == sorted(id(v_) for v_ in st["mps"].values()))))
        res.append(("statistics in force, state and burn-in flag passed to every rule", z3.BoolVal(all(
            e[2].get("suff_stats") is st["suff"] and e[2].get("state") is st["state"] and e[2].get("burn_in") is st["cfg"]["burn_in"]
            for e in cu))))
        res.append(("every parameter assigned once", z3.BoolVal(sorted(e[1] for e in wr) == sorted(names))))
        return res


class ComputeUpdateSelection(Spec):
    """compute_update selects the burn-in rule iff burn_in and one exists, passes exactly the statistics named by the
    selected rule, and passes `state` iff the rule asks for it."""
    target = "leaspy.variables.specs:ModelParameter.compute_update"

    def configs(self):
        return [dict(burn_in=b, has_bi=h, wants_state=s) for b in (True, False) for h in (True, False) for s in (True, False)]

    def setup(self, cx, cfg):
        from leaspy.variables.specs import ModelParameter, Collect
        calls = []
        cx.ghost["calls"] = calls

        def rule(*, a, b=None, state=None):
            calls.append(("normal", a, b, state))
            return a

        def rule_state(*, state, a):
            calls.append(("normal", a, None, state))
            return a

        def rule_bi(*, a):
            calls.append(("burn_in", a, None, None))
            return a
        normal = rule_state if cfg["wants_state"] else (lambda *, a: (calls.append(("normal", a, None, None)), a)[1])
        mp = ModelParameter(shape=(1,), suff_stats=Collect("a", "b"), update_rule=normal,
                            update_rule_burn_in=rule_bi if cfg["has_bi"] else None)
        a, b = STensor.sym(cx, "a", (1,)), STensor.sym(cx, "b", (1,))
        state = {"marker": 1}
        return dict(args=(mp,), kwargs=dict(state=state, suff_stats={"a": a, "b": b}, burn_in=cfg["burn_in"]), a=a, state=state)

    def post(self, cx, st, out):
        cfg, calls = st["cfg"], cx.ghost["calls"]
        use_bi = cfg["burn_in"] and cfg["has_bi"]
        res = [("exactly one rule is called", z3.BoolVal(len(calls) == 1))]
        if len(calls) == 1:
            which, a, b, state = calls[0]
            res.append(("burn-in rule iff burn_in and it exists", z3.BoolVal((which == "burn_in") == use_bi)))
            res.append(("the named statistic is passed", z3.BoolVal(a is st["a"])))
            res.append(("state passed iff the rule asks for it", z3.BoolVal((state is st["state"]) == (cfg["wants_state"] and not use_bi))))
        return res


# ------------------------------------------------------------------------------------------------------------------
# mixture model: the four update rules of leaspy.models.utilities, any number of individuals, 2 clusters
K_CLUSTERS = 2


def _mixture_state(cx, ip_name, n_src=2):
    from leaspy.utils.weighted_tensor import WeightedTensor
    shape = (n, n_src) if ip_name == "sources" else (n, 1)
    mean_shape = (n_src, K_CLUSTERS) if ip_name == "sources" else (K_CLUSTERS,)
    state = {ip_name: STensor.sym(cx, ip_name, shape),
             f"{ip_name}_mean": STensor.sym(cx, ip_name + "_mean", mean_shape),
             "probs": STensor.sym(cx, "probs", (K_CLUSTERS,)),
             "nll_regul_ind_sum_ind": SymObj(WeightedTensor, dict(value=STensor.sym(cx, "nll_regul_ind_sum_ind", (n, K_CLUSTERS)), weight=None))}
    return state


def responsibilities(cx, state):
    """r_ik = softmax_k(max(-nll_regul_ind_sum_ind[i, k], -100)): the documented cluster responsibilities of individual i"""
    from pyvc.tensor import softmax_along
    nll = state["nll_regul_ind_sum_ind"].f["value"]
    neg = STensor(nll.shape_, lambda idx: z3.If(-nll.fn(idx) < -100, z3.RealVal(-100), -nll.fn(idx)), "real")
    return softmax_along(cx.it, neg, 1)


class MixtureMeanRule(Spec):
    """compute_ind_param_mean_from_suff_stats_mixture: per cluster k (and source s) the responsibility-weighted mean of the
    individuals' current latent values: m_k * sum_i r_ik = sum_i r_ik z_i, with the responsibilities of the CURRENT state."""
    target = "leaspy.models.utilities:compute_ind_param_mean_from_suff_stats_mixture"
    ob_meta = {"purify_first": True}

    def configs(self):
        return [dict(ip=x) for x in ("tau", "xi", "sources")]

    def setup(self, cx, cfg):
        cx.assume(n >= 1)
        state = _mixture_state(cx, cfg["ip"])
        return dict(args=(state,), kwargs=dict(ip_name=cfg["ip"]), state=state)

    def post(self, cx, st, out):
        r_, ip = out.value, st["cfg"]["ip"]
        state = st["state"]
        want_nd = 2 if ip == "sources" else 1
        ok = isinstance(r_, STensor) and r_.ndim == want_nd
        res = [("one mean per cluster (and per source)", z3.BoolVal(bool(ok)))]
        if not ok:
            return res
        resp, z = responsibilities(cx, state), state[ip]
        cl = []
        for k in range(K_CLUSTERS):
            size = sigma_term(cx, lambda i: resp.fn((i, z3.IntVal(k))), n)
            for s_ in range(z.shape_[1] if ip == "sources" else 1):
                got = r_.fn((z3.IntVal(s_), z3.IntVal(k))) if ip == "sources" else r_.fn((z3.IntVal(k),))
                tot = sigma_term(cx, lambda i: resp.fn((i, z3.IntVal(k))) * z.fn((i, z3.IntVal(s_))), n)
                cl.append(got == tot / size)
        res.append(("cluster mean = sum_i r_ik z_i / sum_i r_ik (responsibilities of the current state)", z3.And(*cl)))
        return res


class MixtureProbs(Spec):
    """compute_probs_from_state: probability of cluster k = mean over the individuals of the responsibilities r_ik; they sum to one."""
    target = "leaspy.models.utilities:compute_probs_from_state"
    ob_meta = {"purify_first": True}

    def setup(self, cx, cfg):
        cx.assume(n >= 1)
        state = _mixture_state(cx, "tau")
        return dict(args=(state,), state=state)

    def post(self, cx, st, out):
        r_ = out.value
        ok = isinstance(r_, STensor) and r_.ndim == 1
        res = [("one probability per cluster", z3.BoolVal(bool(ok)))]
        if not ok:
            return res
        resp = responsibilities(cx, st["state"])
        res.append(("probability of cluster k = (sum_i r_ik) / n", z3.And(*[
            r_.fn((z3.IntVal(k),)) == sigma_term(cx, lambda i: resp.fn((i, z3.IntVal(k))), n) / z3.ToReal(n) for k in range(K_CLUSTERS)])))
        return res


class MixtureStdBurnIn(Spec):
    """compute_ind_param_std_from_suff_stats_mixture_burn_in: per cluster, the responsibility-weighted mean of the empirical
    standard deviation of the current latent values (which does not depend on the individual: it is that standard deviation)."""
    target = "leaspy.models.utilities:compute_ind_param_std_from_suff_stats_mixture_burn_in"
    ob_meta = {"purify_first": True}

    def configs(self):
        return [dict(ip=x) for x in ("tau", "xi")]

    def setup(self, cx, cfg):
        cx.assume(n >= 2)
        state = _mixture_state(cx, cfg["ip"])
        return dict(args=(state,), kwargs=dict(ip_name=cfg["ip"]), state=state)

    def post(self, cx, st, out):
        r_, ip = out.value, st["cfg"]["ip"]
        ok = isinstance(r_, STensor) and r_.ndim == 1
        res = [("one value per cluster", z3.BoolVal(bool(ok)))]
        if not ok:
            return res
        state = st["state"]
        resp, z = responsibilities(cx, state), state[ip]
        zero = z3.IntVal(0)
        mean = sigma_term(cx, lambda i: z.fn((i, zero)), n) / z3.ToReal(n)
        var = sigma_term(cx, lambda i: (z.fn((i, zero)) - mean) * (z.fn((i, zero)) - mean), n) / (z3.ToReal(n) - 1)
        sd = F_SQRT(var)
        res.append(("per cluster: sum_i r_ik sd / sum_i r_ik, sd the empirical standard deviation of the latent values", z3.And(*[
            r_.fn((z3.IntVal(k),)) == sigma_term(cx, lambda i: resp.fn((i, z3.IntVal(k))) * sd, n) / sigma_term(cx, lambda i: resp.fn((i, z3.IntVal(k))), n)
            for k in range(K_CLUSTERS)])))
        return res


class MixtureStdRule(Spec):
    """compute_ind_param_std_from_suff_stats_mixture (after the memory-less phase): per cluster k the dispersion of the latent
    values around the PRE-step cluster mean m_k, sd_k = sqrt(mean(z^2) - 2 m_k mean(z) + m_k^2), responsibility-averaged
    (sum_i r_ik sd_k / sum_i r_ik)."""
    target = "leaspy.models.utilities:compute_ind_param_std_from_suff_stats_mixture"
    ob_meta = {"purify_first": True}

    def configs(self):
        return [dict(ip=x) for x in ("tau", "xi")]

    def setup(self, cx, cfg):
        cx.assume(n >= 1)
        state = _mixture_state(cx, cfg["ip"])
        S1, S2 = STensor.sym(cx, "S_values", (n, 1)), STensor.sym(cx, "S_sqr_values", (n, 1))
        return dict(args=(state, S1, S2), kwargs=dict(ip_name=cfg["ip"], dim=0), state=state, S1=S1, S2=S2)

    def post(self, cx, st, out):
        r_, ip = out.value, st["cfg"]["ip"]
        ok = isinstance(r_, STensor) and r_.ndim == 1
        res = [("one value per cluster", z3.BoolVal(bool(ok)))]
        if not ok:
            return res
        state = st["state"]
        resp = responsibilities(cx, state)
        zero = z3.IntVal(0)
        m1 = sigma_term(cx, lambda i: st["S1"].fn((i, zero)), n) / z3.ToReal(n)
        m2 = sigma_term(cx, lambda i: st["S2"].fn((i, zero)), n) / z3.ToReal(n)
        cl = []
        for k in range(K_CLUSTERS):
            mo = state[ip + "_mean"].fn((z3.IntVal(k),))
            sd = F_SQRT(m2 - 2 * mo * m1 + mo * mo)
            cl.append(r_.fn((z3.IntVal(k),)) == sigma_term(cx, lambda i: resp.fn((i, z3.IntVal(k))) * sd, n) / sigma_term(cx, lambda i: resp.fn((i, z3.IntVal(k))), n))
        res.append(("per cluster: responsibility-average of sqrt(mean(z^2) - 2 m_k mean(z) + m_k^2), m_k the pre-step mean", z3.And(*cl)))
        return res


UNITS = [UpdateRule(), UpdateParameters(), ComputeUpdateSelection(), MixtureMeanRule(), MixtureProbs(), MixtureStdBurnIn(), MixtureStdRule()]
CALLEES = [Probe("leaspy.variables.specs:ModelParameter.compute_update", "compute_update")]
ASSUMPTIONS = ["square root uninterpreted (congruence only: code and specification apply it to equal radicands)",
               "real arithmetic", "mixture model: softmax as exp(x_k) / sum_k' exp(x_k') with exp uninterpreted (2 clusters); the rules are verified on the "
               "functions of leaspy.models.utilities, not through the mixture model's variable graph"]
NOT_DECIDED = ["mixture model: the wiring of the four rules into the mixture graph (which rule, which statistic), and 'the probabilities sum to one' "
               "(additivity of two atomic sums whose bodies add up to 1 is not available to the solver): bounded stand-in (monitored mixture fit) only"]
