"""C07 -- individuals are conditionally independent and order-equivariant.

Every LinkedVariable of the real variable graph of each shipped model kind (read from the real
get_variables_specs() at check time) is verified against its own direct parents:
  * row-locality (non-interference over the individual index): two symbolic runs of the real `compute` whose
    individual-axis parents agree at row i0 (and whose population parents are identical) agree at row i0;
  * totals: a variable defined as SumDim of an `_ind` variable is the sum of its rows.
Row-locality composes along the graph (lemma), which is the hypothesis used by C01/C02's partial revert.
A linked variable that the verifier cannot execute is reported (out-of-subset), never skipped."""
import z3

from pyvc.api import *
from pyvc.tensor import STensor, sigma_term, dim_z3
from contracts import dagsym as D
from contracts.samplers import IndividualSample, ShuffledIndices
from contracts import state_theory as T

i0 = z3.Int("i0")


def rows_agree(cx, a, b, tag):
    """formula: tensors / weighted tensors a, b agree (values and weights) at individual i0"""
    out = []
    for x, y in ((D.tensor_of(a), D.tensor_of(b)), (D.weight_of(a), D.weight_of(b))):
        if x is None or y is None:
            if (x is None) != (y is None):
                return z3.BoolVal(False)
            continue
        rest = tuple(z3.Int(f"{tag}_r{j}") for j in range(x.ndim - 1))
        idx = (i0,) + rest
        body = x.fn(idx) == y.fn(idx)
        out.append(z3.ForAll(list(rest), body) if rest else body)
    return z3.And(*out) if out else z3.BoolVal(True)


# prediction-only variable of the joint model: normalised by the survival at the smallest requested age of the whole batch
# (`x.value.min()`); `estimate` evaluates it for one individual at a time.  Not a term of the likelihood, not claimed row-local.
NOT_ROW_LOCAL = {("joint", "predictions_event")}


def linked_variables():
    from leaspy.variables.specs import LinkedVariable
    out = []
    for label, (kind, kw) in D.ALL_KINDS.items():
        m, specs = D.model_specs(kind, **kw)
        for name in specs:
            if isinstance(specs[name], LinkedVariable) and (label, name) not in NOT_ROW_LOCAL:
                out.append((label, name))
    return out


class LinkedRowLocality(Spec):
    """LinkedVariable.compute of every derived variable of every shipped model graph: the value at individual i0
    depends on the individual-axis parents only through their row i0 (and on the population parents)."""
    target = "leaspy.variables.specs:LinkedVariable.compute"
    ob_meta = {"sigma_ext": True}
    max_paths = 400

    @property
    def may_raise(self):
        # a definition may refuse inadmissible parent values (e.g. a non-positive metric): irrelevant to row-locality
        from leaspy.exceptions import LeaspyModelInputError
        return (LeaspyModelInputError, NotImplementedError)

    def configs(self):
        return [dict(kind=k_, var=v_) for k_, v_ in linked_variables()]

    def cfg_label(self, cfg):
        return f"{cfg['kind']}:{cfg['var']}"

    def setup(self, cx, cfg):
        cx.assume(z3.And(D.n >= 1, D.v >= 1, 0 <= i0, i0 < D.n))
        kind, kw = D.ALL_KINDS[cfg["kind"]]
        var = D.model_specs(kind, **kw)[1][cfg["var"]]
        parents = sorted(var.get_ancestors_names())
        m, specs, lay, F, K = D.parent_layouts(cx, cfg["kind"], parents)
        s1 = {p: D.fresh_like(cx, lay[p], p + "#1") for p in parents}
        s2 = {p: (D.fresh_like(cx, lay[p], p + "#2") if D.has_ind_axis(lay[p]) else s1[p]) for p in parents}
        return dict(args=(var, s1), var=var, s1=s1, s2=s2, parents=parents)

    def pre(self, cx, st):
        p = []
        for name in st["parents"]:
            a, b = st["s1"][name], st["s2"][name]
            if a is not b:
                p.append((f"parent {name} agrees at individual i0", rows_agree(cx, a, b, name)))
            for val in (a, b):
                w = D.weight_of(val)
                if w is not None and w.dtype != "bool":
                    idx = w.fresh_idx(cx, "w")
                    p.append((f"weights of {name} non-negative", z3.ForAll(list(idx), w.fn(idx) >= 0)))
        return p

    def post(self, cx, st, out):
        r1 = out.value
        r2 = cx.it.call(st["var"].compute, (st["s2"],), {})
        res = []
        if D.has_ind_axis(r1):
            res.append(("second run has the same layout", z3.BoolVal(D.has_ind_axis(r2) and D.tensor_of(r1).ndim == D.tensor_of(r2).ndim
                                                                     and (D.weight_of(r1) is None) == (D.weight_of(r2) is None))))
            if D.has_ind_axis(r2) and D.tensor_of(r1).ndim == D.tensor_of(r2).ndim:
                res.append(("row i0 of the result depends on row i0 of the individual-axis parents only", rows_agree(cx, r1, r2, "out")))
        else:
            res.append(("population-level variable (no individual axis): nothing to claim per row", z3.BoolVal(True)))
        return res


class Totals(Spec):
    """population totals are the sums of the per-individual terms: nll_attach = sum_i nll_attach_ind[i],
    nll_regul_<x> = sum_i nll_regul_<x>_ind[i], nll_regul_ind_sum = sum_i nll_regul_ind_sum_ind[i], and
    nll_regul_ind_sum_ind is the sum over the individual latent variables of their per-individual regularities."""
    target = "leaspy.variables.specs:LinkedVariable.compute"

    def configs(self):
        out = []
        for label, name in linked_variables():
            kind, kw = D.ALL_KINDS[label]
            specs = D.model_specs(kind, **kw)[1]
            parents = sorted(specs[name].get_ancestors_names())
            if len(parents) == 1 and parents[0] == name + "_ind":
                out.append(dict(kind=label, var=name, what="total"))
            if name == "nll_regul_ind_sum_ind":
                out.append(dict(kind=label, var=name, what="sum_over_variables"))
        return out

    def cfg_label(self, cfg):
        return f"{cfg['kind']}:{cfg['var']}"

    def setup(self, cx, cfg):
        cx.assume(z3.And(D.n >= 1, D.v >= 1))
        kind, kw = D.ALL_KINDS[cfg["kind"]]
        var = D.model_specs(kind, **kw)[1][cfg["var"]]
        parents = sorted(var.get_ancestors_names())
        m, specs, lay, F, K = D.parent_layouts(cx, cfg["kind"], parents)
        s1 = {p: D.fresh_like(cx, lay[p], p + "#1") for p in parents}
        return dict(args=(var, s1), s1=s1, parents=parents, specs=specs)

    def post(self, cx, st, out):
        r = D.tensor_of(out.value)
        cfg = st["cfg"]
        def over_rest(t, i):
            """sum of t[i, ...] over the trailing (cluster) axes, which have concrete sizes"""
            import itertools as _it
            sizes = t.shape_[1:]
            if not all(isinstance(d_, int) for d_ in sizes):
                return None
            return sum((t.fn((i,) + tuple(z3.IntVal(q) for q in rest)) for rest in _it.product(*[range(d_) for d_ in sizes])), z3.RealVal(0))
        if cfg["what"] == "total":
            p = D.tensor_of(st["s1"][st["parents"][0]])
            ok = isinstance(r, STensor) and r.ndim == 0 and p.ndim >= 1 and over_rest(p, z3.IntVal(0)) is not None
            res = [("a scalar total of per-individual terms (one per individual, or one per individual and cluster)", z3.BoolVal(ok))]
            if ok:
                res.append(("total = sum of the per-individual terms", r.fn(()) == sigma_term(cx, lambda i: over_rest(p, i), D.n)))
            return res
        # nll_regul_ind_sum_ind: sum over the individual latent variables
        from leaspy.variables.specs import IndividualLatentVariable
        ind_vars = sorted(nm_ for nm_ in st["specs"] if isinstance(st["specs"][nm_], IndividualLatentVariable))
        want_parents = sorted(f"nll_regul_{nm_}_ind" for nm_ in ind_vars)
        res = [("depends on exactly the per-individual regularities of the individual latent variables",
                z3.BoolVal(st["parents"] == want_parents))]
        ps = [D.tensor_of(st["s1"][p]) for p in st["parents"]]
        ok = isinstance(r, STensor) and r.ndim >= 1 and all(p.ndim == r.ndim for p in ps)
        res.append(("per-individual terms (same layout as every parent: one per individual, or per individual and cluster)", z3.BoolVal(ok)))
        if ok and st["parents"] == want_parents:
            idx = tuple(z3.Int(f"i{q}") for q in range(r.ndim))
            tot = sum((p.fn(idx) for p in ps), z3.RealVal(0))
            res.append(("entry i = sum over the individual latent variables of their regularity for individual i",
                        z3.ForAll(list(idx), z3.Implies(r.in_range(idx), r.fn(idx) == tot))))
        return res


def LEMMAS():
    """row-locality composes: if every linked variable is row-local w.r.t. its direct parents then every derived
    value is row-local w.r.t. the independent variables (the hypothesis `row_locality` of the C01/C02 partial-revert
    lemma), by induction along the topological order -- one step of that induction:"""
    Name = T.Name
    dep = z3.Function("agree_at_i0", Name, z3.BoolSort())      # "the two runs agree at row i0 (or entirely) for this node"
    par = T.par
    x, p = z3.Consts("x p", Name)
    step = z3.ForAll([x], z3.Implies(z3.ForAll([p], z3.Implies(par(p, x), dep(p))), dep(x)))   # what the units prove, per node
    y = z3.Const("y", Name)
    return [("row-locality w.r.t. direct parents lifts one level up the graph",
             [step, z3.ForAll([p], z3.Implies(par(p, y), dep(p)))], dep(y))]


# sampling-based personalisation: each individual's result is a function of its OWN kept draws and losses only (contracts of C17:
# mean of its draws; all variables of its own lowest-loss draw) -- re-checked here, a cohort-wide selection fails them
from contracts.c17 import MeanEstimator, ModeEstimator
UNITS = [LinkedRowLocality(), Totals(), IndividualSample({"C03"}), MeanEstimator(), ModeEstimator()]
# the adaptation of an individual's proposal scale uses that individual's own acceptance history and own scale only (contract of
# C19 on IndividualGibbsSampler._update_std, entry by entry): borrowed, verified in C19's context
from contracts import c19 as _c19
UNITS += [foreign(u_, "c19") for u_ in _c19._update_std_units() if "IndividualGibbsSampler" in u_.target]
# "the number of parallel workers does not change any result": everything random about an individual's optimisation (its starting
# point) is drawn in the sequential preparation loop of the main process, on that individual's own clone, before the parallel
# section (contract of C13 on that loop, verified in C13's context)
from contracts import c13 as _c13
UNITS += [foreign(_c13.ScipyPerIndividualClones(), "c13")]
# ... and the draws handed to those estimators are every recorded draw, individual by individual (hand-off between the sampling
# loop and the estimator, verified in C17's context): a cohort-wide filter of the kept draws fails it
from contracts import c17 as _c17
UNITS += [foreign(_c17.EstimatorHandOff(), "c17")]
CALLEES = [ShuffledIndices()]
engine_setup = T.engine_setup
ASSUMPTIONS = [
    "a torch pointwise kernel returns the same bits for one element whatever the other elements are, and a reduction over the other axes of one row does not depend on the batch size (needed for 'bit-identical' beyond the contract; exercised by the stand-in)",
    "parallel workers (joblib) return results in submission order; scipy_minimize's per-subject task is covered by the stand-in only",
    "mixture model graphs are not in the list of shipped kinds verified here",
]
NOT_DECIDED = ["bit-identity across batch sizes (library kernels)", "number of parallel workers (stand-in: n_jobs in {1,2})"]
