"""C01 -- values read from the lazily cached variable graph are never stale.

Class invariant of `State` (state_theory.inv): independent entries of the cache are the view I,
every non-None derived entry equals Sem(n, I) = "the definition of n evaluated from scratch on I".
Every public method is proved to preserve it for *every* well-formed DAG and every pre-state, so the
property holds after every finite history (induction over the methods; no history is enumerated).
"""
import z3

from pyvc.api import *
from pyvc.tensor import STensor
from contracts.state_theory import *
from contracts import state_theory as T

STATE = "leaspy.variables.state:State"


def InputErr():
    from leaspy.exceptions import LeaspyInputError
    return LeaspyInputError


def name_sv(nm):
    return SV(z3.Const(nm, Name), "u:Name")


def val_sv(nm):
    return SV(z3.Const(nm, Val), "u:Val")


class StateSpec(Spec):
    def background(self, cx):
        return axioms()


# ------------------------------------------------------------------------------------------------
class Clear(StateSpec):
    """clear(): hyper-parameters at their value, everything else unset; no pending fork."""
    target = STATE + ".clear"

    def configs(self):
        return [dict(fork=f, lf=l) for f in ("none", "ref") for l in (False, True)]

    def setup(self, cx, cfg):
        s = make_state(cx, cfg["fork"], cfg["lf"])
        return dict(args=(s,), self=s)

    def post(self, cx, st, out):
        s = st["self"]
        vals = s.f["_values"]
        ok = isinstance(vals, SMap)
        res = [("cache is a dict", z3.BoolVal(ok)), ("no pending fork", z3.BoolVal(s.f["_last_fork"] is None))]
        if ok:
            n = z3.Const("n", Name)
            res.append(("keys = nodes of the dag; hyper-parameters set, the rest None",
                        z3.ForAll([n], z3.And(vals.has(n) == indag(n),
                                              z3.Implies(indag(n), vals.at(n) == z3.If(hyper(n), hval(n), NONE))))))
            res.append(("invariant holds for the initial view", inv(vals, vals.val)))
        return res


# ------------------------------------------------------------------------------------------------
class GetOrCompute(StateSpec):
    """_get_or_compute_and_cache(n): returns Sem(n, I) and caches it; LeaspyInputError iff n is an unset
    independent variable; requires the direct parents of a derived n to be cached."""
    target = STATE + "._get_or_compute_and_cache"

    def configs(self):
        return [dict(force=False), dict(force=True)]

    def setup(self, cx, cfg):
        s = make_state(cx, "none")
        n = name_sv("name")
        I = z3.Const("I", View)
        return dict(args=(s, n), kwargs=dict(force_computation=cfg["force"]), self=s, n=n, I=I,
                    force=cfg["force"])

    def bind(self, it, args, kwargs):
        s = args[0]
        return dict(self=s, n=args[1], I=it.cx.ghost["I"], force=kwargs.get("force_computation", False))

    def pre(self, cx, st):
        vals, n, I = st["self"].f["_values"], st["n"].e, st["I"]
        p = z3.Const("p_pre", Name)
        return [("inv", inv(vals, I)), ("n in dag", indag(n)),
                ("direct parents cached", z3.Implies(z3.Not(indep(n)), z3.ForAll(
                    [p], z3.Implies(par(p, n), vals.at(p) != NONE))))]

    def snap(self, cx, st):
        st["old"] = st["self"].f["_values"].snapshot()

    def raises(self, cx, st):
        old, n = st["old"], st["n"].e
        if st["force"]:
            return [(InputErr(), indep(n))]
        return [(InputErr(), z3.And(indep(n), old.at(n) == NONE))]

    def frame(self, cx, st):
        return [("smap", id(st["self"].f["_values"]), None)]

    def havoc(self, cx, st):
        st["self"].f["_values"].havoc(cx)

    def result(self, cx, st):
        return val_sv(cx.fresh_name("got"))

    def post(self, cx, st, out):
        vals, old, n, I = st["self"].f["_values"], st["old"], st["n"].e, st["I"]
        m = z3.Const("m_post", Name)
        r = out.value.e if isinstance(out.value, SV) else NONE
        return [("returns Sem(n, I), not None", z3.And(r == Sem(n, I), r != NONE)),
                ("caches it and nothing else changes",
                 z3.ForAll([m], z3.And(vals.has(m) == old.has(m),
                                       vals.at(m) == z3.If(m == n, r, old.at(m))))),
                ("inv preserved", inv(vals, I))]


# ------------------------------------------------------------------------------------------------
def getitem_loop_inv(cx, env, k, view):
    s = env["self"]
    vals = s.f["_values"]
    I = cx.ghost["I"]
    j = z3.Int("j_inv")
    old = cx.ghost["cache_at_entry"]
    m = z3.Const("m_inv", Name)
    return [("inv", inv(vals, I)),
            ("ancestors visited so far are cached", z3.ForAll(
                [j], z3.Implies(z3.And(0 <= j, j < k), vals.at(view.elem_z3(j)) != NONE))),
            ("entries present at entry are kept", z3.ForAll([m], z3.Implies(old.at(m) != NONE, vals.at(m) == old.at(m)))),
            ("independent entries untouched", z3.ForAll([m], z3.Implies(indep(m), vals.at(m) == old.at(m))))]


def _snap_cache(cx, env):
    cx.ghost["cache_at_entry"] = env["self"].f["_values"].snapshot()


class GetItem(StateSpec):
    """state[n]: returns Sem(n, I) (never a stale or default value); LeaspyInputError iff n is unknown or
    needs an unset independent value (Sem(n, I) undefined); the view I is not changed by a read."""
    target = STATE + ".__getitem__"
    loops = {("State.__getitem__", 0): LoopSpec(getitem_loop_inv, modifies=lambda cx, env: [env["self"].f["_values"]],
                                                 on_entry=_snap_cache)}

    def setup(self, cx, cfg):
        s = make_state(cx, "none")
        n = name_sv("name")
        I = z3.Const("I", View)
        cx.ghost["I"] = I
        return dict(args=(s, n), self=s, n=n, I=I)

    def bind(self, it, args, kwargs):
        return dict(self=args[0], n=args[1], I=it.cx.ghost["I"])

    def pre(self, cx, st):
        return [("inv", inv(st["self"].f["_values"], st["I"]))]

    def snap(self, cx, st):
        st["old"] = st["self"].f["_values"].snapshot()

    def raises(self, cx, st):
        n, I = st["n"].e, st["I"]
        return [(InputErr(), z3.Or(z3.Not(indag(n)), Sem(n, I) == NONE))]

    def frame(self, cx, st):
        return [("smap", id(st["self"].f["_values"]), None)]

    def havoc(self, cx, st):
        st["self"].f["_values"].havoc(cx)

    def result(self, cx, st):
        return val_sv(cx.fresh_name("read"))

    def post(self, cx, st, out):
        vals, old, n, I = st["self"].f["_values"], st["old"], st["n"].e, st["I"]
        m = z3.Const("m_post", Name)
        r = out.value.e if isinstance(out.value, SV) else NONE
        return [("value read = definition evaluated from scratch on the current independent values",
                 z3.And(r == Sem(n, I), r != NONE)),
                ("inv preserved (reads only fill the cache)", inv(vals, I)),
                ("independent values untouched", z3.ForAll([m], z3.Implies(indep(m), vals.at(m) == old.at(m)))),
                ("cached entries are never overwritten by a different value",
                 z3.ForAll([m], z3.Implies(old.at(m) != NONE, vals.at(m) == old.at(m))))]


# ------------------------------------------------------------------------------------------------
def setitem_loop_inv(cx, env, k, view):
    s = env["self"]
    vals = s.f["_values"]
    mid = cx.ghost["after_store"]
    j = z3.Int("j_inv")
    m = z3.Const("m_inv", Name)
    in_prefix = z3.Exists([j], z3.And(0 <= j, j < k, view.elem_z3(j) == m))
    return [("children visited so far are reset, everything else as after the store",
             z3.ForAll([m], z3.And(vals.has(m) == mid.has(m),
                                   vals.at(m) == z3.If(in_prefix, NONE, mid.at(m)))))]


class SetItem(StateSpec):
    """state[n] = v: refused unless n is a settable node; the view becomes I[n := v]; every transitive
    dependent is reset (so no stale value survives); with auto-fork on, the pre-assignment entries of n and
    its dependents are kept for a revert."""
    target = STATE + ".__setitem__"

    def configs(self):
        return [dict(fork=f, val=v, lf=l) for f in ("none", "ref", "copy") for v in ("value", "none") for l in (False, True)]

    def setup(self, cx, cfg):
        s = make_state(cx, cfg["fork"], last_fork=cfg["lf"])
        n = name_sv("name")
        v = val_sv("v") if cfg["val"] == "value" else None
        I = z3.Const("I", View)
        cx.ghost["I"] = I
        return dict(args=(s, n, v), self=s, n=n, v=v, I=I)

    def bind(self, it, args, kwargs):
        return dict(self=args[0], n=args[1], v=args[2], I=it.cx.ghost["I"])

    def pre(self, cx, st):
        p = [("inv", inv(st["self"].f["_values"], st["I"]))]
        if st["v"] is not None:
            p.append(("a value, not None", st["v"].e != NONE))
        return p

    def snap(self, cx, st):
        st["old"] = st["self"].f["_values"].snapshot()
        st["old_fork"] = st["self"].f["_last_fork"]

    def raises(self, cx, st):
        n = st["n"].e
        return [(InputErr(), z3.Or(z3.Not(indag(n)), z3.Not(settable(n))))]

    def frame(self, cx, st):
        s = st["self"]
        return [("smap", id(s.f["_values"]), None), loc_field(s, "_last_fork")]

    def havoc(self, cx, st):
        s = st["self"]
        s.f["_values"].havoc(cx)
        s.f["_last_fork"] = SMap(cx, NAME, VAL, "fork") if s.f["auto_fork_type"] is not None else None

    def new_view(self, st):
        v = st["v"].e if st["v"] is not None else NONE
        return z3.Store(st["I"], st["n"].e, v)

    def post(self, cx, st, out):
        s = st["self"]
        vals, old, n, I = s.f["_values"], st["old"], st["n"].e, st["I"]
        v = st["v"].e if st["v"] is not None else NONE
        m = z3.Const("m_post", Name)
        I2 = self.new_view(st)
        res = [("cache after the assignment: n := v, transitive dependents reset, the rest untouched",
                z3.ForAll([m], z3.And(vals.has(m) == old.has(m),
                                      vals.at(m) == z3.If(m == n, v, z3.If(anc(n, m), NONE, old.at(m)))))),
               ("inv holds for the new view I[n := v]", inv(vals, I2))]
        fork = s.f["_last_fork"]
        if s.f["auto_fork_type"] is None:
            res.append(("with auto-fork off no fork is left: an older fork does not describe the state before this "
                        "assignment, and reverting to it would restore stale derived values", z3.BoolVal(fork is None)))
        else:
            ok = isinstance(fork, SMap)
            res.append(("fork taken", z3.BoolVal(ok)))
            if ok:
                res.append(("fork = pre-assignment entries of n and of its transitive dependents",
                            z3.ForAll([m], z3.And(fork.has(m) == z3.Or(m == n, anc(n, m)),
                                                  z3.Implies(fork.has(m), fork.at(m) == old.at(m))))))
                res.append(("the fork is consistent with the pre-assignment view (precondition of revert)",
                            z3.ForAll([m], z3.Implies(fork.has(m), z3.And(
                                z3.Implies(indep(m), fork.at(m) == I[m]),
                                z3.Implies(z3.And(z3.Not(indep(m)), fork.at(m) != NONE), fork.at(m) == Sem(m, I)))))))
        return res


def setitem_loops():
    def inv_(cx, env, k, view):
        return setitem_loop_inv(cx, env, k, view)
    def entry(cx, env):
        cx.ghost["after_store"] = env["self"].f["_values"].snapshot()
    return {("State.__setitem__", 0): LoopSpec(inv_, modifies=lambda cx, env: [env["self"].f["_values"]], on_entry=entry)}


# ------------------------------------------------------------------------------------------------
class RevertFull(StateSpec):
    """revert(): requires a pending fork; restores the entries saved by the last assignment, i.e. the view
    and every derived value are exactly as before it; the fork is consumed."""
    target = STATE + ".revert"

    def configs(self):
        return [dict(lf=True), dict(lf=False)]

    def setup(self, cx, cfg):
        s = make_state(cx, "ref", last_fork=cfg["lf"])
        I0 = z3.Const("I0", View)   # view before the assignment
        I1 = z3.Const("I1", View)   # current view
        x = z3.Const("x", Name)     # the assigned variable
        return dict(args=(s,), self=s, I0=I0, I1=I1, x=x)

    def pre(self, cx, st):
        s = st["self"]
        vals, fork = s.f["_values"], s.f["_last_fork"]
        I0, I1, x = st["I0"], st["I1"], st["x"]
        m = z3.Const("m_pre", Name)
        p = [("inv for the current view", inv(vals, I1))]
        if fork is not None:
            # what __setitem__ + later reads established (its postcondition): the fork holds the old entries
            # of x and its dependents, consistent with the old view; views differ at x only
            p += [("fork domain = x and its dependents", z3.ForAll([m], fork.has(m) == z3.Or(m == x, anc(x, m)))),
                  ("x settable", z3.And(indag(x), settable(x))),
                  ("views differ at x only", z3.ForAll([m], z3.Implies(m != x, I0[m] == I1[m]))),
                  ("forked entries were consistent with the old view", z3.ForAll([m], z3.Implies(fork.has(m), z3.And(
                      z3.Implies(indep(m), fork.at(m) == I0[m]),
                      z3.Implies(z3.And(z3.Not(indep(m)), fork.at(m) != NONE), fork.at(m) == Sem(m, I0))))))]
        return p

    def snap(self, cx, st):
        st["old"] = st["self"].f["_values"].snapshot()
        st["fork"] = st["self"].f["_last_fork"]

    def raises(self, cx, st):
        return [(InputErr(), z3.BoolVal(st["fork"] is None))]

    def post(self, cx, st, out):
        s = st["self"]
        vals, old, fork, I0 = s.f["_values"], st["old"], st["fork"], st["I0"]
        m = z3.Const("m_post", Name)
        return [("fork consumed", z3.BoolVal(s.f["_last_fork"] is None)),
                ("entries of x and its dependents restored, the rest untouched",
                 z3.ForAll([m], z3.And(vals.has(m) == old.has(m),
                                       vals.at(m) == z3.If(fork.has(m), fork.at(m), old.at(m))))),
                ("inv holds for the view before the assignment: the proposal left no trace", inv(vals, I0))]


# ------------------------------------------------------------------------------------------------
class Clone(StateSpec):
    """clone(): an independent state with the same view; writing to one does not affect the other."""
    target = STATE + ".clone"

    def configs(self):
        return [dict(fork=f, lf=l, dis=d, keep=k) for f in ("none", "ref") for l in (False, True)
                for d in (False, True) for k in (False, True)]

    def setup(self, cx, cfg):
        s = make_state(cx, cfg["fork"], cfg["lf"])
        I = z3.Const("I", View)
        return dict(args=(s,), kwargs=dict(disable_auto_fork=cfg["dis"], keep_last_fork=cfg["keep"]), self=s, I=I)

    def pre(self, cx, st):
        return [("inv", inv(st["self"].f["_values"], st["I"]))]

    def snap(self, cx, st):
        st["old"] = st["self"].f["_values"].snapshot()

    def frame(self, cx, st):
        return []

    def post(self, cx, st, out):
        cfg, s, c = st["cfg"], st["self"], out.value
        ok = isinstance(c, SymObj) and isinstance(c.f.get("_values"), SMap)
        res = [("result is a State", z3.BoolVal(ok))]
        if not ok:
            return res
        cv, sv = c.f["_values"], s.f["_values"]
        m = z3.Const("m_post", Name)
        want_fork = None if cfg["dis"] else s.f["auto_fork_type"]
        res += [("same cache contents", z3.ForAll([m], z3.And(cv.has(m) == sv.has(m), cv.at(m) == sv.at(m)))),
                ("inv holds for the clone with the same view", inv(cv, st["I"])),
                ("the cache dict is not shared", z3.BoolVal(cv is not sv)),
                ("same dag", z3.BoolVal(c.f["dag"] is s.f["dag"])),
                ("auto-fork mode as requested", z3.BoolVal(c.f["auto_fork_type"] is want_fork)),
                ("original untouched", z3.ForAll([m], z3.And(sv.has(m) == st["old"].has(m), sv.at(m) == st["old"].at(m))))]
        lf, clf = s.f["_last_fork"], c.f["_last_fork"]
        if cfg["keep"] and lf is not None:
            ok2 = isinstance(clf, SMap) and clf is not lf
            res.append(("fork copied, not shared", z3.BoolVal(ok2)))
            if ok2:
                res.append(("fork contents equal", z3.ForAll([m], z3.And(clf.has(m) == lf.has(m), clf.at(m) == lf.at(m)))))
        else:
            res.append(("no fork in the clone", z3.BoolVal(clf is None)))
        return res


# ------------------------------------------------------------------------------------------------
def precompute_loop_inv(cx, env, k, view):
    vals = env["self"].f["_values"]
    I = cx.ghost["I"]
    j = z3.Int("j_inv")
    return [("inv", inv(vals, I)),
            ("nodes visited so far are cached", z3.ForAll(
                [j], z3.Implies(z3.And(0 <= j, j < k), vals.at(view.elem_z3(j)) != NONE)))]


class PrecomputeAll(StateSpec):
    """precompute_all(): every node cached with Sem(n, I); LeaspyInputError iff some independent value is unset."""
    target = STATE + ".precompute_all"
    loops = {("State.precompute_all", 0): LoopSpec(precompute_loop_inv, modifies=lambda cx, env: [env["self"].f["_values"]])}

    def setup(self, cx, cfg):
        s = make_state(cx, "none")
        I = z3.Const("I", View)
        cx.ghost["I"] = I
        return dict(args=(s,), self=s, I=I)

    def pre(self, cx, st):
        return [("inv", inv(st["self"].f["_values"], st["I"]))]

    def raises(self, cx, st):
        m = z3.Const("m_r", Name)
        return [(InputErr(), z3.Exists([m], z3.And(indag(m), indep(m), st["I"][m] == NONE)))]

    def post(self, cx, st, out):
        vals, I = st["self"].f["_values"], st["I"]
        m = z3.Const("m_post", Name)
        return [("inv preserved", inv(vals, I)),
                ("every node cached with its from-scratch value",
                 z3.ForAll([m], z3.Implies(indag(m), z3.And(vals.at(m) != NONE, vals.at(m) == Sem(m, I)))))]


# ------------------------------------------------------------------------------------------------
class AutoFork(StateSpec):
    """with state.auto_fork(t): mode is t inside the block and restored afterwards (also on an exception)."""
    target = STATE + ".auto_fork"

    def configs(self):
        return [dict(fork=f, to=t, exc=e) for f in ("none", "ref", "copy") for t in ("none", "ref", "copy")
                for e in (False, True)]

    def setup(self, cx, cfg):
        s = make_state(cx, cfg["fork"])
        seen = {}
        cx.ghost["seen"] = seen

        def body(_):
            seen["inside"] = s.f["auto_fork_type"]
            if cfg["exc"]:
                from pyvc.core import SymRaise, ExcValue
                raise SymRaise(ExcValue(RuntimeError, ("body failed",)))
        return dict(args=(s, fork_types()[cfg["to"]]), self=s, body=body)

    def raises(self, cx, st):
        return [(RuntimeError, z3.BoolVal(st["cfg"]["exc"]))]

    def post(self, cx, st, out):
        return self.common(cx, st)

    def common(self, cx, st):
        cfg = st["cfg"]
        return [("mode inside the block", z3.BoolVal(cx.ghost["seen"].get("inside", "unset") is fork_types()[cfg["to"]])),
                ("mode restored", z3.BoolVal(st["self"].f["auto_fork_type"] is fork_types()[cfg["fork"]]))]


UNITS = [Clear(), GetOrCompute(), GetItem(), SetItem(), RevertFull(), Clone(), PrecomputeAll()]
CALLEES = []
SetItem.loops = setitem_loops()

ASSUMPTIONS = [
    "dag.wf(): sorted_children / sorted_ancestors enumerate exactly the transitive dependents / dependencies in topological order (postcondition of VariablesDAG, property C15)",
    "LinkedVariable.compute is a function of the cache entries of the direct parents (contract of compute; axiom F/Sem in contracts/state_theory.py)",
    "tensors held in the cache or in a REF fork are not mutated in place by callers (documented contract of StateForkType.REF)",
]
NOT_DECIDED = []


# ------------------------------------------------------------------------------------------------
# partial revert: the arithmetic of the blend, on real tensors of any size (keys of the cache concrete)
from pyvc import num as _num


class RevertPartial(Spec):
    """revert(mask): for every forked entry, rows with mask set hold exactly the pre-assignment value and the
    other rows exactly the current value -- also when a value is huge, infinite or NaN (IEEE configuration);
    an entry that is None on either side becomes None; entries outside the fork are untouched."""
    target = STATE + ".revert"

    def configs(self):
        return [dict(dom="real", mask="bool"), dict(dom="real", mask="float"), dict(dom="fp32", mask="bool")]

    def setup(self, cx, cfg):
        from leaspy.variables.state import State, StateForkType
        from leaspy.utils.weighted_tensor import WeightedTensor
        n, k, f = z3.Ints("n_ind k f")
        dt = "real" if cfg["dom"] == "real" else cfg["dom"]

        def T(name, shape):
            return STensor.sym(cx, name, shape, dt)
        w = STensor.sym(cx, "w_weight", (n, k), "real")
        old = {"x": T("old_x", (n,)), "y": T("old_y", (n, k)), "z": T("old_z", (n, k, f)),
               "w": SymObj(WeightedTensor, dict(value=T("old_w", (n, k)), weight=w)),
               "p": SymObj(WeightedTensor, dict(value=T("old_p", (n, k)), weight=None)),      # a weighted tensor without weights
               "u": None, "v": T("old_v", (n,))}
        cur = {"x": T("cur_x", (n,)), "y": T("cur_y", (n, k)), "z": T("cur_z", (n, k, f)),
               "w": SymObj(WeightedTensor, dict(value=T("cur_w", (n, k)), weight=w)),
               "p": SymObj(WeightedTensor, dict(value=T("cur_p", (n, k)), weight=None)),
               "u": T("cur_u", (n,)), "v": None, "q": T("cur_q", (n,))}
        if cfg["mask"] == "bool":
            mask = STensor.sym(cx, "mask", (n,), "bool")
        else:
            mask = STensor.sym(cx, "maskf", (n,), "real")
        s = SymObj(State, dict(dag=None, auto_fork_type=StateForkType.REF, _values=dict(cur), _last_fork=dict(old),
                               _tracked_variables=set()))
        return dict(args=(s, mask), self=s, old=old, cur=cur, mask=mask, dims=(n, k, f))

    def pre(self, cx, st):
        n, k, f = st["dims"]
        p = [("sizes", z3.And(n >= 0, k >= 0, f >= 0))]
        wt = st["old"]["w"].f["weight"]
        i, j = z3.Ints("i_w j_w")
        p.append(("weights are non-negative", z3.ForAll([i, j], wt.fn((i, j)) >= 0)))
        if st["cfg"]["mask"] == "float":
            m = st["mask"]
            p.append(("float mask holds 0/1 flags", z3.ForAll([i], z3.Or(m.fn((i,)) == 0, m.fn((i,)) == 1))))
        return p

    def post(self, cx, st, out):
        s, old, cur, mask = st["self"], st["old"], st["cur"], st["mask"]
        vals = s.f["_values"]
        res = [("fork consumed", z3.BoolVal(s.f["_last_fork"] is None)),
               ("None on either side gives None", z3.BoolVal(vals.get("u", 0) is None and vals.get("v", 0) is None)),
               ("entries outside the fork untouched", z3.BoolVal(vals.get("q") is cur["q"]))]
        n = st["dims"][0]

        def mk(i):
            e = mask.fn((i,))
            return e if mask.dtype == "bool" else e != 0
        for key in ("x", "y", "z", "w", "p"):
            nv = vals.get(key)
            o, c = old[key], cur[key]
            if isinstance(o, SymObj):
                ok = isinstance(nv, SymObj) and isinstance(nv.f.get("value"), STensor)
                res.append((f"{key}: still a weighted tensor", z3.BoolVal(ok)))
                if not ok:
                    continue
                if o.f["weight"] is None:
                    res.append((f"{key}: still without weights", z3.BoolVal(nv.f.get("weight") is None)))
                    wt_ok = False
                else:
                    wt_ok = nv.f["weight"] is not None
                    res.append((f"{key}: weight kept", z3.BoolVal(wt_ok)))
                nv_t, o_t, c_t = nv.f["value"], o.f["value"], c.f["value"]
                if wt_ok:
                    idx = o_t.fresh_idx(cx, "e")
                    res.append((f"{key}: weight unchanged entry-wise", z3.ForAll(list(idx), z3.Implies(
                        o_t.in_range(idx), nv.f["weight"].fn(idx) == o.f["weight"].fn(idx)))))
            else:
                ok = isinstance(nv, STensor)
                res.append((f"{key}: still a tensor", z3.BoolVal(ok)))
                if not ok:
                    continue
                nv_t, o_t, c_t = nv, o, c
            same_rank = nv_t.ndim == o_t.ndim
            res.append((f"{key}: rank kept", z3.BoolVal(same_rank)))
            if not same_rank:
                continue
            idx = o_t.fresh_idx(cx, "e")
            want = z3.If(mk(idx[0]), o_t.fn(idx), c_t.fn(idx))
            res.append((f"{key}: reverted rows hold exactly the old value, kept rows exactly the current value",
                        z3.ForAll(list(idx), z3.Implies(o_t.in_range(idx), _num.same(nv_t.fn(idx), want)))))
        return res


UNITS.append(RevertPartial())


# ------------------------------------------------------------------------------------------------
def LEMMAS():
    """partial revert keeps the cache consistent: with I' = the view whose reverted rows come from the
    pre-assignment view and whose kept rows from the current one, the blended cache satisfies the class
    invariant for I' -- given row-locality of derived values (C07) and the documented precondition that
    only variables carrying the individual axis were read since the assignment."""
    R = row_axioms()
    ax = axioms()
    I0, I1, I2 = z3.Consts("I0 I1 I2", View)
    C1, Fk, C2 = z3.Consts("C1 Fk C2", View)
    x, m, mm = z3.Consts("x m mm", Name)
    ii, rr = z3.Ints("ii rr")

    def infork(q):
        return z3.Or(q == x, anc(x, q))
    setup = [
        indag(x), settable(x), indiv(x),
        z3.ForAll([m], z3.Implies(m != x, I0[m] == I1[m])),
        # inv(C1, I1) and consistency of the fork with the old view (postconditions of __setitem__/__getitem__)
        z3.ForAll([m], z3.Implies(indag(m), z3.And(
            z3.Implies(indep(m), C1[m] == I1[m]),
            z3.Implies(z3.And(z3.Not(indep(m)), C1[m] != NONE), C1[m] == Sem(m, I1))))),
        z3.ForAll([m], z3.Implies(z3.And(indag(m), infork(m)), z3.And(
            z3.Implies(indep(m), Fk[m] == I0[m]),
            z3.Implies(z3.And(z3.Not(indep(m)), Fk[m] != NONE), Fk[m] == Sem(m, I0))))),
        # documented precondition of a partial revert
        z3.ForAll([m], z3.Implies(z3.And(infork(m), C1[m] != NONE, Fk[m] != NONE), indiv(m))),
        # effect of revert(mask) on the cache (postcondition of the unit RevertPartial, per forked entry)
        z3.ForAll([m], C2[m] == z3.If(z3.And(indag(m), infork(m)),
                                      z3.If(z3.Or(Fk[m] == NONE, C1[m] == NONE), NONE, Blend(Fk[m], C1[m])), C1[m])),
        I2 == z3.Store(I1, x, z3.If(z3.Or(I0[x] == NONE, I1[x] == NONE), NONE, Blend(I0[x], I1[x]))),
    ]
    o, c = Fk[mm], C1[mm]
    case = [indag(mm), z3.Not(indep(mm)), infork(mm), o != NONE, c != NONE]
    base = ax + list(R.values()) + setup
    x_set = z3.And(I0[x] != NONE, I1[x] != NONE)
    A = z3.Implies(rowmask(ii), agree_row(I2, I0, mm, ii))
    Bk = z3.Implies(z3.Not(rowmask(ii)), agree_row(I2, I1, mm, ii))
    Cdef = Sem(mm, I2) != NONE
    D = elem(Sem(mm, I2), ii, rr) == elem(Blend(o, c), ii, rr)
    Dall = z3.ForAll([ii, rr], D)
    E = Sem(mm, I2) == Blend(o, c)
    P = "partial revert lemma: "
    return [
        (P + "independent entries equal the blended view", base, z3.Implies(z3.And(indag(mm), indep(mm)), C2[mm] == I2[mm])),
        (P + "derived entries outside the fork stay consistent", base,
         z3.Implies(z3.And(indag(mm), z3.Not(indep(mm)), z3.Not(infork(mm)), C2[mm] != NONE), C2[mm] == Sem(mm, I2))),
        (P + "a forked derived entry with both sides present: the assigned variable was set on both sides", base + case, x_set),
        (P + "reverted rows see the pre-assignment view", base + case + [x_set], A),
        (P + "kept rows see the current view", base + case + [x_set], Bk),
        (P + "the blended derived value is defined", base + case + [x_set], Cdef),
        (P + "entry-wise equality with the from-scratch value", base + case + [x_set, A, Bk, indiv(mm), o == Sem(mm, I0), c == Sem(mm, I1)], D),
        (P + "hence equality (extensionality)", [R["extensionality"], R["select_not_none"], o != NONE, c != NONE, Cdef, Dall], E),
        (P + "forked derived entries are consistent with the blended view", base + case + [E], C2[mm] == Sem(mm, I2)),
    ]


# ------------------------------------------------------------------------------------------------
class Put(StateSpec):
    """put(n, v, indices, accumulate): the view becomes I[n := v], I[n := I[n] + v] or
    I[n := index_put(I[n], indices, v, accumulate)] -- computed out of place -- through __setitem__, so every
    dependent is reset; refused (input error) for unknown / non-settable n or when the current value is needed and unset."""
    target = STATE + ".put"

    def configs(self):
        return [dict(nidx=k, acc=a) for k in (0, 1, 2) for a in (False, True)]

    def setup(self, cx, cfg):
        s = make_state(cx, "ref")
        n, v = name_sv("name"), val_sv("v")
        I = z3.Const("I", View)
        cx.ghost["I"] = I
        idx = tuple(cx.int(f"i{k}") for k in range(cfg["nidx"]))
        return dict(args=(s, n, v), kwargs=dict(indices=idx, accumulate=cfg["acc"]), self=s, n=n, v=v, I=I, idx=idx)

    def pre(self, cx, st):
        return [("inv", inv(st["self"].f["_values"], st["I"])), ("a value", st["v"].e != NONE)]

    def snap(self, cx, st):
        st["old"] = st["self"].f["_values"].snapshot()

    def needs_current(self, st):
        return st["cfg"]["nidx"] > 0 or st["cfg"]["acc"]

    def raises(self, cx, st):
        n, I = st["n"].e, st["I"]
        bad = z3.Or(z3.Not(indag(n)), z3.Not(settable(n)))
        if self.needs_current(st):
            bad = z3.Or(bad, Sem(n, I) == NONE)
        return [(InputErr(), bad)]

    def post(self, cx, st, out):
        s, cfg = st["self"], st["cfg"]
        vals, old, n, I, v = s.f["_values"], st["old"], st["n"].e, st["I"], st["v"].e
        m = z3.Const("m_post", Name)
        if cfg["nidx"] == 0:
            newv = vadd(I[n], v) if cfg["acc"] else v
        else:
            ix = [z(i) for i in st["idx"]] + [z3.IntVal(-1)] * (2 - cfg["nidx"])
            newv = vindex_put(I[n], z3.IntVal(cfg["nidx"]), ix[0], ix[1], v, z3.BoolVal(cfg["acc"]))
        I2 = z3.Store(I, n, newv)
        return [("new value of n (out of place), dependents reset, other independent values untouched, "
                 "cached entries elsewhere kept (a read may only have filled empty ones)",
                 z3.ForAll([m], z3.And(
                     vals.has(m) == old.has(m),
                     z3.Implies(m == n, vals.at(m) == newv),
                     z3.Implies(anc(n, m), vals.at(m) == NONE),
                     z3.Implies(z3.And(m != n, z3.Not(anc(n, m)), z3.Or(indep(m), old.at(m) != NONE)), vals.at(m) == old.at(m))))),
                ("inv holds for the new view", inv(vals, I2))]


class SetItemTensors(Spec):
    """State.__setitem__ on real tensors (the abstract-value units cannot see value-dependent short cuts): whatever the assigned
    tensor is -- in particular when it equals, entry by entry, the value already held -- the assignment stores it, resets every
    dependent and, with auto-fork on, takes a NEW fork holding the pre-assignment entries of the variable and of its dependents
    (an earlier fork must not survive: reverting to it would undo an accepted change)."""
    target = STATE + ".__setitem__"

    def configs(self):
        return [dict(equal=e, fork=f) for e in (False, True) for f in ("ref", "none")]

    def setup(self, cx, cfg):
        import types
        from pyvc.tensor import STensor
        from pyvc.core import Symbolic
        from leaspy.variables.state import State, StateForkType
        n = z3.Int("n_rows")
        cx.assume(n >= 1)
        cur = STensor.sym(cx, "current_x", (n,))
        new = STensor(cur.shape_, cur.fn, "real", "assigned_x") if cfg["equal"] else STensor.sym(cx, "assigned_x", (n,))
        child1, child2 = STensor.sym(cx, "cached_y", (n,)), STensor.sym(cx, "cached_z", ())
        values = {"x": cur, "y": child1, "z": child2, "other": STensor.sym(cx, "cached_other", (n,))}
        old_fork = {"other": STensor.sym(cx, "older_fork_entry", (n,))}          # left by an earlier assignment to another variable

        class DagStub(Symbolic):
            def _getattr(self_, it, name, node=None):
                if name == "sorted_children":
                    return {"x": ("y", "z"), "other": (), "y": ("z",), "z": ()}
                raise OutOfSubset(f"dag.{name}")

            def _getitem(self_, it, k, node=None):
                return types.SimpleNamespace(is_settable=(k in ("x", "other")))

            def _contains(self_, it, k, node=None):
                return k in ("x", "y", "z", "other")
        s = SymObj(State, dict(dag=DagStub(), _values=values, _last_fork=old_fork,
                               auto_fork_type=StateForkType.REF if cfg["fork"] == "ref" else None))
        return dict(args=(s, "x", new), self=s, cur=cur, new=new, values=values, old_fork=old_fork, children=(child1, child2))

    def post(self, cx, st, out):
        s, vals = st["self"], st["self"].f["_values"]
        from pyvc.tensor import STensor
        orig = dict(y=st["children"][0], z=st["children"][1])
        shape_ok = isinstance(vals, dict) and isinstance(vals.get("x"), STensor) and vals["x"].ndim == 1 \
            and all(vals.get(c) is None or vals.get(c) is orig[c] for c in orig) \
            and vals.get("other") is st["values"]["other"] and sorted(vals) == ["other", "x", "y", "z"]
        res = [("every dependent is reset (or still holds its cached value), nothing else changes", z3.BoolVal(bool(shape_ok)))]
        if shape_ok:
            i = z3.Int("i_set")
            res.append(("the variable holds the assigned values", z3.ForAll([i], z3.Implies(vals["x"].in_range((i,)), vals["x"].fn((i,)) == st["new"].fn((i,))))))
            if any(vals.get(c) is orig[c] for c in orig):
                res.append(("a dependent may stay cached only when the assigned values are the ones already held (it is then still valid)",
                            z3.ForAll([i], z3.Implies(st["cur"].in_range((i,)), st["new"].fn((i,)) == st["cur"].fn((i,))))))
        fork = s.f.get("_last_fork")
        if st["cfg"]["fork"] == "ref":
            ok = isinstance(fork, dict) and fork is not st["old_fork"] and sorted(fork) == ["x", "y", "z"] and fork["x"] is st["cur"] \
                and fork["y"] is st["children"][0] and fork["z"] is st["children"][1]
            res.append(("a new fork holds exactly the pre-assignment entries of the variable and of its dependents", z3.BoolVal(bool(ok))))
        else:
            res.append(("with auto-fork off no fork is left", z3.BoolVal(fork is None)))
        return res



class ToCache(Spec):
    """StateForkType.to_cache: REF keeps the very same dict, COPY returns an equal dict that is a different object -- and whose
    tensors (plain, or the value / weight of a weighted tensor) share no storage with the originals, as documented
    ("independent of the originals": the caller may update the old values in place afterwards)."""
    target = "leaspy.variables.state:StateForkType.to_cache"

    def configs(self):
        return [dict(kind="ref"), dict(kind="copy"), dict(kind="copy", tensors=True)]

    def background(self, cx):
        return []

    def setup(self, cx, cfg):
        if cfg.get("tensors"):
            from pyvc.tensor import STensor
            from leaspy.utils.weighted_tensor import WeightedTensor
            n = z3.Int("n_rows")
            cx.assume(n >= 1)
            plain = STensor.sym(cx, "plain", (n, 1))
            wv, ww = STensor.sym(cx, "w_value", (n,)), STensor.sym(cx, "w_weight", (n,))
            d = {"plain": plain, "weighted": SymObj(WeightedTensor, dict(value=wv, weight=ww)),
                 "unweighted": SymObj(WeightedTensor, dict(value=STensor.sym(cx, "u_value", (n,)), weight=None))}
            return dict(args=(fork_types()["copy"], d), d=d)
        d = SMap(cx, NAME, VAL, "d")
        return dict(args=(fork_types()[cfg["kind"]], d), d=d)

    def post(self, cx, st, out):
        r, d = out.value, st["d"]
        if st["cfg"].get("tensors"):
            from pyvc.tensor import STensor
            ok = isinstance(r, dict) and r is not d and list(r) == list(d)
            res = [("a new dict with the same keys", z3.BoolVal(bool(ok)))]
            if not ok:
                return res

            def leaves(v):
                if isinstance(v, STensor):
                    return [v]
                if isinstance(v, SymObj):
                    return [x for x in (v.f.get("value"), v.f.get("weight")) if isinstance(x, STensor)]
                return []

            def storage(t):
                return getattr(t, "_storage_of", t)
            fresh, equal = True, []
            for k in d:
                a, b = leaves(d[k]), leaves(r[k])
                fresh = fresh and len(a) == len(b) and r[k] is not d[k] and all(storage(y) is not storage(x) for x in a for y in b)
                for x, y in zip(a, b):
                    idx = x.fresh_idx(cx, "ci")
                    equal.append(z3.ForAll(list(idx), z3.Implies(x.in_range(idx), x.fn(idx) == y.fn(idx))))
            res.append(("every cached tensor is a new object on its own storage (deep copy)", z3.BoolVal(bool(fresh))))
            res.append(("with equal entries", z3.And(*equal) if equal else z3.BoolVal(False)))
            return res
        m = z3.Const("m_post", Name)
        ok = isinstance(r, SMap)
        res = [("a dict", z3.BoolVal(ok))]
        if ok:
            res.append(("same keys and values", z3.ForAll([m], z3.And(r.has(m) == d.has(m), z3.Implies(d.has(m), r.at(m) == d.at(m))))))
            res.append(("REF shares, COPY does not", z3.BoolVal((r is d) == (st["cfg"]["kind"] == "ref"))))
        return res


UNITS += [Put(), AutoFork(), ToCache(), SetItemTensors()]
CALLEES += []

# dag.wf() -- sorted_children / sorted_ancestors are the transitive closures -- is the precondition of every unit above; the
# transitions that build them (contracts of C15, on the real statements of the constructor) are re-checked here, so that a
# change to the graph construction fails this check as well
from contracts import c15 as _c15
UNITS += list(_c15.UNITS)
# un-setting the individual latent variables goes through the invalidating assignment (verified with the State probes of C12)
from contracts import c12 as _c12
UNITS += [foreign(_c12.UnsetIndividuals(), "c12")]


# ------------------------------------------------------------------------------------------------
# "an independent variable has no definition": the theory above (indep(n) -> compute() is None, no parents) is an ASSUMED
# contract of leaspy.variables.specs; it is what turns a read needing an unset independent value into an input error.  It is
# checked here on the function each concrete independent-variable class actually resolves to (an override in a sub-class is
# what gets verified).
def _indep_classes():
    import leaspy.variables.specs as sp
    out, todo = [], [sp.IndepVariable]
    while todo:
        c = todo.pop(0)
        if c.__module__.startswith("leaspy.") and c not in out:
            out.append(c)
        todo += c.__subclasses__()
    return out


class IndepCompute(Spec):
    """IndepVariable.compute(state) (as resolved on every independent-variable class of the library): returns None whatever the
    state holds -- an independent variable is never answered with a default -- and reads / writes nothing."""
    target = "leaspy.variables.specs:IndepVariable.compute"
    var_class = "leaspy.variables.specs:IndepVariable"

    def setup(self, cx, cfg):
        cls = resolve(self.var_class)
        me = SymObj(cls, {}, label="variable")
        values = SMap(cx, NAME, VAL, "state._values")
        return dict(args=(me, values), me=me)

    def post(self, cx, st, out):
        return [("returns None", z3.BoolVal(out.value is None))]

    def frame(self, cx, st):
        return []


class IndepAncestors(Spec):
    """IndepVariable.get_ancestors_names() (as resolved on every independent-variable class): the empty set."""
    target = "leaspy.variables.specs:IndepVariable.get_ancestors_names"
    var_class = "leaspy.variables.specs:IndepVariable"

    def setup(self, cx, cfg):
        me = SymObj(resolve(self.var_class), {}, label="variable")
        return dict(args=(me,), me=me)

    def post(self, cx, st, out):
        v = out.value
        return [("returns an empty frozenset", z3.BoolVal(isinstance(v, frozenset) and len(v) == 0))]

    def frame(self, cx, st):
        return []


def _indep_units():
    out = []
    for c in _indep_classes():
        q = f"{c.__module__}:{c.__qualname__}"
        for base, meth in ((IndepCompute, "compute"), (IndepAncestors, "get_ancestors_names")):
            out.append(type(f"{base.__name__}_{c.__name__}", (base,), dict(target=f"{q}.{meth}", var_class=q, __doc__=base.__doc__))())
    return out


UNITS += _indep_units()
