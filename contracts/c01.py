"""C01 -- values read from the lazily cached variable graph are never stale.

Class invariant of `State` (state_theory.inv): independent entries of the cache are the view I,
every non-None derived entry equals Sem(n, I) = "the definition of n evaluated from scratch on I".
Every public method is proved to preserve it for *every* well-formed DAG and every pre-state, so the
property holds after every finite history (induction over the methods; no history is enumerated).
"""
import z3

from pyvc.api import *
from pyvc.tensor import STensor
from contracts.state_theory import *
from contracts import state_theory as T

STATE = "leaspy.variables.state:State"


def InputErr():
    from leaspy.exceptions import LeaspyInputError
    return LeaspyInputError


def name_sv(nm):
    return SV(z3.Const(nm, Name), "u:Name")


def val_sv(nm):
    return SV(z3.Const(nm, Val), "u:Val")


class StateSpec(Spec):
    def background(self, cx):
        return axioms()


# ------------------------------------------------------------------------------------------------
class Clear(StateSpec):
    """clear(): hyper-parameters at their value, everything else unset; no pending fork."""
    target = STATE + ".clear"

    def configs(self):
        return [dict(fork=f, lf=l) for f in ("none", "ref") for l in (False, True)]

    def setup(self, cx, cfg):
        s = make_state(cx, cfg["fork"], cfg["lf"])
        return dict(args=(s,), self=s)

    def post(self, cx, st, out):
        s = st["self"]
        vals = s.f["_values"]
        ok = isinstance(vals, SMap)
        res = [("cache is a dict", z3.BoolVal(ok)), ("no pending fork", z3.BoolVal(s.f["_last_fork"] is None))]
        if ok:
            n = z3.Const("n", Name)
            res.append(("keys = nodes of the dag; hyper-parameters set, the rest None",
                        z3.ForAll([n], z3.And(vals.has(n) == indag(n),
                                              z3.Implies(indag(n), vals.at(n) == z3.If(hyper(n), hval(n), NONE))))))
            res.append(("invariant holds for the initial view", inv(vals, vals.val)))
        return res


# ------------------------------------------------------------------------------------------------
class GetOrCompute(StateSpec):
    """_get_or_compute_and_cache(n): returns Sem(n, I) and caches it; LeaspyInputError iff n is an unset
    independent variable; requires the direct parents of a derived n to be cached."""
    target = STATE + "._get_or_compute_and_cache"

    def configs(self):
        return [dict(force=False), dict(force=True)]

    def setup(self, cx, cfg):
        s = make_state(cx, "none")
        n = name_sv("name")
        I = z3.Const("I", View)
        return dict(args=(s, n), kwargs=dict(force_computation=cfg["force"]), self=s, n=n, I=I,
                    force=cfg["force"])

    def bind(self, it, args, kwargs):
        s = args[0]
        return dict(self=s, n=args[1], I=it.cx.ghost["I"], force=kwargs.get("force_computation", False))

    def pre(self, cx, st):
        vals, n, I = st["self"].f["_values"], st["n"].e, st["I"]
        p = z3.Const("p_pre", Name)
        return [("inv", inv(vals, I)), ("n in dag", indag(n)),
                ("direct parents cached", z3.Implies(z3.Not(indep(n)), z3.ForAll(
                    [p], z3.Implies(par(p, n), vals.at(p) != NONE))))]

    def snap(self, cx, st):
        st["old"] = st["self"].f["_values"].snapshot()

    def raises(self, cx, st):
        old, n = st["old"], st["n"].e
        if st["force"]:
            return [(InputErr(), indep(n))]
        return [(InputErr(), z3.And(indep(n), old.at(n) == NONE))]

    def frame(self, cx, st):
        return [("smap", id(st["self"].f["_values"]), None)]

    def havoc(self, cx, st):
        st["self"].f["_values"].havoc(cx)

    def result(self, cx, st):
        return val_sv(cx.fresh_name("got"))

    def post(self, cx, st, out):
        vals, old, n, I = st["self"].f["_values"], st["old"], st["n"].e, st["I"]
        m = z3.Const("m_post", Name)
        r = out.value.e if isinstance(out.value, SV) else NONE
        return [("returns Sem(n, I), not None", z3.And(r == Sem(n, I), r != NONE)),
                ("caches it and nothing else changes",
                 z3.ForAll([m], z3.And(vals.has(m) == old.has(m),
                                       vals.at(m) == z3.If(m == n, r, old.at(m))))),
                ("inv preserved", inv(vals, I))]


# ------------------------------------------------------------------------------------------------
def getitem_loop_inv(cx, env, k, view):
    s = env["self"]
    vals = s.f["_values"]
    I = cx.ghost["I"]
    j = z3.Int("j_inv")
    old = cx.ghost["cache_at_entry"]
    m = z3.Const("m_inv", Name)
    return [("inv", inv(vals, I)),
            ("ancestors visited so far are cached", z3.ForAll(
                [j], z3.Implies(z3.And(0 <= j, j < k), vals.at(view.elem_z3(j)) != NONE))),
            ("entries present at entry are kept", z3.ForAll([m], z3.Implies(old.at(m) != NONE, vals.at(m) == old.at(m)))),
            ("independent entries untouched", z3.ForAll([m], z3.Implies(indep(m), vals.at(m) == old.at(m))))]


def _snap_cache(cx, env):
    cx.ghost["cache_at_entry"] = env["self"].f["_values"].snapshot()


class GetItem(StateSpec):
    """state[n]: returns Sem(n, I) (never a stale or default value); LeaspyInputError iff n is unknown or
    needs an unset independent value (Sem(n, I) undefined); the view I is not changed by a read."""
    target = STATE + ".__getitem__"
    loops = {("State.__getitem__", 0): LoopSpec(getitem_loop_inv, modifies=lambda cx, env: [env["self"].f["_values"]],
                                                 on_entry=_snap_cache)}

    def setup(self, cx, cfg):
        s = make_state(cx, "none")
        n = name_sv("name")
        I = z3.Const("I", View)
        cx.ghost["I"] = I
        return dict(args=(s, n), self=s, n=n, I=I)

    def bind(self, it, args, kwargs):
        return dict(self=args[0], n=args[1], I=it.cx.ghost["I"])

    def pre(self, cx, st):
        return [("inv", inv(st["self"].f["_values"], st["I"]))]

    def snap(self, cx, st):
        st["old"] = st["self"].f["_values"].snapshot()

    def raises(self, cx, st):
        n, I = st["n"].e, st["I"]
        return [(InputErr(), z3.Or(z3.Not(indag(n)), Sem(n, I) == NONE))]

    def frame(self, cx, st):
        return [("smap", id(st["self"].f["_values"]), None)]

    def havoc(self, cx, st):
        st["self"].f["_values"].havoc(cx)

    def result(self, cx, st):
        return val_sv(cx.fresh_name("read"))

    def post(self, cx, st, out):
        vals, old, n, I = st["self"].f["_values"], st["old"], st["n"].e, st["I"]
        m = z3.Const("m_post", Name)
        r = out.value.e if isinstance(out.value, SV) else NONE
        return [("value read = definition evaluated from scratch on the current independent values",
                 z3.And(r == Sem(n, I), r != NONE)),
                ("inv preserved (reads only fill the cache)", inv(vals, I)),
                ("independent values untouched", z3.ForAll([m], z3.Implies(indep(m), vals.at(m) == old.at(m)))),
                ("cached entries are never overwritten by a different value",
                 z3.ForAll([m], z3.Implies(old.at(m) != NONE, vals.at(m) == old.at(m))))]


# ------------------------------------------------------------------------------------------------
def setitem_loop_inv(cx, env, k, view):
    s = env["self"]
    vals = s.f["_values"]
    mid = cx.ghost["after_store"]
    j = z3.Int("j_inv")
    m = z3.Const("m_inv", Name)
    in_prefix = z3.Exists([j], z3.And(0 <= j, j < k, view.elem_z3(j) == m))
    return [("children visited so far are reset, everything else as after the store",
             z3.ForAll([m], z3.And(vals.has(m) == mid.has(m),
                                   vals.at(m) == z3.If(in_prefix, NONE, mid.at(m)))))]


class SetItem(StateSpec):
    """state[n] = v: refused unless n is a settable node; the view becomes I[n := v]; every transitive
    dependent is reset (so no stale value survives); with auto-fork on, the pre-assignment entries of n and
    its dependents are kept for a revert."""
    target = STATE + ".__setitem__"

    def configs(self):
        return [dict(fork=f, val=v) for f in ("none", "ref", "copy") for v in ("value", "none")]

    def setup(self, cx, cfg):
        s = make_state(cx, cfg["fork"], last_fork=False)
        n = name_sv("name")
        v = val_sv("v") if cfg["val"] == "value" else None
        I = z3.Const("I", View)
        cx.ghost["I"] = I
        return dict(args=(s, n, v), self=s, n=n, v=v, I=I)

    def bind(self, it, args, kwargs):
        return dict(self=args[0], n=args[1], v=args[2], I=it.cx.ghost["I"])

    def pre(self, cx, st):
        p = [("inv", inv(st["self"].f["_values"], st["I"]))]
        if st["v"] is not None:
            p.append(("a value, not None", st["v"].e != NONE))
        return p

    def snap(self, cx, st):
        st["old"] = st["self"].f["_values"].snapshot()
        st["old_fork"] = st["self"].f["_last_fork"]

    def raises(self, cx, st):
        n = st["n"].e
        return [(InputErr(), z3.Or(z3.Not(indag(n)), z3.Not(settable(n))))]

    def frame(self, cx, st):
        s = st["self"]
        return [("smap", id(s.f["_values"]), None), loc_field(s, "_last_fork")]

    def havoc(self, cx, st):
        s = st["self"]
        s.f["_values"].havoc(cx)
        if s.f["auto_fork_type"] is not None:
            s.f["_last_fork"] = SMap(cx, NAME, VAL, "fork")

    def new_view(self, st):
        v = st["v"].e if st["v"] is not None else NONE
        return z3.Store(st["I"], st["n"].e, v)

    def post(self, cx, st, out):
        s = st["self"]
        vals, old, n, I = s.f["_values"], st["old"], st["n"].e, st["I"]
        v = st["v"].e if st["v"] is not None else NONE
        m = z3.Const("m_post", Name)
        I2 = self.new_view(st)
        res = [("cache after the assignment: n := v, transitive dependents reset, the rest untouched",
                z3.ForAll([m], z3.And(vals.has(m) == old.has(m),
                                      vals.at(m) == z3.If(m == n, v, z3.If(anc(n, m), NONE, old.at(m)))))),
               ("inv holds for the new view I[n := v]", inv(vals, I2))]
        fork = s.f["_last_fork"]
        if s.f["auto_fork_type"] is None:
            res.append(("no fork taken when auto-fork is off", z3.BoolVal(fork is st["old_fork"])))
        else:
            ok = isinstance(fork, SMap)
            res.append(("fork taken", z3.BoolVal(ok)))
            if ok:
                res.append(("fork = pre-assignment entries of n and of its transitive dependents",
                            z3.ForAll([m], z3.And(fork.has(m) == z3.Or(m == n, anc(n, m)),
                                                  z3.Implies(fork.has(m), fork.at(m) == old.at(m))))))
        return res


def setitem_loops():
    def inv_(cx, env, k, view):
        return setitem_loop_inv(cx, env, k, view)
    def entry(cx, env):
        cx.ghost["after_store"] = env["self"].f["_values"].snapshot()
    return {("State.__setitem__", 0): LoopSpec(inv_, modifies=lambda cx, env: [env["self"].f["_values"]], on_entry=entry)}


# ------------------------------------------------------------------------------------------------
class RevertFull(StateSpec):
    """revert(): requires a pending fork; restores the entries saved by the last assignment, i.e. the view
    and every derived value are exactly as before it; the fork is consumed."""
    target = STATE + ".revert"

    def configs(self):
        return [dict(lf=True), dict(lf=False)]

    def setup(self, cx, cfg):
        s = make_state(cx, "ref", last_fork=cfg["lf"])
        I0 = z3.Const("I0", View)   # view before the assignment
        I1 = z3.Const("I1", View)   # current view
        x = z3.Const("x", Name)     # the assigned variable
        return dict(args=(s,), self=s, I0=I0, I1=I1, x=x)

    def pre(self, cx, st):
        s = st["self"]
        vals, fork = s.f["_values"], s.f["_last_fork"]
        I0, I1, x = st["I0"], st["I1"], st["x"]
        m = z3.Const("m_pre", Name)
        p = [("inv for the current view", inv(vals, I1))]
        if fork is not None:
            # what __setitem__ + later reads established (its postcondition): the fork holds the old entries
            # of x and its dependents, consistent with the old view; views differ at x only
            p += [("fork domain = x and its dependents", z3.ForAll([m], fork.has(m) == z3.Or(m == x, anc(x, m)))),
                  ("x settable", z3.And(indag(x), settable(x))),
                  ("views differ at x only", z3.ForAll([m], z3.Implies(m != x, I0[m] == I1[m]))),
                  ("forked entries were consistent with the old view", z3.ForAll([m], z3.Implies(fork.has(m), z3.And(
                      z3.Implies(indep(m), fork.at(m) == I0[m]),
                      z3.Implies(z3.And(z3.Not(indep(m)), fork.at(m) != NONE), fork.at(m) == Sem(m, I0))))))]
        return p

    def snap(self, cx, st):
        st["old"] = st["self"].f["_values"].snapshot()
        st["fork"] = st["self"].f["_last_fork"]

    def raises(self, cx, st):
        return [(InputErr(), z3.BoolVal(st["fork"] is None))]

    def post(self, cx, st, out):
        s = st["self"]
        vals, old, fork, I0 = s.f["_values"], st["old"], st["fork"], st["I0"]
        m = z3.Const("m_post", Name)
        return [("fork consumed", z3.BoolVal(s.f["_last_fork"] is None)),
                ("entries of x and its dependents restored, the rest untouched",
                 z3.ForAll([m], z3.And(vals.has(m) == old.has(m),
                                       vals.at(m) == z3.If(fork.has(m), fork.at(m), old.at(m))))),
                ("inv holds for the view before the assignment: the proposal left no trace", inv(vals, I0))]


# ------------------------------------------------------------------------------------------------
class Clone(StateSpec):
    """clone(): an independent state with the same view; writing to one does not affect the other."""
    target = STATE + ".clone"

    def configs(self):
        return [dict(fork=f, lf=l, dis=d, keep=k) for f in ("none", "ref") for l in (False, True)
                for d in (False, True) for k in (False, True)]

    def setup(self, cx, cfg):
        s = make_state(cx, cfg["fork"], cfg["lf"])
        I = z3.Const("I", View)
        return dict(args=(s,), kwargs=dict(disable_auto_fork=cfg["dis"], keep_last_fork=cfg["keep"]), self=s, I=I)

    def pre(self, cx, st):
        return [("inv", inv(st["self"].f["_values"], st["I"]))]

    def snap(self, cx, st):
        st["old"] = st["self"].f["_values"].snapshot()

    def frame(self, cx, st):
        return []

    def post(self, cx, st, out):
        cfg, s, c = st["cfg"], st["self"], out.value
        ok = isinstance(c, SymObj) and isinstance(c.f.get("_values"), SMap)
        res = [("result is a State", z3.BoolVal(ok))]
        if not ok:
            return res
        cv, sv = c.f["_values"], s.f["_values"]
        m = z3.Const("m_post", Name)
        want_fork = None if cfg["dis"] else s.f["auto_fork_type"]
        res += [("same cache contents", z3.ForAll([m], z3.And(cv.has(m) == sv.has(m), cv.at(m) == sv.at(m)))),
                ("inv holds for the clone with the same view", inv(cv, st["I"])),
                ("the cache dict is not shared", z3.BoolVal(cv is not sv)),
                ("same dag", z3.BoolVal(c.f["dag"] is s.f["dag"])),
                ("auto-fork mode as requested", z3.BoolVal(c.f["auto_fork_type"] is want_fork)),
                ("original untouched", z3.ForAll([m], z3.And(sv.has(m) == st["old"].has(m), sv.at(m) == st["old"].at(m))))]
        lf, clf = s.f["_last_fork"], c.f["_last_fork"]
        if cfg["keep"] and lf is not None:
            ok2 = isinstance(clf, SMap) and clf is not lf
            res.append(("fork copied, not shared", z3.BoolVal(ok2)))
            if ok2:
                res.append(("fork contents equal", z3.ForAll([m], z3.And(clf.has(m) == lf.has(m), clf.at(m) == lf.at(m)))))
        else:
            res.append(("no fork in the clone", z3.BoolVal(clf is None)))
        return res


# ------------------------------------------------------------------------------------------------
def precompute_loop_inv(cx, env, k, view):
    vals = env["self"].f["_values"]
    I = cx.ghost["I"]
    j = z3.Int("j_inv")
    return [("inv", inv(vals, I)),
            ("nodes visited so far are cached", z3.ForAll(
                [j], z3.Implies(z3.And(0 <= j, j < k), vals.at(view.elem_z3(j)) != NONE)))]


class PrecomputeAll(StateSpec):
    """precompute_all(): every node cached with Sem(n, I); LeaspyInputError iff some independent value is unset."""
    target = STATE + ".precompute_all"
    loops = {("State.precompute_all", 0): LoopSpec(precompute_loop_inv, modifies=lambda cx, env: [env["self"].f["_values"]])}

    def setup(self, cx, cfg):
        s = make_state(cx, "none")
        I = z3.Const("I", View)
        cx.ghost["I"] = I
        return dict(args=(s,), self=s, I=I)

    def pre(self, cx, st):
        return [("inv", inv(st["self"].f["_values"], st["I"]))]

    def raises(self, cx, st):
        m = z3.Const("m_r", Name)
        return [(InputErr(), z3.Exists([m], z3.And(indag(m), indep(m), st["I"][m] == NONE)))]

    def post(self, cx, st, out):
        vals, I = st["self"].f["_values"], st["I"]
        m = z3.Const("m_post", Name)
        return [("inv preserved", inv(vals, I)),
                ("every node cached with its from-scratch value",
                 z3.ForAll([m], z3.Implies(indag(m), z3.And(vals.at(m) != NONE, vals.at(m) == Sem(m, I)))))]


# ------------------------------------------------------------------------------------------------
class AutoFork(StateSpec):
    """with state.auto_fork(t): mode is t inside the block and restored afterwards (also on an exception)."""
    target = STATE + ".auto_fork"

    def configs(self):
        return [dict(fork=f, to=t, exc=e) for f in ("none", "ref", "copy") for t in ("none", "ref", "copy")
                for e in (False, True)]

    def setup(self, cx, cfg):
        s = make_state(cx, cfg["fork"])
        seen = {}
        cx.ghost["seen"] = seen

        def body(_):
            seen["inside"] = s.f["auto_fork_type"]
            if cfg["exc"]:
                from pyvc.core import SymRaise, ExcValue
                raise SymRaise(ExcValue(RuntimeError, ("body failed",)))
        return dict(args=(s, fork_types()[cfg["to"]]), self=s, body=body)

    def raises(self, cx, st):
        return [(RuntimeError, z3.BoolVal(st["cfg"]["exc"]))]

    def post(self, cx, st, out):
        return self.common(cx, st)

    def common(self, cx, st):
        cfg = st["cfg"]
        return [("mode inside the block", z3.BoolVal(cx.ghost["seen"].get("inside", "unset") is fork_types()[cfg["to"]])),
                ("mode restored", z3.BoolVal(st["self"].f["auto_fork_type"] is fork_types()[cfg["fork"]]))]


UNITS = [Clear(), GetOrCompute(), GetItem(), SetItem(), RevertFull(), Clone(), PrecomputeAll()]
CALLEES = []
SetItem.loops = setitem_loops()

ASSUMPTIONS = [
    "dag.wf(): sorted_children / sorted_ancestors enumerate exactly the transitive dependents / dependencies in topological order (postcondition of VariablesDAG, property C15)",
    "LinkedVariable.compute is a function of the cache entries of the direct parents (contract of compute; axiom F/Sem in contracts/state_theory.py)",
    "tensors held in the cache or in a REF fork are not mutated in place by callers (documented contract of StateForkType.REF)",
]
NOT_DECIDED = []
