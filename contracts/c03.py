"""C03 -- every sampler step is a Metropolis-Hastings transition for the documented target."""
from contracts.samplers import *
from contracts import state_theory as T

UNITS = [IndividualSample({"C03"}), PopulationSample({"C03"})]
CALLEES = [ShuffledIndices()]
engine_setup = T.engine_setup

ASSUMPTIONS = [
    "torch.randn is the generator's standard-normal stream and torch.rand its uniform stream on [0,1) (ghost streams: one uninterpreted draw per position)",
    "State methods are used through their C01 contracts",
    "the latent variable name is a representative constant 'VAR'",
]
NOT_DECIDED = ["the distribution of the pseudo-random numbers themselves"]


# ------------------------------------------------------------------------------------------------
# one MCMC-SAEM iteration: every latent variable is sampled exactly once, with the current inverse
# temperature, before the maximisation step and the temperature update
import z3
from pyvc.api import *


class Probe(Spec):
    """call-site probe: records the call (order, receiver, keyword arguments)"""

    def __init__(self, target, label):
        self.target = target
        self.label = label

    def bind(self, it, args, kwargs):
        return dict(args=args, kwargs=kwargs)

    def havoc(self, cx, st):
        cx.ghost.setdefault("calls", []).append((self.label, st["args"], st["kwargs"]))


class Iteration(Spec):
    """TensorMcmcSaemAlgorithm._iteration: each population and individual latent variable's sampler is called
    exactly once, with temperature_inv = the algorithm's current inverse temperature, then the maximisation
    step, then the temperature update."""
    target = "leaspy.algo.fit.mcmc_saem:TensorMcmcSaemAlgorithm._iteration"

    def configs(self):
        return [dict(shuffle=True), dict(shuffle=False)]

    def setup(self, cx, cfg):
        from leaspy.algo.fit.mcmc_saem import TensorMcmcSaemAlgorithm
        from leaspy.variables.specs import IndividualLatentVariable, PopulationLatentVariable
        from leaspy.samplers.gibbs import IndividualGibbsSampler, PopulationGibbsSampler
        from leaspy.models import McmcSaemCompatibleModel
        pop, ind = ["log_g", "betas", "log_v0"], ["xi", "tau", "sources"]
        samplers = {n: SymObj(PopulationGibbsSampler, dict(name=n), label=f"sampler[{n}]") for n in pop}
        samplers.update({n: SymObj(IndividualGibbsSampler, dict(name=n), label=f"sampler[{n}]") for n in ind})
        dag = SymObj(object, dict(sorted_variables_by_type={PopulationLatentVariable: {n: None for n in pop},
                                                            IndividualLatentVariable: {n: None for n in ind}}))
        state = SymObj(object, dict(dag=dag), label="state")
        beta = cx.real("beta")
        self_ = SymObj(TensorMcmcSaemAlgorithm, dict(samplers=samplers, random_order_variables=cfg["shuffle"],
                                                     temperature_inv=beta))
        model = SymObj(McmcSaemCompatibleModel, label="model")
        return dict(args=(self_, model, state), self=self_, samplers=samplers, state=state, beta=beta,
                    names=pop + ind)

    def post(self, cx, st, out):
        calls = cx.ghost.get("calls", [])
        kinds = [c[0] for c in calls]
        samples = [c for c in calls if c[0] == "sample"]
        res = [("the samplers run first, then the maximisation step, then the temperature update",
                z3.BoolVal(kinds == ["sample"] * len(st["names"]) + ["maximization", "temperature"]))]
        seen = [c[1][0].f.get("name") for c in samples]
        res.append(("every latent variable is sampled exactly once", z3.BoolVal(sorted(seen) == sorted(st["names"]))))
        res.append(("each sampler works on the algorithm's state", z3.BoolVal(all(c[1][1] is st["state"] for c in samples))))
        same_beta = [as_real(c[2].get("temperature_inv")) == z(st["beta"]) for c in samples if c[2].get("temperature_inv") is not None]
        res.append(("temperature_inv passed to every sampler", z3.BoolVal(len(same_beta) == len(samples))))
        if same_beta:
            res.append(("... and it is the current inverse temperature", z3.And(*same_beta)))
        return res


def as_real(v):
    from pyvc.core import SV
    if isinstance(v, SV):
        return z3.ToReal(v.e) if v.kind == "int" else v.e
    return z3.RealVal(str(v))


import random as _random
from pyvc.models import model as _model


@_model(_random.shuffle)
def m_shuffle(it, lst):
    """random.shuffle: the list becomes some permutation of itself (kept in place here; the contracts that
    use it do not depend on the order) and the python stream advances"""
    g = it.cx.ghost.setdefault("rng", {"torch": 0, "np": 0, "py": 0, "log": []})
    g["py"] += 1
    return None


UNITS.append(Iteration())
CALLEES += [Probe("leaspy.samplers.gibbs:IndividualGibbsSampler.sample", "sample"),
            Probe("leaspy.samplers.gibbs:AbstractPopulationGibbsSampler.sample", "sample"),
            Probe("leaspy.algo.fit.mcmc_saem:TensorMcmcSaemAlgorithm._maximization_step", "maximization"),
            Probe("leaspy.algo.algo_with_annealing:AlgorithmWithAnnealingMixin._update_temperature", "temperature")]
