"""C11 -- reproducibility.  Under contract (deductively), the mechanism the property rests on:
  * BaseAlgorithm._initialize_seed seeds the three generators (python, numpy, torch) with the given seed, or none;
  * BaseAlgorithm.run seeds before anything is drawn: the seeding calls precede _run, always, and nothing else is drawn;
  * BaseAlgorithm.__init__ copies the settings' parameters (no aliasing with the caller's settings object);
  * FitOutputManager.iteration: which logging action runs at which iteration; it draws no random number and writes to
    neither the algorithm, the model nor the data (its helpers are probes here; State.save reads the state through
    __getitem__, whose contract -- C01 -- leaves the values unchanged).
That the draws of a seeded generator are a function of the seed alone is the libraries' contract (assumed); that the plotting
code (matplotlib) consumes none of the three generators, and bit-identical end-to-end results, are decided by the bounded
stand-in only."""
import inspect
import random as _random
import time as _time

import numpy as _np
import torch as _torch
import z3

from pyvc.api import *
from pyvc.core import BoundMethod, Symbolic
from pyvc.models import model as _model

BASE = "leaspy.algo.base:BaseAlgorithm"
FOM = "leaspy.algo.fit.fit_output_manager:FitOutputManager"


@_model(_random.seed)
def m_pyseed(it, seed=None):
    it.cx.ghost.setdefault("events", []).append(("seed", "python", seed))


@_model(_np.random.seed)
def m_npseed(it, seed=None):
    it.cx.ghost.setdefault("events", []).append(("seed", "numpy", seed))


@_model(_torch.manual_seed)
def m_torchseed(it, seed):
    it.cx.ghost.setdefault("events", []).append(("seed", "torch", seed))


@_model(_time.time)
def m_time(it):
    return it.cx.real("now")


@_model(inspect.signature)
def m_signature(it, f):
    if isinstance(f, BoundMethod):
        sig = inspect.signature(f.func)
        return sig.replace(parameters=list(sig.parameters.values())[1:])
    return inspect.signature(f)


def seed_events(cx):
    return [e for e in cx.ghost.get("events", []) if e[0] == "seed"]


def seeds_ok(cx, seed):
    ev = seed_events(cx)
    same = sorted(e[1] for e in ev) == ["numpy", "python", "torch"]
    return [("each of the three generators is seeded exactly once", z3.BoolVal(same)),
            ("with the given seed", z3.And(*[z(e[2], "int") == z(seed, "int") for e in ev]) if same else z3.BoolVal(False))]


class SeedInit(Spec):
    """_initialize_seed(seed): seed given -> random.seed, numpy.random.seed and torch.manual_seed are each called once with it;
    seed None -> no generator is touched."""
    target = BASE + "._initialize_seed"

    def configs(self):
        return [dict(seed="int"), dict(seed="none")]

    def setup(self, cx, cfg):
        seed = cx.int("seed") if cfg["seed"] == "int" else None
        return dict(args=(seed,), seed=seed)

    def post(self, cx, st, out):
        if st["seed"] is None:
            return [("no generator is touched", z3.BoolVal(seed_events(cx) == []))]
        return seeds_ok(cx, st["seed"])


class RunProbe(Spec):
    """the algorithm's own _run: records when it is entered"""
    target = "leaspy.algo.fit.mcmc_saem:TensorMcmcSaemAlgorithm._run"

    def bind(self, it, args, kwargs):
        return dict(args=args, kwargs=kwargs)

    def havoc(self, cx, st):
        cx.ghost.setdefault("events", []).append(("run", st["args"], st["kwargs"]))

    def result(self, cx, st):
        return SV(z3.Const("run_output", z3.DeclareSort("Output")), "u:Output")


class RunSeedsFirst(Spec):
    """run(model, dataset): LeaspyAlgoInputError iff the algorithm has no parameters; otherwise the three generators are
    seeded with self.seed (when it is not None) BEFORE _run is entered, _run is entered exactly once with the model and the
    dataset, its output is returned, and run itself draws nothing."""
    target = BASE + ".run"

    def configs(self):
        return [dict(seed="int", params=True), dict(seed="none", params=True), dict(seed="int", params=False)]

    def setup(self, cx, cfg):
        from leaspy.algo.fit.mcmc_saem import TensorMcmcSaemAlgorithm
        from leaspy.algo.base import AlgorithmType, AlgorithmName
        seed = cx.int("seed") if cfg["seed"] == "int" else None
        algo = SymObj(TensorMcmcSaemAlgorithm, dict(seed=seed, algo_parameters={"progress_bar": False, "n_iter": cx.int("n_iter")} if cfg["params"] else None,
                                                    family=AlgorithmType.FIT, name=AlgorithmName.FIT_MCMC_SAEM))
        model, ds = SymObj(object, {}, label="model"), SymObj(object, {}, label="dataset")
        return dict(args=(algo, model, ds), algo=algo, seed=seed, model=model, ds=ds)

    def raises(self, cx, st):
        from leaspy.exceptions import LeaspyAlgoInputError
        return [(LeaspyAlgoInputError, z3.BoolVal(not st["cfg"]["params"]))]

    def post(self, cx, st, out):
        ev = cx.ghost.get("events", [])
        runs = [k for k, e in enumerate(ev) if e[0] == "run"]
        res = [("_run is entered exactly once", z3.BoolVal(len(runs) == 1))]
        if len(runs) != 1:
            return res
        r = ev[runs[0]]
        res.append(("with the model and the dataset", z3.BoolVal(r[1][0] is st["algo"] and r[1][1] is st["model"] and r[2].get("dataset") is st["ds"])))
        res.append(("every seeding call precedes _run", z3.BoolVal(all(e[0] != "seed" for e in ev[runs[0]:]))))
        if st["seed"] is None:
            res.append(("no generator is touched", z3.BoolVal(seed_events(cx) == [])))
        else:
            res += seeds_ok(cx, st["seed"])
        g = cx.ghost.get("rng", {})
        res.append(("run itself draws no random number", z3.BoolVal(not any(g.get(k) for k in ("torch", "np", "py")))))
        res.append(("returns _run's output", z3.BoolVal(isinstance(out.value, SV) and out.value.kind == "u:Output")))
        return res


class InitCopies(Spec):
    """BaseAlgorithm.__init__(settings): LeaspyAlgoInputError iff the settings are for another algorithm; otherwise seed =
    settings.seed and algo_parameters is a deep copy of settings.parameters: equal values, no shared mutable object."""
    target = BASE + ".__init__"

    def configs(self):
        return [dict(name_ok=True), dict(name_ok=False)]

    def setup(self, cx, cfg):
        from leaspy.algo.fit.mcmc_saem import TensorMcmcSaemAlgorithm
        from leaspy.algo.base import AlgorithmName
        params = {"n_iter": cx.int("n_iter"), "annealing": {"do_annealing": SV(z3.Bool("anneal"), "bool"), "n_plateau": cx.int("n_plateau")},
                  "sampler_ind_params": {"acceptation_history_length": cx.int("hist")}, "device": "cpu"}
        settings = SymObj(object, dict(name=AlgorithmName.FIT_MCMC_SAEM if cfg["name_ok"] else AlgorithmName.PERSONALIZE_SCIPY_MINIMIZE,
                                       seed=cx.int("seed"), parameters=params))
        algo = SymObj(TensorMcmcSaemAlgorithm, {})
        return dict(args=(algo, settings), algo=algo, settings=settings, params=params)

    def raises(self, cx, st):
        from leaspy.exceptions import LeaspyAlgoInputError
        return [(LeaspyAlgoInputError, z3.BoolVal(not st["cfg"]["name_ok"]))]

    def frame(self, cx, st):
        a = st["algo"]
        return [loc_field(a, "seed"), loc_field(a, "algo_parameters"), loc_field(a, "output_manager")]

    def post(self, cx, st, out):
        a, p = st["algo"], st["params"]
        got = a.f.get("algo_parameters")

        def mutable_ids(v):
            out_ = set()
            if isinstance(v, dict):
                out_.add(id(v))
                for x in v.values():
                    out_ |= mutable_ids(x)
            elif isinstance(v, list):
                out_.add(id(v))
                for x in v:
                    out_ |= mutable_ids(x)
            return out_

        def equal(x, y):
            if isinstance(x, dict):
                return isinstance(y, dict) and list(x) == list(y) and z3.And(*[equal(x[k], y[k]) for k in x]) if isinstance(y, dict) and list(x) == list(y) else z3.BoolVal(False)
            if isinstance(x, SV):
                return z(x) == z(y) if isinstance(y, SV) else z3.BoolVal(False)
            return z3.BoolVal(x == y)
        return [("seed = settings.seed", z(a.f.get("seed")) == z(st["settings"].f["seed"]) if isinstance(a.f.get("seed"), SV) else z3.BoolVal(False)),
                ("algo_parameters has the values of settings.parameters", equal(p, got)),
                ("... and shares no dictionary or list with it", z3.BoolVal(isinstance(got, dict) and not (mutable_ids(got) & mutable_ids(p)))),
                ("the settings' parameters are not modified", equal(st["params"], st["settings"].f["parameters"]))]


# ------------------------------------------------------------------------------------------------------------------
class HelperProbe(Spec):
    def __init__(self, name):
        self.target = FOM + "." + name
        self.label = name

    def bind(self, it, args, kwargs):
        return dict(args=args, kwargs=kwargs)

    def havoc(self, cx, st):
        cx.ghost.setdefault("log_actions", []).append((self.label, st["args"][1:]))


HELPERS = ["print_algo_statistics", "print_model_statistics", "print_time", "save_model_parameters_convergence",
           "save_plot_patient_reconstructions", "save_plot_convergence_model_parameters"]


class OutputIteration(Spec):
    """FitOutputManager.iteration(algo, model, data): with no output path nothing happens; otherwise at iteration k the
    console statistics are printed iff a print periodicity p is set and (k = 0 or p | k), the CSV rows are saved iff a save
    periodicity s is set and (k = 0 or s | k), patients are plotted iff q is set and (k = 0 or q | k), the convergence plot is
    drawn iff r is set and r | k.  It draws no random number and writes to neither the algorithm, the model nor the data."""
    target = FOM + ".iteration"

    def configs(self):
        out = []
        for path in (True, False):
            for pr in (None, "p"):
                for sv in (None, "s"):
                    for pp in (None, "q"):
                        for pl in (None, "r"):
                            out.append(dict(path=path, pr=pr, sv=sv, pp=pp, pl=pl))
        return out

    def cfg_label(self, cfg):
        return ",".join(f"{k}={v}" for k, v in cfg.items())

    def setup(self, cx, cfg):
        from pathlib import Path
        fom = SymObj(resolve(FOM), dict(
            periodicity_print=cx.int("p") if cfg["pr"] else None, periodicity_save=cx.int("s") if cfg["sv"] else None,
            periodicity_plot_patients=cx.int("q") if cfg["pp"] else None, periodicity_plot=cx.int("r") if cfg["pl"] else None,
            path_output=Path("/logs") if cfg["path"] else None, time=cx.real("t0")))
        k = cx.int("k")
        algo = SymObj(object, dict(current_iteration=k), label="algo")
        model, data = SymObj(object, {}, label="model"), SymObj(object, {}, label="data")
        return dict(args=(fom, algo, model, data), fom=fom, k=k, algo=algo, model=model, data=data)

    def pre(self, cx, st):
        f = st["fom"].f
        return [("iteration number", z(st["k"]) >= 0)] + [(f"periodicity {n} is a positive integer", z(f[n]) >= 1) for n in
                                                           ("periodicity_print", "periodicity_save", "periodicity_plot_patients", "periodicity_plot") if f[n] is not None]

    def frame(self, cx, st):
        return [loc_field(st["fom"], "time")]

    def post(self, cx, st, out):
        f, k, cfg = st["fom"].f, z(st["k"]), st["cfg"]
        acts = [a[0] for a in cx.ghost.get("log_actions", [])]

        def due(per, at_zero=True):
            if per is None or not cfg["path"]:
                return z3.BoolVal(False)
            return z3.Or(k == 0, k % z(per) == 0) if at_zero else (k % z(per) == 0)
        want = [("print_algo_statistics", due(f["periodicity_print"])), ("print_model_statistics", due(f["periodicity_print"])),
                ("print_time", due(f["periodicity_print"])), ("save_model_parameters_convergence", due(f["periodicity_save"])),
                ("save_plot_patient_reconstructions", due(f["periodicity_plot_patients"])),
                ("save_plot_convergence_model_parameters", due(f["periodicity_plot"], at_zero=False))]
        res = [(f"{name} runs exactly when it is due (at most once)", z3.BoolVal(acts.count(name) == 1) == cond if acts.count(name) <= 1 else z3.BoolVal(False))
               for name, cond in want]
        res.append(("the actions run in the documented order", z3.BoolVal(acts == [n for n, _ in want if n in acts])))
        g = cx.ghost.get("rng", {})
        res.append(("no random number is drawn, no generator re-seeded",
                    z3.BoolVal(not any(g.get(x) for x in ("torch", "np", "py")) and not seed_events(cx))))
        return res


# ------------------------------------------------------------------------------------------------------------------
class StepProbe(Spec):
    """a step of the fit loop: records that it ran (its own contract lives elsewhere: C03 / C05 / C19 / OutputIteration above)"""

    def __init__(self, target, label):
        self.target, self.label = target, label

    def bind(self, it, args, kwargs):
        return dict(args=args, kwargs=kwargs)

    def havoc(self, cx, st):
        cx.ghost.setdefault("steps", []).append((self.label, st["args"], st["kwargs"]))


MS = "leaspy.algo.fit.mcmc_saem:TensorMcmcSaemAlgorithm"


def run_iter_post(cx, env, snap, k, view):
    g = cx.ghost
    new = g.get("steps", [])[snap:]
    self_, cfg = env["self"], g["cfg"]
    want = ["iteration"] + (["output"] if cfg["om"] else []) + (["progress"] if cfg["bar"] else [])
    res = [("iteration number = position + 1", z(self_.f["current_iteration"], "int") == k + 1),
           ("the steps of one pass: the algorithm's iteration, then (only when an output manager is attached) its logging, then (only with "
            "a progress bar) the bar -- nothing that belongs to the algorithm is done or skipped on account of logging",
            z3.BoolVal([s_[0] for s_ in new] == want))]
    its = [s_ for s_ in new if s_[0] == "iteration"]
    if len(its) == 1:
        res.append(("the iteration works on the model and the state of this run", z3.BoolVal(its[0][1][1] is g["model"] and its[0][1][2] is g["state"])))
    return res


class RunLoopLoggingNeutral(Spec):
    """TensorMcmcSaemAlgorithm._run, the iteration loop alone (dropped: the initialisation before it and the hand-over of the fitted
    state after it): for an arbitrary pass k, the iteration counter is k + 1 and exactly these steps run, in this order: the
    algorithm's _iteration(model, state) once; FitOutputManager.iteration(self, model, dataset) once iff an output manager is attached;
    the progress bar iff it is switched on.  In particular the temperature update, the samplers and the maximisation step are not
    called from here: what the algorithm computes is the same with and without logging."""
    target = MS + "._run"
    fragment = (lambda t: t.startswith("for self.current_iteration in"), lambda t: t.startswith("for self.current_iteration in"))
    loops = {("TensorMcmcSaemAlgorithm._run", 0): LoopSpec(
        lambda cx, env, k, view: [], modifies=lambda cx, env: [(env["self"], "current_iteration")],
        iter_pre=lambda cx, env, k, view: len(cx.ghost.get("steps", [])), iter_post=run_iter_post)}

    def configs(self):
        return [dict(om=o, bar=b) for o in (False, True) for b in (False, True)]

    def setup(self, cx, cfg):
        om = SymObj(resolve(FOM), {}, label="output_manager") if cfg["om"] else None
        n_iter = cx.int("n_iter")
        self_ = SymObj(resolve(MS), dict(algo_parameters={"n_iter": n_iter, "progress_bar": cfg["bar"]}, output_manager=om, current_iteration=0))
        model, dataset, state = SymObj(object, {}, label="model"), SymObj(object, {}, label="dataset"), SymObj(object, {}, label="state")
        cx.ghost.update(cfg=cfg, model=model, state=state)
        return dict(env={"self": self_, "model": model, "dataset": dataset, "state": state}, n_iter=n_iter)

    def pre(self, cx, st):
        return [("accepted settings", z(st["n_iter"]) >= 1)]

    def post(self, cx, st, out):
        return [("the loop ends", z3.BoolVal(True))]


UNITS = [SeedInit(), RunSeedsFirst(), InitCopies(), OutputIteration(), RunLoopLoggingNeutral()]
CALLEES = [RunProbe()] + [HelperProbe(h) for h in HELPERS]
CALLEES += [StepProbe(MS + "._iteration", "iteration"), StepProbe(FOM + ".iteration", "output"),
            StepProbe("leaspy.algo.base:IterativeAlgorithm._display_progress_bar", "progress"),
            StepProbe("leaspy.algo.algo_with_annealing:AlgorithmWithAnnealingMixin._update_temperature", "temperature"),
            StepProbe(MS + "._maximization_step", "maximization")]
ASSUMPTIONS = ["C11: a generator seeded with s produces a sequence that depends on s only (contract of random / numpy / torch)",
               "C11: the helpers of FitOutputManager (print / State.save / matplotlib plotting) are call-site probes; State.save reads through "
               "State.__getitem__ (C01: values unchanged); that matplotlib draws nothing from the three generators is observed by the stand-in",
               "C11: run() on TensorMcmcSaemAlgorithm with its _run as a probe (the other algorithms inherit run unchanged)"]
NOT_DECIDED = ["bit-identical end-to-end results of fit / personalize / simulate: bounded stand-in only"]
LEVEL = "exploration"
