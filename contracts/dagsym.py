"""Symbolic evaluation of the REAL variable graphs of the shipped model kinds.

`model_specs(kind, ...)` builds the real model natively and reads its real `get_variables_specs()`; every
LinkedVariable is then evaluated by interpreting its real `compute` (NamedInputFunction / model class methods /
distribution families / weighted-tensor code) on symbolic tensors of any size.  A linked variable that the
verifier cannot execute is reported as out-of-subset for the unit that needs it, never skipped silently."""
import z3

from pyvc.api import *
from pyvc.core import OutOfSubset
from pyvc.tensor import STensor

n, v, f, k = z3.Ints("n_ind n_vis n_ft n_src")
_CACHE = {}


def model_specs(kind, **kw):
    key = (kind, tuple(sorted(kw.items())))
    if key not in _CACHE:
        import leaspy.models  # noqa
        from leaspy.models import model_factory
        m = model_factory(kind, **kw)
        _CACHE[key] = (m, m.get_variables_specs())
    return _CACHE[key]


def WT(value, weight=None):
    from leaspy.utils.weighted_tensor import WeightedTensor
    return SymObj(WeightedTensor, dict(value=value, weight=weight))


def hyper_value(var):
    """hyper-parameters have concrete values in the specs"""
    return var.value


def sym_independent(cx, specs, suffix="", n_ft=None, n_src=None, shared=None):
    """symbolic values for the independent variables of a model graph.
    n_ft / n_src: z3 Int terms for the feature / source dimensions (concrete ints also allowed)"""
    from leaspy.variables.specs import (DataVariable, Hyperparameter, IndividualLatentVariable, ModelParameter,
                                        PopulationLatentVariable)
    F = n_ft if n_ft is not None else f
    K = n_src if n_src is not None else k
    vals = {}
    shared = shared or {}
    for name in specs:
        var = specs[name]
        if name in shared:
            vals[name] = shared[name]
            continue
        nm = name + suffix
        if isinstance(var, Hyperparameter):
            vals[name] = var.value
        elif isinstance(var, DataVariable):
            if name == "t":
                vals[name] = WT(STensor.sym(cx, "t" + suffix, (n, v)), STensor.sym(cx, "t_w" + suffix, (n, v), "bool"))
            elif name == "y":
                vals[name] = WT(STensor.sym(cx, "y" + suffix, (n, v, F)), STensor.sym(cx, "y_w" + suffix, (n, v, F), "bool"))
            elif name == "event":
                vals[name] = WT(STensor.sym(cx, "event_t" + suffix, (n, 1)), STensor.sym(cx, "event_b" + suffix, (n, 1), "bool"))
            else:
                raise OutOfSubset(f"data variable {name}")
        elif isinstance(var, (ModelParameter, PopulationLatentVariable)):
            shape = _pop_shape(name, var, F, K)
            if isinstance(var, PopulationLatentVariable):
                # a population latent variable has the shape of its prior's location parameter
                loc = var.prior.parameters_names[0]
                if loc in specs and isinstance(specs[loc], ModelParameter):
                    shape = _pop_shape(loc, specs[loc], F, K)
            vals[name] = STensor.sym(cx, nm, shape)
        elif isinstance(var, IndividualLatentVariable):
            shape = (n, K) if name == "sources" else (n, 1)
            vals[name] = STensor.sym(cx, nm, shape)
    return vals


def _pop_shape(name, var, F, K):
    base = name[:-5] if name.endswith("_mean") else (name[:-4] if name.endswith("_std") else name)
    table = {"betas": (F - 1, K), "log_g": (F,), "g": (F,), "log_v0": (F,), "deltas": (F - 1,), "noise": (),
             "tau": (1,), "xi": (1,), "sources": (K,), "n_log_nu": (1,), "log_rho": (1,), "zeta": (K, 1)}
    if base == "noise":
        shp = getattr(var, "shape", (1,))
        return (F,) if (len(shp) == 1 and shp[0] != 1) else (1,)
    shp = getattr(var, "shape", None)
    if isinstance(shp, int):
        shp = (shp,)
    declared = shp if isinstance(shp, tuple) and all(isinstance(d, int) for d in shp) else None
    if base in table:
        t = table[base]
        if declared is not None and all(isinstance(d, int) for d in t) and tuple(t) != declared:
            return declared   # this model declares another (concrete) shape, e.g. one entry per cluster in the mixture model
        return t
    if declared is not None:
        return declared
    raise OutOfSubset(f"shape of population variable {name}")


def evaluate(cx, specs, vals, name, trace=None):
    """value of variable `name` of the real graph on the symbolic independent values `vals` (memoised in vals)"""
    if name in vals:
        return vals[name]
    var = specs[name]
    for p in sorted(var.get_ancestors_names()):
        evaluate(cx, specs, vals, p, trace)
    if trace is not None:
        trace.append(name)
    from pyvc.core import SymRaise, PathInfeasible
    try:
        vals[name] = cx.it.call(var.compute, (vals,), {})
    except SymRaise:
        # layouts are only needed for the admissible values (e.g. a positive metric): other paths are dropped
        raise PathInfeasible()
    return vals[name]


# ---------------------------------------------------------------------------------------------------
KINDS = {
    "logistic+sources": ("logistic", dict(source_dimension=2, dimension=3)),
    "logistic": ("logistic", dict(source_dimension=0, dimension=3)),
    "logistic-scalar-noise": ("logistic", dict(source_dimension=1, dimension=3, obs_models="gaussian-scalar")),
    "linear+sources": ("linear", dict(source_dimension=1, dimension=3)),
    "shared-speed+sources": ("shared_speed_logistic", dict(source_dimension=1, dimension=3)),
    "univariate": ("logistic", dict(dimension=1, source_dimension=0)),
}


# graphs that only some units are run on (their other variables use functions outside the subset)
EXTRA_KINDS = {
    "joint": ("joint", dict(source_dimension=1, dimension=3, nb_events=1)),
    "mixture": ("mixture_logistic", dict(source_dimension=1, dimension=3, n_clusters=2)),
}


ALL_KINDS = {**KINDS, **EXTRA_KINDS}


def layouts(cx, kind_label):
    """evaluate every variable of the real graph once on symbolic independent values: name -> value (layout)"""
    kind, kw = (KINDS.get(kind_label) or EXTRA_KINDS[kind_label])
    m, specs = model_specs(kind, **kw)
    F = kw.get("dimension", 3)
    K = kw.get("source_dimension", 0) or 1
    vals = sym_independent(cx, specs, n_ft=F, n_src=K)
    return m, specs, vals, F, K


def fresh_like(cx, value, name):
    """a fresh symbolic value with the layout (type, rank, sizes, weightedness) of `value`"""
    if isinstance(value, STensor):
        return STensor.sym(cx, name, value.shape_, value.dtype)
    if isinstance(value, SymObj) and "value" in value.f:
        w = value.f.get("weight")
        return WT(STensor.sym(cx, name, value.f["value"].shape_, value.f["value"].dtype),
                  None if w is None else STensor.sym(cx, name + "_w", w.shape_, w.dtype))
    return value     # hyper-parameter constants (native tensors)


def has_ind_axis(value):
    t = value.f["value"] if isinstance(value, SymObj) and "value" in value.f else value
    return isinstance(t, STensor) and t.ndim >= 1 and not isinstance(t.shape_[0], int) and t.shape_[0].eq(n)


def tensor_of(value):
    import torch
    from pyvc.tensor import from_native
    if isinstance(value, torch.Tensor):
        return from_native(value)       # hyper-parameter constants
    return value.f["value"] if isinstance(value, SymObj) and "value" in value.f else value


def weight_of(value):
    return value.f.get("weight") if isinstance(value, SymObj) and "value" in value.f else None


_LAYOUT_CACHE = {}


def parent_layouts(cx, kind_label, names):
    """layouts (type / rank / sizes / weightedness) of the given variables of the real graph, obtained by evaluating
    the graph once in a scratch context: nothing of that evaluation leaks into the unit's path condition"""
    from pyvc.core import Ctx, SymRaise, PathInfeasible
    from pyvc.interp import Interp
    key = kind_label
    if key not in _LAYOUT_CACHE:
        scratch = Ctx()
        scratch.it = Interp(scratch, cx.it.engine)
        scratch.assume(z3.And(n >= 2, v >= 1))
        m, specs, vals, F, K = layouts(scratch, kind_label)
        _LAYOUT_CACHE[key] = (scratch, m, specs, vals, F, K)
    scratch, m, specs, vals, F, K = _LAYOUT_CACHE[key]
    out = {}
    for name in names:
        out[name] = evaluate(scratch, specs, vals, name)
    return m, specs, out, F, K
