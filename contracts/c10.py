"""C10 -- re-centring is a pure gauge change; space shifts are orthogonal to progression.

Real functions under contract: RiemanianManifoldModel._center_xi_realizations, JointModel._center_xi_realizations,
leaspy.utils.linalg.compute_orthonormal_basis (Householder; any dimension, scalar / diagonal / full metric).
Lemmas: the compensated quantities of the trajectory and event formulas (C09 / C08) are unchanged by the
re-centring; the basis is invariant under a positive rescaling of the velocities (two symbolic runs of the real
function); rows of the mixing matrix, hence space shifts, are orthogonal to the direction of progression."""
import z3

from pyvc.api import *
from pyvc.core import Symbolic, OutOfSubset
from pyvc.tensor import STensor, F_EXP, F_SQRT, sigma_term, dim_z3

d = z3.Int("dim")
n = z3.Int("n_ind")


def ModelErr():
    from leaspy.exceptions import LeaspyModelInputError
    return LeaspyModelInputError


def sqrt_instances(*formulas):
    """instances, at the square-root terms that occur, of: x >= 0 => sqrt(x) >= 0 and sqrt(x)^2 = x; x > 0 => sqrt(x) > 0"""
    seen, out = set(), []
    stack = list(formulas)
    while stack:
        x = stack.pop()
        if x.get_id() in seen:
            continue
        seen.add(x.get_id())
        if z3.is_quantifier(x):
            stack.append(x.body())
            continue
        if z3.is_app(x):
            if x.decl().name() == "sqrt" and x.num_args() == 1:
                a = x.arg(0)
                out.append(z3.Implies(a >= 0, z3.And(x >= 0, x * x == a)))
                out.append(z3.Implies(a > 0, x > 0))
            stack.extend(x.children())
    return out


def sqrt_args(*formulas):
    out, seen = [], set()
    stack = list(formulas)
    while stack:
        x = stack.pop()
        if x.get_id() in seen:
            continue
        seen.add(x.get_id())
        if z3.is_app(x):
            if x.decl().name() == "sqrt" and x.num_args() == 1:
                out.append(x.arg(0))
            stack.extend(x.children())
    return out


def sqrt_scaling_instances(c, *formulas):
    """instances of sqrt(c^2 x) = c sqrt(x) (c > 0, x >= 0) for every pair of square-root terms that occur"""
    terms, seen = [], set()
    stack = list(formulas)
    while stack:
        x = stack.pop()
        if x.get_id() in seen:
            continue
        seen.add(x.get_id())
        if z3.is_app(x):
            if x.decl().name() == "sqrt" and x.num_args() == 1:
                terms.append(x)
            stack.extend(x.children())
    out = []
    for a in terms:
        for b in terms:
            if not a.eq(b):
                out.append(z3.Implies(z3.And(c > 0, b.arg(0) >= 0, a.arg(0) == c * c * b.arg(0)), a == c * b))
    return out


class OrthoBasis(Spec):
    """compute_orthonormal_basis(v, G): with w = G v (scalar, diagonal or full metric) and w_0 != 0, the d-1
    returned columns are orthonormal and each is orthogonal to w; incoherent metrics are refused."""
    target = "leaspy.utils.linalg:compute_orthonormal_basis"

    def configs(self):
        return [dict(G=0), dict(G=1), dict(G=2), dict(G=1, mismatch=True), dict(G=3)]

    def setup(self, cx, cfg):
        v = STensor.sym(cx, "v", (d,))
        gshape = {0: (), 1: (d,), 2: (d, d), 3: (d, d, d)}[cfg["G"]]
        if cfg.get("mismatch"):
            gshape = (z3.Int("d_other"),)
        G = STensor.sym(cx, "G", gshape)
        return dict(args=(v, G), v=v, G=G)

    def w(self, st, i):
        v, G, r = st["v"], st["G"], st["cfg"]["G"]
        if r == 0:
            return G.fn(()) * v.fn((i,))
        if r == 1:
            return G.fn((i,)) * v.fn((i,))
        return sigma_term(None, lambda j: G.fn((i, j)) * v.fn((j,)), d)

    def pre(self, cx, st):
        p = [("dimension >= 2", d >= 2)]
        if st["cfg"].get("mismatch"):
            p.append(("metric of another size", z3.And(z3.Int("d_other") >= 1, z3.Int("d_other") != d)))
        if st["cfg"]["G"] in (0, 1, 2) and not st["cfg"].get("mismatch"):
            p.append(("w_0 != 0 (v0 = exp(.) > 0 and a positive metric)", self.w(st, z3.IntVal(0)) != 0))
        return p

    def raises(self, cx, st):
        G, r = st["G"], st["cfg"]["G"]
        if st["cfg"].get("mismatch") or r == 3:
            return [(ModelErr(), z3.BoolVal(True))]
        if r == 0:
            return [(ModelErr(), G.fn(()) <= 0)]
        if r == 1:
            k = z3.Int("k_r")
            return [(ModelErr(), z3.Exists([k], z3.And(0 <= k, k < d, z3.Not(G.fn((k,)) > 0))))]
        return []

    def post(self, cx, st, out):
        Q = out.value
        ok = isinstance(Q, STensor) and Q.ndim == 2
        res = [("a matrix", z3.BoolVal(ok))]
        if not ok:
            return res
        res.append(("shape (d, d - 1)", z3.And(dim_z3(Q.shape_[0]) == d, dim_z3(Q.shape_[1]) == d - 1)))
        c, c2 = z3.Ints("c c2")
        rng = z3.And(0 <= c, c < d - 1, 0 <= c2, c2 < d - 1)
        dot_w = sigma_term(cx, lambda i: Q.fn((i, c)) * self.w(st, i), d)
        gram = sigma_term(cx, lambda i: Q.fn((i, c)) * Q.fn((i, c2)), d)
        wsq = sigma_term(cx, lambda i: self.w(st, i) * self.w(st, i), d)
        w0 = self.w(st, z3.IntVal(0))
        hints = sqrt_instances(dot_w, gram) + [wsq >= w0 * w0]     # a sum of squares dominates each of its terms
        pos = [a > 0 for a in sqrt_args(dot_w, gram)]
        res.append(("the norms |w| and |u| are non-zero (their squares are positive)", z3.Implies(z3.And(rng, *hints), z3.And(*pos))))
        hints = hints + pos                                          # proved just above under the same hypotheses
        res.append(("every returned column is orthogonal to w = G v", z3.Implies(z3.And(rng, *hints), dot_w == 0)))
        res.append(("the returned columns are orthonormal",
                    z3.Implies(z3.And(rng, *hints), gram == z3.If(c == c2, z3.RealVal(1), z3.RealVal(0)))))
        return res


class TState(Symbolic):
    """a State holding tensors by (concrete) name, used through __getitem__ / __setitem__ (their C01 contracts)"""

    def __init__(self, values):
        self.values = dict(values)
        self.writes = []

    def _getitem(self, it, k, node=None):
        if k not in self.values:
            raise OutOfSubset(f"state[{k!r}] not provided")
        return self.values[k]

    def _setitem(self, it, k, v, node=None):
        self.writes.append(k)
        self.values[k] = v


class CenterXi(Spec):
    """_center_xi_realizations: xi := xi - mean(xi), log_v0 := log_v0 + mean(xi) (joint model: also
    n_log_nu := n_log_nu + mean(xi)), nothing else written; the new log-accelerations have zero mean."""
    target = "leaspy.models.riemanian_manifold:RiemanianManifoldModel._center_xi_realizations"
    compensated = ("log_v0",)

    def setup(self, cx, cfg):
        vals = {"xi": STensor.sym(cx, "xi", (n, 1)), "log_v0": STensor.sym(cx, "log_v0", (d,)),
                "n_log_nu": STensor.sym(cx, "n_log_nu", (z3.Int("n_ev"),)), "tau": STensor.sym(cx, "tau", (n, 1))}
        state = TState(vals)
        return dict(args=(resolve(self.target.rsplit(".", 1)[0]), state), state=state, old=dict(vals))

    def pre(self, cx, st):
        return [("at least one individual", n >= 1), ("sizes", z3.And(d >= 1, z3.Int("n_ev") >= 1))]

    def post(self, cx, st, out):
        state, old = st["state"], st["old"]
        i, k = z3.Ints("i k")
        z0 = z3.IntVal(0)
        mean = sigma_term(cx, lambda j: old["xi"].fn((j, z0)), n) / z3.ToReal(n)
        res = [("exactly xi and the compensating variables are written",
                z3.BoolVal(sorted(state.writes) == sorted(("xi",) + self.compensated)))]
        xi2 = state.values["xi"]
        if isinstance(xi2, STensor) and xi2.ndim == 2:
            res.append(("xi' = xi - mean(xi)", z3.ForAll([i], xi2.fn((i, z0)) == old["xi"].fn((i, z0)) - mean)))
            res.append(("the new log-accelerations have zero mean",
                        sigma_term(cx, lambda j: xi2.fn((j, z0)), n) == 0))
        else:
            res.append(("xi keeps its layout", z3.BoolVal(False)))
        for name in self.compensated:
            new = state.values[name]
            okk = isinstance(new, STensor) and new.ndim == 1
            res.append((f"{name} keeps its layout", z3.BoolVal(okk)))
            if okk:
                res.append((f"{name}' = {name} + mean(xi)", z3.ForAll([k], new.fn((k,)) == old[name].fn((k,)) + mean)))
        return res


class CenterXiJoint(CenterXi):
    """joint model: the event scale is compensated too (n_log_nu := n_log_nu + mean(xi))."""
    target = "leaspy.models.joint:JointModel._center_xi_realizations"
    compensated = ("log_v0", "n_log_nu")


class BasisScaleInvariant(Spec):
    """two symbolic runs of the real compute_orthonormal_basis on (v, G) and (c v, G), c > 0: same basis --
    so the mixing matrix and the space shifts are unchanged when the re-centring rescales v0 by exp(mean xi)."""
    target = "leaspy.utils.linalg:compute_orthonormal_basis"

    def setup(self, cx, cfg):
        v = STensor.sym(cx, "v", (d,))
        G = STensor.sym(cx, "G", (d,))
        c = z3.Real("c_scale")
        return dict(args=(v, G), v=v, G=G, c=c)

    def pre(self, cx, st):
        k = z3.Int("k_pre")
        return [("dimension >= 2", d >= 2), ("c > 0", st["c"] > 0),
                ("positive velocities and metric", z3.ForAll([k], z3.And(st["v"].fn((k,)) > 0, st["G"].fn((k,)) > 0)))]

    def post(self, cx, st, out):
        Q1 = out.value
        v, c = st["v"], st["c"]
        v2 = STensor((d,), lambda idx: c * v.fn(idx), "real")
        Q2 = cx.it.call_function(self.func, (v2, st["G"]), {})
        ok = isinstance(Q1, STensor) and isinstance(Q2, STensor) and Q1.ndim == Q2.ndim == 2
        res = [("two matrices", z3.BoolVal(ok))]
        if ok:
            i, j = z3.Ints("i j")
            e1, e2 = Q1.fn((i, j)), Q2.fn((i, j))
            wsq = sigma_term(cx, lambda k: (st["G"].fn((k,)) * v.fn((k,))) * (st["G"].fn((k,)) * v.fn((k,))), d)
            w0 = st["G"].fn((z3.IntVal(0),)) * v.fn((z3.IntVal(0),))
            hints = sqrt_instances(e1, e2) + [wsq >= w0 * w0] + sqrt_scaling_instances(c, e1, e2)
            res.append(("same basis entry-wise", z3.Implies(z3.And(0 <= i, i < d, 0 <= j, j < d - 1, *hints), e1 == e2)))
        return res


def LEMMAS():
    """gauge lemmas over the C08 / C09 formulas (exp(a + b) = exp(a) exp(b)) and orthogonality of space shifts"""
    xi, m, lv0, t, tau, nln, x, y = z3.Reals("xi m log_v0 t tau n_log_nu x y")
    # instances of exp(a + b) = exp(a) exp(b), exp(-a) exp(a) = 1, exp > 0 at the terms that occur
    def E(a, b):
        return F_EXP(a + b) == F_EXP(a) * F_EXP(b)
    exp_add = z3.And(E(lv0, m), E(xi, -m), F_EXP(xi - m) == F_EXP(xi + (-m)), E(-nln, -m), F_EXP(-(nln + m)) == F_EXP(-nln + (-m)),
                     E(-xi, m), F_EXP(-(xi - m)) == F_EXP(-xi + m))
    exp_inv = z3.And(F_EXP(-m) * F_EXP(m) == 1, F_EXP(m) > 0)
    out = [
        ("gauge: v0 * alpha * (t - tau) is unchanged by (xi, log_v0) -> (xi - m, log_v0 + m): every trajectory and "
         "attachment term of C09 depends on xi and log_v0 only through it", [exp_add, exp_inv],
         F_EXP(lv0 + m) * (F_EXP(xi - m) * (t - tau)) == F_EXP(lv0) * (F_EXP(xi) * (t - tau))),
        ("gauge (joint model): nu * exp(-xi) is unchanged by (xi, n_log_nu) -> (xi - m, n_log_nu + m): every event "
         "likelihood term of C08 depends on them only through it", [exp_add, exp_inv],
         F_EXP(-(nln + m)) * F_EXP(-(xi - m)) == F_EXP(-nln) * F_EXP(-xi)),
    ]
    # rows of the mixing matrix A = (Q beta)^T are orthogonal to w, hence every space shift s A is:
    # sum_k (sum_c Q[k,c] beta[c,l]) w_k = sum_c beta[c,l] (sum_k Q[k,c] w_k) = 0      (exchange of finite sums)
    Qw = z3.Function("Qw", z3.IntSort(), z3.RealSort())            # c -> sum_k Q[k,c] w_k
    rowdot = z3.Function("rowdot", z3.IntSort(), z3.RealSort())    # l -> sum_k A[l,k] w_k
    lin = z3.Function("lincomb", z3.IntSort(), z3.RealSort())      # l -> sum_c beta[c,l] * Qw(c)
    c, l = z3.Ints("c l")
    out.append(("space shifts: a linear combination of columns orthogonal to w is orthogonal to w",
                [z3.ForAll([c], Qw(c) == 0),                                    # contract of compute_orthonormal_basis
                 z3.ForAll([l], rowdot(l) == lin(l)),                           # exchange of the two finite sums (assumed)
                 z3.ForAll([l], z3.Implies(z3.ForAll([c], Qw(c) == 0), lin(l) == 0))],   # a sum of zeros is zero
                rowdot(l) == 0))
    return out


UNITS = [OrthoBasis(), CenterXi(), CenterXiJoint(), BasisScaleInvariant()]
CALLEES = []
# the gauge lemma's hypothesis -- trajectories see xi only through alpha * (t - tau), for EVERY alpha -- is the contract of C09 on
# the real time_reparametrization (verified in C09's context): a cap, offset or non-linearity on alpha there fails this check too
from contracts import c09 as _c09
UNITS += [foreign(_c09.TimeReparam(), "c09")]
ASSUMPTIONS = [
    "real arithmetic: the invariances hold up to rounding in floats ('unchanged' is read as mathematical identity)",
    "square root: instances of sqrt(x)^2 = x (x >= 0), sqrt(x) > 0 (x > 0); a sum of squares dominates each of its terms",
    "exchange of two finite sums and 'a sum of zeros is zero' for the mixing-matrix lemma (stated, not derived)",
    "the State is used through __getitem__/__setitem__ (C01 contracts)",
]
NOT_DECIDED = ["that *every* linked variable depending on xi / log_v0 does so through the compensated products (stand-in: "
               "numeric invariance of all derived variables on real model states)"]
