"""C14 -- data ingestion.  Under contract (deductively): IndividualData.add_observations, the sorted insertion that makes
every individual's visits strictly increasing in age, aligned with their observations, and refuses a duplicate age.
The pandas readers and the tensor construction of Dataset are outside the verifier's subset: bounded stand-in
(exhaustive small tables x row orders x identifier types x malformation kinds)."""
import numpy as np
import z3

from pyvc.api import *
from pyvc.coll import SSeq, seq_from_list

Row = z3.DeclareSort("Row")
ROW = Codec(Row, wrap=lambda e: SV(e, "u:Row"), name="one visit's observations")
P = z3.Function("obs_of_age", z3.RealSort(), Row)     # ghost: the observations that belong to an age


def DataErr():
    from leaspy.exceptions import LeaspyDataInputError
    return LeaspyDataInputError


from pyvc.coll import member_formula as member


def add_obs_inv(cx, env, k, view):
    s = env["self"]
    T, O = s.f["timepoints"], s.f["observations"]
    g = cx.ghost
    T0, ts, m0 = g["T0"], g["ts"], g["T0"].length
    a, b, j = z3.Ints("a_i b_i j_i")
    x = z3.Real("x_i")
    ok = isinstance(T, SSeq) and isinstance(O, SSeq)
    if not ok:
        return [("time-points and observations stay arrays", z3.BoolVal(False))]
    return [("lengths", z3.And(T.length == m0 + k, O.length == m0 + k)),
            ("ages strictly increasing", z3.ForAll([a, b], z3.Implies(z3.And(0 <= a, a < b, b < T.length), T.at(a) < T.at(b)))),
            ("observations aligned with their ages", z3.ForAll([j], z3.Implies(z3.And(0 <= j, j < T.length), O.at(j) == P(T.at(j))))),
            ("ages present = initial ages + the ages consumed so far",
             z3.ForAll([x], member(T, x) == z3.Or(member(T0, x), member(ts, x, upto=k)))),
            ("no age consumed so far was already present",
             z3.ForAll([j], z3.Implies(z3.And(0 <= j, j < k), z3.And(z3.Not(member(T0, ts.at(j))), z3.Not(member(ts, ts.at(j), upto=j))))))]


class AddObservations(Spec):
    """add_observations(ages, observations) on an individual that already has visits: afterwards the ages are strictly
    increasing, contain exactly the old and the new ages, every age keeps its own observations; LeaspyDataInputError iff
    one of the new ages is already present (earlier in the call or before it)."""
    target = "leaspy.io.data.individual_data:IndividualData.add_observations"
    loops = {("IndividualData.add_observations", 0): LoopSpec(
        add_obs_inv, modifies=lambda cx, env: [(env["self"], "timepoints"), (env["self"], "observations")])}

    def setup(self, cx, cfg):
        from leaspy.io.data.individual_data import IndividualData
        T0 = SSeq(cx, REAL, "T0", pytype=np.ndarray)
        O0 = SSeq(cx, ROW, "O0", pytype=np.ndarray)
        ts = SSeq(cx, REAL, "ts", pytype=list)
        obs = SSeq(cx, ROW, "obs", pytype=list)
        cx.ghost.update(T0=T0, ts=ts)
        s = SymObj(IndividualData, dict(idx="subject", timepoints=T0, observations=O0))
        return dict(args=(s, ts, obs), self=s, T0=T0, O0=O0, ts=ts, obs=obs)

    def pre(self, cx, st):
        T0, O0, ts, obs = st["T0"], st["O0"], st["ts"], st["obs"]
        a, b, j = z3.Ints("a_p b_p j_p")
        return [("the individual already has at least one visit", T0.length >= 1), ("same lengths", z3.And(O0.length == T0.length, ts.length >= 0, obs.length == ts.length)),
                ("existing ages strictly increasing (class invariant)", z3.ForAll([a, b], z3.Implies(z3.And(0 <= a, a < b, b < T0.length), T0.at(a) < T0.at(b)))),
                ("existing observations belong to their ages", z3.ForAll([j], z3.Implies(z3.And(0 <= j, j < T0.length), O0.at(j) == P(T0.at(j))))),
                ("each new row belongs to its age", z3.ForAll([j], z3.Implies(z3.And(0 <= j, j < ts.length), obs.at(j) == P(ts.at(j)))))]

    def raises(self, cx, st):
        T0, ts = st["T0"], st["ts"]
        k = z3.Int("k_r")
        return [(DataErr(), z3.Exists([k], z3.And(0 <= k, k < ts.length, z3.Or(member(T0, ts.at(k)), member(ts, ts.at(k), upto=k)))))]

    def post(self, cx, st, out):
        s = st["self"]
        T, O = s.f["timepoints"], s.f["observations"]
        ok = isinstance(T, SSeq) and isinstance(O, SSeq)
        res = [("arrays", z3.BoolVal(ok))]
        if ok:
            a, b, j = z3.Ints("a_o b_o j_o")
            x = z3.Real("x_o")
            res += [("one visit per old and new age", T.length == st["T0"].length + st["ts"].length),
                    ("ages strictly increasing (unique, sorted)", z3.ForAll([a, b], z3.Implies(z3.And(0 <= a, a < b, b < T.length), T.at(a) < T.at(b)))),
                    ("every age keeps its own observations", z3.ForAll([j], z3.Implies(z3.And(0 <= j, j < T.length), O.at(j) == P(T.at(j))))),
                    ("ages = old ages + new ages", z3.ForAll([x], member(T, x) == z3.Or(member(st["T0"], x), member(st["ts"], x))))]
        return res


class AddFirstObservation(Spec):
    """first visit of an individual (no time-points yet): the arrays are created with that single visit."""
    target = "leaspy.io.data.individual_data:IndividualData.add_observations"

    def setup(self, cx, cfg):
        from leaspy.io.data.individual_data import IndividualData
        t = cx.real("t0")
        row = SV(z3.Const("row0", Row), "u:Row")
        s = SymObj(IndividualData, dict(idx="subject", timepoints=None, observations=None))
        return dict(args=(s, [t], [row]), self=s, t=t, row=row)

    def post(self, cx, st, out):
        s = st["self"]
        T, O = s.f["timepoints"], s.f["observations"]
        ok = isinstance(T, SSeq) and isinstance(O, SSeq)
        res = [("arrays created", z3.BoolVal(ok))]
        if ok:
            res.append(("exactly that visit", z3.And(T.length == 1, O.length == 1, T.at(0) == z(st["t"]), O.at(0) == st["row"].e)))
        return res


# ------------------------------------------------------------------------------------------------------------------
# Dataset: the padded tensors
from pyvc.core import Symbolic
from pyvc.tensor import STensor, F_ISNAN, dim_z3

NV = z3.Function("n_visits_of", z3.IntSort(), z3.IntSort())                       # ghost: visits of individual i
OBSV = z3.Function("observation", z3.IntSort(), z3.IntSort(), z3.IntSort(), z3.RealSort())   # ghost: value (i, visit, feature); NaN-ness = isnan(value)
AGE = z3.Function("age", z3.IntSort(), z3.IntSort(), z3.RealSort())


class GhostIndividual(Symbolic):
    def __init__(self, cx, i, F):
        self.cx, self.i, self.F = cx, i, F

    def _getattr(self, it, name, node=None):
        i = self.i
        if name == "timepoints":
            return SSeq(self.cx, REAL, "tp", length=NV(i), arr=z3.Lambda([z3.Int("v_tp")], AGE(i, z3.Int("v_tp"))), pytype=np.ndarray)
        if name == "observations":
            return STensor((NV(i), self.F), lambda idx: OBSV(i, idx[0], idx[1]), "real")
        raise OutOfSubset(f"IndividualData.{name}")


class GhostData(Symbolic):
    """a Data object with an unknown number of individuals, each with an unknown number of visits"""
    _symbolic_iterable = True

    def __init__(self, cx, N, F):
        self.cx, self.N, self.F = cx, N, F

    def _loop_view(self, it):
        return self.N, (lambda j: GhostIndividual(self.cx, j, self.F)), (lambda j: j)

    def _getitem(self, it, k, node=None):
        kz = to_z3(k, "int")
        if it.cx.branch(z3.Or(kz < 0, kz >= self.N), node):
            from pyvc import ops
            ops.raise_(IndexError, "individual index out of range", node=node)
        return GhostIndividual(self.cx, kz, self.F)


def construct_values_inv(cx, env, k, view):
    g = cx.ghost
    N, F = g["N"], g["F"]
    M = to_z3(env["self"].f["n_visits_max"], "int")
    vals, pad = env["values"], env["padding_mask"]
    i, v, f = z3.Ints("i_inv v_inv f_inv")
    dom = z3.And(0 <= i, i < N, 0 <= v, v < M, 0 <= f, f < F)
    done = z3.And(i < k, v < NV(i))
    return [("rows already filled hold the observations, everything else is still zero",
             z3.ForAll([i, v, f], z3.Implies(dom, vals.fn((i, v, f)) == z3.If(done, OBSV(i, v, f), z3.RealVal(0))))),
            ("padding indicator: 1 on the visits of the rows already filled, 0 elsewhere",
             z3.ForAll([i, v, f], z3.Implies(dom, pad.fn((i, v, f)) == z3.If(done, z3.RealVal(1), z3.RealVal(0)))))]


class ConstructValues(Spec):
    """Dataset._construct_values(data), up to the assignment of `self.mask` (dropped: the observation counters after it): for any
    number of individuals, visits per individual and features -- n_visits_max is the largest number of visits; entry
    (i, v, f) of `mask` is 1 exactly when v is one of individual i's visits and the observation is not NaN, else 0; entry
    (i, v, f) of `values` is the observation where the mask is 1 and 0 everywhere else (padding and missing values)."""
    target = "leaspy.io.data.dataset:Dataset._construct_values"
    fragment = (lambda t: t.startswith("self.n_visits_per_individual ="), lambda t: t.startswith("self.mask = mask"))
    loops = {("Dataset._construct_values", 0): LoopSpec(construct_values_inv, modifies=lambda cx, env: [env["values"], env["padding_mask"]])}

    def setup(self, cx, cfg):
        from leaspy.io.data.dataset import Dataset
        N, F = z3.Ints("N_ind F_ft")
        cx.ghost.update(N=N, F=F)
        cx.assume(z3.Not(F_ISNAN(z3.RealVal(0))))
        ds = SymObj(Dataset, dict(n_individuals=SV(N, "int"), dimension=SV(F, "int")))
        data = GhostData(cx, N, F)
        return dict(env={"self": ds, "data": data, "torch": __import__("torch"), "np": np}, ds=ds, N=N, F=F)

    def pre(self, cx, st):
        i = z3.Int("i_pre")
        return [("at least one individual, one feature", z3.And(st["N"] >= 1, st["F"] >= 1)),
                ("every individual has at least one visit (class invariant of Data: individuals without a visit are not kept)", z3.ForAll([i], NV(i) >= 1))]

    def post(self, cx, st, out):
        ds = st["ds"]
        N, F = st["N"], st["F"]
        M = ds.f.get("n_visits_max")
        vals, mask = ds.f.get("values"), ds.f.get("mask")
        ok = isinstance(M, SV) and isinstance(vals, STensor) and isinstance(mask, STensor) and vals.ndim == 3 and mask.ndim == 3
        res = [("n_visits_max, values and mask are set", z3.BoolVal(bool(ok)))]
        if not ok:
            return res
        Mz = M.e
        i, v, f, w = z3.Ints("i_p v_p f_p w_p")
        res.append(("n_visits_max is the largest number of visits", z3.And(z3.ForAll([i], z3.Implies(z3.And(0 <= i, i < N), NV(i) <= Mz)),
                                                                              z3.Exists([w], z3.And(0 <= w, w < N, NV(w) == Mz)))))
        res.append(("shapes (individuals, n_visits_max, features)", z3.And(*[dim_z3(a) == b for t in (vals, mask) for a, b in zip(t.shape_, (N, Mz, F))])))
        dom = z3.And(0 <= i, i < N, 0 <= v, v < Mz, 0 <= f, f < F)
        observed = z3.And(v < NV(i), z3.Not(F_ISNAN(OBSV(i, v, f))))
        res.append(("mask = 1 exactly on the observed entries (a visit of the individual, value not NaN)",
                    z3.ForAll([i, v, f], z3.Implies(dom, mask.elem_real((i, v, f)) == z3.If(observed, z3.RealVal(1), z3.RealVal(0))))))
        res.append(("values = the observation on observed entries, 0 on padding and on missing values",
                    z3.ForAll([i, v, f], z3.Implies(dom, vals.elem_real((i, v, f)) == z3.If(observed, OBSV(i, v, f), z3.RealVal(0))))))
        return res


def construct_timepoints_inv(cx, env, k, view):
    g = cx.ghost
    N = g["N"]
    tp = env["self"].f["timepoints"]
    M = to_z3(env["self"].f["n_visits_max"], "int")
    i, v = z3.Ints("i_inv v_inv")
    return [("rows already filled hold the ages, everything else is still zero",
             z3.ForAll([i, v], z3.Implies(z3.And(0 <= i, i < N, 0 <= v, v < M),
                                          tp.fn((i, v)) == z3.If(z3.And(i < k, v < NV(i)), AGE(i, v), z3.RealVal(0)))))]


class ConstructTimepoints(Spec):
    """Dataset._construct_timepoints(data): entry (i, v) of `timepoints` is the v-th age of individual i for its own visits and 0
    on the padding, for any number of individuals and visits."""
    target = "leaspy.io.data.dataset:Dataset._construct_timepoints"
    loops = {("Dataset._construct_timepoints", 0): LoopSpec(construct_timepoints_inv, modifies=lambda cx, env: [env["self"].f["timepoints"]])}

    def setup(self, cx, cfg):
        from leaspy.io.data.dataset import Dataset
        N, M = z3.Ints("N_ind M_vis")
        cx.ghost.update(N=N)
        ds = SymObj(Dataset, dict(n_individuals=SV(N, "int"), n_visits_max=SV(M, "int")))
        data = GhostData(cx, N, z3.IntVal(1))
        return dict(args=(ds, data), ds=ds, N=N, M=M)

    def pre(self, cx, st):
        i = z3.Int("i_pre")
        return [("at least one individual", st["N"] >= 1),
                ("n_visits_max bounds every individual's number of visits (established by _construct_values)",
                 z3.ForAll([i], z3.And(NV(i) >= 1, z3.Implies(z3.And(0 <= i, i < st["N"]), NV(i) <= st["M"]))))]

    def post(self, cx, st, out):
        tp = st["ds"].f.get("timepoints")
        ok = isinstance(tp, STensor) and tp.ndim == 2
        res = [("timepoints is a 2-D tensor", z3.BoolVal(bool(ok)))]
        if ok:
            i, v = z3.Ints("i_p v_p")
            res.append(("shape (individuals, n_visits_max)", z3.And(dim_z3(tp.shape_[0]) == st["N"], dim_z3(tp.shape_[1]) == st["M"])))
            res.append(("ages on the individual's own visits, 0 on the padding",
                        z3.ForAll([i, v], z3.Implies(z3.And(0 <= i, i < st["N"], 0 <= v, v < st["M"]),
                                                     tp.elem_real((i, v)) == z3.If(v < NV(i), AGE(i, v), z3.RealVal(0))))))
        return res


class EventCodeExport(Spec):
    """IndividualData._event_to_frame, the statement that turns the one-hot event flags back into the table's event code (the
    if / elif / else on `self.event_bool.sum()`; dropped: the event-time check before it and the pandas frame built after it):
    0 when no event is observed, k when exactly the k-th competing event is, LeaspyInputError when more than one is -- for EVERY flag
    vector of 1 to 4 event types (concrete vectors: the statement is loop-free, the domain is enumerated completely), so that
    re-ingesting the exported code gives the same flags back."""
    target = "leaspy.io.data.individual_data:IndividualData._event_to_frame"
    fragment = (lambda t: t.startswith("if self.event_bool.sum() == 1") or t.startswith("event_bool ="),
                lambda t: t.startswith("if self.event_bool.sum() == 1") or t.startswith("if event_bool > 1") or t.startswith("if self.event_bool.sum() > 1"))

    def configs(self):
        import itertools as _it
        return [dict(flags="".join("1" if b else "0" for b in v)) for n in (1, 2, 3, 4) for v in _it.product((False, True), repeat=n)]

    def setup(self, cx, cfg):
        from leaspy.io.data.individual_data import IndividualData
        import leaspy.io.data.individual_data as mod
        flags = np.array([c == "1" for c in cfg["flags"]], dtype=bool)
        s = SymObj(IndividualData, dict(idx="subject", event_bool=flags, event_time=np.array([70.0] * len(flags))))
        env = {"self": s, "event_time_name": "EVENT_TIME", "event_bool_name": "EVENT_BOOL"}
        for k_, v_ in vars(mod).items():
            env.setdefault(k_, v_)
        return dict(env=env, flags=flags)

    def raises(self, cx, st):
        from leaspy.exceptions import LeaspyInputError
        return [(LeaspyInputError, z3.BoolVal(int(st["flags"].sum()) > 1))]

    def post(self, cx, st, out):
        want = 0 if not st["flags"].any() else int(np.where(st["flags"])[0][0]) + 1
        got = out.value.get("event_bool")
        try:
            same = int(got) == want and not isinstance(got, bool)
        except Exception:
            same = False
        return [(f"exported code = {want} (0: censored, k: the k-th event observed)", z3.BoolVal(bool(same)))]


UNITS = [AddObservations(), AddFirstObservation(), ConstructValues(), ConstructTimepoints(), EventCodeExport()]
CALLEES = []
ASSUMPTIONS = ["Dataset tensors in real arithmetic: an observation's NaN-ness is the uninterpreted predicate isnan(value), isnan(0) is false; "
               "torch.tensor(np.array(observations)) holds the observations entry by entry (float32 rounding not modelled)",
               "ages are real numbers (not NaN): established by the reader's _check_TIME before add_observations is reached",
               "bisect on a sorted array returns the insertion point after the entries <= x; np.concatenate / slicing on 1-D arrays as sequence operations"]
NOT_DECIDED = ["the pandas readers and Dataset.to_pandas: bounded stand-in only"]
