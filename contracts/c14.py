"""C14 -- data ingestion.  Under contract (deductively): IndividualData.add_observations, the sorted insertion that makes
every individual's visits strictly increasing in age, aligned with their observations, and refuses a duplicate age.
The pandas readers and the tensor construction of Dataset are outside the verifier's subset: bounded stand-in
(exhaustive small tables x row orders x identifier types x malformation kinds)."""
import numpy as np
import z3

from pyvc.api import *
from pyvc.coll import SSeq, seq_from_list

Row = z3.DeclareSort("Row")
ROW = Codec(Row, wrap=lambda e: SV(e, "u:Row"), name="one visit's observations")
P = z3.Function("obs_of_age", z3.RealSort(), Row)     # ghost: the observations that belong to an age


def DataErr():
    from leaspy.exceptions import LeaspyDataInputError
    return LeaspyDataInputError


from pyvc.coll import member_formula as member


def add_obs_inv(cx, env, k, view):
    s = env["self"]
    T, O = s.f["timepoints"], s.f["observations"]
    g = cx.ghost
    T0, ts, m0 = g["T0"], g["ts"], g["T0"].length
    a, b, j = z3.Ints("a_i b_i j_i")
    x = z3.Real("x_i")
    ok = isinstance(T, SSeq) and isinstance(O, SSeq)
    if not ok:
        return [("time-points and observations stay arrays", z3.BoolVal(False))]
    return [("lengths", z3.And(T.length == m0 + k, O.length == m0 + k)),
            ("ages strictly increasing", z3.ForAll([a, b], z3.Implies(z3.And(0 <= a, a < b, b < T.length), T.at(a) < T.at(b)))),
            ("observations aligned with their ages", z3.ForAll([j], z3.Implies(z3.And(0 <= j, j < T.length), O.at(j) == P(T.at(j))))),
            ("ages present = initial ages + the ages consumed so far",
             z3.ForAll([x], member(T, x) == z3.Or(member(T0, x), member(ts, x, upto=k)))),
            ("no age consumed so far was already present",
             z3.ForAll([j], z3.Implies(z3.And(0 <= j, j < k), z3.And(z3.Not(member(T0, ts.at(j))), z3.Not(member(ts, ts.at(j), upto=j))))))]


class AddObservations(Spec):
    """add_observations(ages, observations) on an individual that already has visits: afterwards the ages are strictly
    increasing, contain exactly the old and the new ages, every age keeps its own observations; LeaspyDataInputError iff
    one of the new ages is already present (earlier in the call or before it)."""
    target = "leaspy.io.data.individual_data:IndividualData.add_observations"
    loops = {("IndividualData.add_observations", 0): LoopSpec(
        add_obs_inv, modifies=lambda cx, env: [(env["self"], "timepoints"), (env["self"], "observations")])}

    def setup(self, cx, cfg):
        from leaspy.io.data.individual_data import IndividualData
        T0 = SSeq(cx, REAL, "T0", pytype=np.ndarray)
        O0 = SSeq(cx, ROW, "O0", pytype=np.ndarray)
        ts = SSeq(cx, REAL, "ts", pytype=list)
        obs = SSeq(cx, ROW, "obs", pytype=list)
        cx.ghost.update(T0=T0, ts=ts)
        s = SymObj(IndividualData, dict(idx="subject", timepoints=T0, observations=O0))
        return dict(args=(s, ts, obs), self=s, T0=T0, O0=O0, ts=ts, obs=obs)

    def pre(self, cx, st):
        T0, O0, ts, obs = st["T0"], st["O0"], st["ts"], st["obs"]
        a, b, j = z3.Ints("a_p b_p j_p")
        return [("the individual already has at least one visit", T0.length >= 1), ("same lengths", z3.And(O0.length == T0.length, ts.length >= 0, obs.length == ts.length)),
                ("existing ages strictly increasing (class invariant)", z3.ForAll([a, b], z3.Implies(z3.And(0 <= a, a < b, b < T0.length), T0.at(a) < T0.at(b)))),
                ("existing observations belong to their ages", z3.ForAll([j], z3.Implies(z3.And(0 <= j, j < T0.length), O0.at(j) == P(T0.at(j))))),
                ("each new row belongs to its age", z3.ForAll([j], z3.Implies(z3.And(0 <= j, j < ts.length), obs.at(j) == P(ts.at(j)))))]

    def raises(self, cx, st):
        T0, ts = st["T0"], st["ts"]
        k = z3.Int("k_r")
        return [(DataErr(), z3.Exists([k], z3.And(0 <= k, k < ts.length, z3.Or(member(T0, ts.at(k)), member(ts, ts.at(k), upto=k)))))]

    def post(self, cx, st, out):
        s = st["self"]
        T, O = s.f["timepoints"], s.f["observations"]
        ok = isinstance(T, SSeq) and isinstance(O, SSeq)
        res = [("arrays", z3.BoolVal(ok))]
        if ok:
            a, b, j = z3.Ints("a_o b_o j_o")
            x = z3.Real("x_o")
            res += [("one visit per old and new age", T.length == st["T0"].length + st["ts"].length),
                    ("ages strictly increasing (unique, sorted)", z3.ForAll([a, b], z3.Implies(z3.And(0 <= a, a < b, b < T.length), T.at(a) < T.at(b)))),
                    ("every age keeps its own observations", z3.ForAll([j], z3.Implies(z3.And(0 <= j, j < T.length), O.at(j) == P(T.at(j))))),
                    ("ages = old ages + new ages", z3.ForAll([x], member(T, x) == z3.Or(member(st["T0"], x), member(st["ts"], x))))]
        return res


class AddFirstObservation(Spec):
    """first visit of an individual (no time-points yet): the arrays are created with that single visit."""
    target = "leaspy.io.data.individual_data:IndividualData.add_observations"

    def setup(self, cx, cfg):
        from leaspy.io.data.individual_data import IndividualData
        t = cx.real("t0")
        row = SV(z3.Const("row0", Row), "u:Row")
        s = SymObj(IndividualData, dict(idx="subject", timepoints=None, observations=None))
        return dict(args=(s, [t], [row]), self=s, t=t, row=row)

    def post(self, cx, st, out):
        s = st["self"]
        T, O = s.f["timepoints"], s.f["observations"]
        ok = isinstance(T, SSeq) and isinstance(O, SSeq)
        res = [("arrays created", z3.BoolVal(ok))]
        if ok:
            res.append(("exactly that visit", z3.And(T.length == 1, O.length == 1, T.at(0) == z(st["t"]), O.at(0) == st["row"].e)))
        return res


UNITS = [AddObservations(), AddFirstObservation()]
CALLEES = []
ASSUMPTIONS = ["ages are real numbers (not NaN): established by the reader's _check_TIME before add_observations is reached",
               "bisect on a sorted array returns the insertion point after the entries <= x; np.concatenate / slicing on 1-D arrays as sequence operations"]
NOT_DECIDED = ["the pandas readers, Dataset._construct_values / _construct_timepoints, Dataset.to_pandas: bounded stand-in only"]
