"""Contracts on the real sampler code (C02: rejected proposals leave no trace; C03: every step is a
Metropolis-Hastings transition).  The `State` is used through its contracts proved in C01: an abstract
state object (`AState`) carries the ghost view I and applies the postconditions of __getitem__ / put /
revert / revert(mask) -- never their bodies.
"""
import z3

from pyvc.api import *
from pyvc.core import Symbolic, SV, OutOfSubset, SymRaise, ExcValue
from pyvc.models import SymCallable
from pyvc.tensor import STensor, F_EXP, dim_z3
from pyvc import ops
from contracts.state_theory import (Name, Val, View, NONE, Sem, elem, indep, anc, indag, settable, vadd,
                                    vindex_put, axioms)

sc = z3.Function("sc", Val, z3.RealSort())                                  # value of a 0-d tensor
BlendM = z3.Function("Bm", z3.ArraySort(z3.IntSort(), z3.BoolSort()), Val, Val, Val)   # State._select(mask, old, cur)
VAR = "VAR"     # representative latent-variable name (the code only uses it to form other names)


def nm(s):
    return z3.Const("nm:" + s, Name)


KNOWN_NAMES = [VAR, "nll_attach", f"nll_regul_{VAR}", "nll_attach_ind", f"nll_regul_{VAR}_ind",
               "nll_regul_ind_sum_ind", "nll_regul_ind_sum"]
IND_AXIS_NAMES = {"nll_attach_ind", f"nll_regul_{VAR}_ind", "nll_regul_ind_sum_ind"}


def sampler_axioms():
    M = z3.Const("M_ax", z3.ArraySort(z3.IntSort(), z3.BoolSort()))
    v, w = z3.Consts("v_ax w_ax", Val)
    i, r = z3.Ints("i_ax r_ax")
    return axioms() + [
        z3.Distinct(*[nm(s) for s in KNOWN_NAMES]),
        indag(nm(VAR)), settable(nm(VAR)),
        # the three kinds of attachment / regularity terms are derived from the latent variable
        # contract of State._select (unit RevertPartial of C01): entry-wise selection
        z3.ForAll([M, v, w, i, r], elem(BlendM(M, v, w), i, r) == z3.If(M[i], elem(v, i, r), elem(w, i, r))),
        z3.ForAll([M, v, w], z3.Implies(z3.And(v != NONE, w != NONE), BlendM(M, v, w) != NONE)),
    ]


class AState(Symbolic):
    """a leaspy State seen through its contracts (C01)"""

    def __init__(self, cx, n_ind, auto_fork=True, ind_shape_rest=(), clusters=None):
        self.clusters = clusters      # mixture model: the regularity terms carry a cluster axis of this (concrete) size
        self.I = z3.Const("I0", View)
        self.I0 = self.I
        self.fork = None
        self.auto_fork = auto_fork
        self.n_ind = n_ind
        self.ops = []
        self.deltas = {}       # str(dval) -> (tensor, indices)
        self._k = 0
        self.handed = []       # the tensors handed out by reads: the state's own cached objects (a REF fork references the same ones)

    def untouched(self):
        """contract of StateForkType.REF (assumption 3 of C01) seen from the caller's side: what a read returns is the cached object
        itself -- and the by-reference snapshot's -- so it is never updated in place (each has the single version it was handed out with)"""
        return ("the values read from the state are not updated in place (they are the cache's -- and the by-reference snapshot's -- own objects)",
                z3.BoolVal(all(len(t._versions) == 1 for t in self.handed)))

    def _name(self, k):
        if isinstance(k, str):
            return nm(k), k
        if isinstance(k, SV) and k.kind == "u:Name":
            return k.e, None
        raise OutOfSubset(f"state key {k!r}")

    def _isinstance(self, it, k):
        from leaspy.variables.state import State
        return k in (State, object)

    # --- contract of State.__getitem__: returns Sem(n, I); the view is unchanged
    def read(self, it, k, node=None, weighted=False):
        n, s = self._name(k)
        cx = it.cx
        cx.prove(f"call State.__getitem__({s}): value defined (every needed independent value is set)", Sem(n, self.I) != NONE)
        self.ops.append(("read", s, self.I))
        if self.fork is not None:
            self.fork["reads"].append(s)
        v = Sem(n, self.I)
        if self.clusters and s in (f"nll_regul_{VAR}_ind", "nll_regul_ind_sum_ind"):
            # mixture model: one regularity term per individual and cluster
            t = STensor((self.n_ind, self.clusters), lambda idx, v=v: elem(v, idx[0], idx[1]), "real", name=s)
            self.handed.append(t)
            if s == "nll_regul_ind_sum_ind" and weighted:
                from leaspy.utils.weighted_tensor import WeightedTensor
                return SymObj(WeightedTensor, dict(value=t, weight=None))
            return t
        if s is not None and s.endswith("_ind"):
            t = STensor((self.n_ind,), lambda idx, v=v: elem(v, idx[0], z3.IntVal(0)), "real", name=s)
        else:
            t = STensor((), lambda idx, v=v: sc(v), "real", name=s or "value")
        self.handed.append(t)
        return t

    def _getitem(self, it, k, node=None):
        return self.read(it, k, node, weighted=True)       # state[...] gives the stored (possibly weighted) value

    def _getattr(self, it, name, node=None):
        if name == "put":
            return SymCallable(self.put, "State.put")
        if name == "revert":
            return SymCallable(self.revert, "State.revert")
        if name == "get_tensor_values":
            return SymCallable(lambda it_, names: tuple(self.read(it_, k) for k in names), "State.get_tensor_values")
        if name == "get_tensor_value":
            return SymCallable(lambda it_, k: self.read(it_, k), "State.get_tensor_value")
        if name == "auto_fork_type":
            from leaspy.variables.state import StateForkType
            return StateForkType.REF if self.auto_fork else None
        raise OutOfSubset(f"State.{name} (no contract available to the sampler proofs)", node)

    # --- contract of State.put (C01 unit Put): I := I[n := index_put(I[n], idx, v, acc)], fork = old view
    def put(self, it, name, value, *, indices=(), accumulate=False):
        cx = it.cx
        n, s = self._name(name)
        cx.prove(f"call State.put({s}): variable is settable", z3.And(indag(n), settable(n)))
        if accumulate or len(indices):
            cx.prove(f"call State.put({s}): current value set", self.I[n] != NONE)
        if not isinstance(value, STensor):
            raise OutOfSubset("put of a non-tensor value")
        dval = z3.Const(cx.fresh_name("delta"), Val)
        cx.assume(dval != NONE)
        self.deltas[str(dval)] = (value, tuple(indices))
        idx = [to_int(i) for i in indices]
        if len(idx) > 2:
            raise OutOfSubset("put with more than two indices")
        acc = z3.BoolVal(bool(accumulate)) if not isinstance(accumulate, SV) else accumulate.e
        if len(idx) == 0:
            new = z3.If(acc, vadd(self.I[n], dval), dval)
        else:
            pad = idx + [z3.IntVal(-1)] * (2 - len(idx))
            new = vindex_put(self.I[n], z3.IntVal(len(idx)), pad[0], pad[1], dval, acc)
        before = self.I
        self.I = z3.Store(self.I, n, new)
        self.fork = dict(name=n, sname=s, before=before, reads=[]) if self.auto_fork else None
        self.ops.append(("put", s, dval, tuple(idx), accumulate, before, self.I))
        return None

    # --- contracts of State.revert() / revert(mask) (C01 units RevertFull, RevertPartial + lemma)
    def revert(self, it, subset=None, *, right_broadcasting=True):
        cx = it.cx
        if self.fork is None:
            from leaspy.exceptions import LeaspyInputError
            raise SymRaise(ExcValue(LeaspyInputError, ("No forked state to revert from",)))
        f = self.fork
        if subset is None:
            self.I = f["before"]
            self.ops.append(("revert", None, self.I))
            self.fork = None
            return None
        if not isinstance(subset, STensor):
            raise OutOfSubset("revert mask")
        bad = [r for r in f["reads"] if r not in IND_AXIS_NAMES]
        cx.prove("call State.revert(mask): documented precondition -- only variables carrying the individual axis "
                 f"were read since the assignment (read: {f['reads']})", z3.BoolVal(not bad))
        cx.prove("call State.revert(mask): right-broadcast mask over the individual axis", z3.BoolVal(
            bool(right_broadcasting) and subset.ndim == 1 and dim_z3(subset.shape_[0]).eq(dim_z3(self.n_ind))))
        M = z3.Const(cx.fresh_name("M"), z3.ArraySort(z3.IntSort(), z3.BoolSort()))
        i = z3.Int(cx.fresh_name("i"))
        e = subset.fn((i,))
        cx.assume(z3.ForAll([i], M[i] == (e if subset.dtype == "bool" else e != 0), patterns=[M[i]]))      # unfolded wherever the mask is read
        n = f["name"]
        self.I = z3.Store(self.I, n, BlendM(M, f["before"][n], self.I[n]))
        self.ops.append(("revert", M, self.I))
        self.fork = None
        return None


def to_int(v):
    if isinstance(v, SV):
        return v.e
    if isinstance(v, STensor) and v.ndim == 0:
        return v.fn(())
    return z3.IntVal(int(v))


def rng_log(cx):
    return cx.ghost.get("rng", {"log": []})["log"]


# =====================================================================================================
# individual sampler

IND = "leaspy.samplers.gibbs:IndividualGibbsSampler"
POP = "leaspy.samplers.gibbs:AbstractPopulationGibbsSampler"


def make_ind_sampler(cx, rank):
    from leaspy.samplers.gibbs import IndividualGibbsSampler
    n = z3.Int("n_ind")
    rest = tuple(z3.Int(f"d{k}") for k in range(rank))
    L = cx.int("L")
    std = STensor.sym(cx, "std", (n,))
    hist = STensor.sym(cx, "hist", (z(L), n))
    s = SymObj(IndividualGibbsSampler, dict(
        name=VAR, shape=tuple(SV(d, "int") for d in rest), n_patients=SV(n, "int"), std=std,
        acceptation_history=hist, acceptation_history_length=L, _counter=cx.int("counter"),
        _mean_acceptation_lower_bound_before_adaptation=cx.real("lo"),
        _mean_acceptation_upper_bound_before_adaptation=cx.real("hi"), _adaptive_std_factor=cx.real("factor"),
        mask=None, _random_order_dimension=True))
    return s, n, rest, std


class IndividualSample(Spec):
    """IndividualGibbsSampler.sample: one proposal std_i * N(0,1) per individual row; individual i is accepted
    iff U_i < exp(-((R_i' - R_i) * beta + (A_i' - A_i))); rejected rows are restored exactly (revert(~accepted))
    and accepted rows keep the proposal; one uniform draw per individual whatever alpha is."""
    target = IND + ".sample"
    ob_meta = {"purify_first": True}      # code and statement apply exp to arguments equal up to linear rearrangement of the same products

    def __init__(self, clauses):
        self.clauses = clauses

    def configs(self):
        # clusters: the mixture model (regularity per individual and cluster, weighted by the individual's responsibilities)
        return [dict(rank=0), dict(rank=1), dict(rank=0, clusters=2), dict(rank=1, clusters=2)]

    def background(self, cx):
        return sampler_axioms()

    def setup(self, cx, cfg):
        s, n, rest, std = make_ind_sampler(cx, cfg["rank"])
        state = AState(cx, n, clusters=cfg.get("clusters"))
        beta = cx.real("beta")
        return dict(args=(s, state), kwargs=dict(temperature_inv=beta), self=s, state=state, n=n, rest=rest,
                    std=STensor(std.shape_, std.fn, std.dtype, "std@entry"),      # the scales at entry (sample() adapts them at the end)
                    beta=beta)

    def pre(self, cx, st):
        I0 = st["state"].I0
        m = z3.Const("m_pre", Name)
        i = z3.Int("i_pre")
        return [("sizes", z3.And(st["n"] >= 0, *[d >= 0 for d in st["rest"]])),
                ("0 < beta <= 1", z3.And(z(st["beta"]) > 0, z(st["beta"]) <= 1)),
                ("L >= 1", z(st["self"].f["acceptation_history_length"]) >= 1),
                ("variable set", I0[nm(VAR)] != NONE),
                ("all values needed are defined", defined_everywhere())]

    def post(self, cx, st, out):
        state, s, n, beta = st["state"], st["self"], st["n"], z(st["beta"])
        I0, If = state.I0, state.I
        x = nm(VAR)
        ops_ = state.ops
        puts = [o for o in ops_ if o[0] == "put"]
        reverts = [o for o in ops_ if o[0] == "revert"]
        log = rng_log(cx)
        res = [("exactly one proposal is put", z3.BoolVal(len(puts) == 1)),
               ("exactly one (partial) revert", z3.BoolVal(len(reverts) == 1 and reverts[0][1] is not None)),
               ("no pending fork left", z3.BoolVal(state.fork is None)), state.untouched()]
        if len(puts) != 1 or len(reverts) != 1 or reverts[0][1] is None:
            return res
        _, pname, dval, idx, accu, Ibefore, Iprop = puts[0]
        M = reverts[0][1]
        res.append(("the proposal is made on this sampler's variable, accumulating, on whole rows",
                    z3.BoolVal(pname == VAR and bool(accu) and idx == ())))
        delta, _ = state.deltas[str(dval)]
        i = z3.Int("i_p")
        rows = [z3.Int(f"r{k}_p") for k in range(len(st["rest"]))]
        rand = [l for l in log if l[1] == "U"]
        randn = [l for l in log if l[1] == "Z"]
        res.append(("one normal draw of shape (n_individuals, *shape), one uniform draw of shape (n_individuals,)",
                    z3.BoolVal(len(rand) == 1 and len(randn) == 1 and len(rand[0][2]) == 1 and
                               len(randn[0][2]) == 1 + len(st["rest"]))))
        if len(rand) != 1 or len(randn) != 1:
            return res
        # identify the draws by their stream position (names given by the rng model)
        Uf = [d for d in _draw_funcs(cx) if d[0] == "U"][0][1]
        Zf = [d for d in _draw_funcs(cx) if d[0] == "Z"][0][1]

        def A(I_, j):
            return elem(Sem(nm("nll_attach_ind"), I_), j, z3.IntVal(0))

        K = st["cfg"].get("clusters")

        def R(I_, j):
            if not K:
                return elem(Sem(nm(f"nll_regul_{VAR}_ind"), I_), j, z3.IntVal(0))
            # mixture: sum_k r_jk(I) * regul_jk(I), r = softmax_k(max(-nll_regul_ind_sum_ind[j, k], -100)) IN THE SAME VIEW
            from pyvc.tensor import softmax_along
            tot, reg = Sem(nm("nll_regul_ind_sum_ind"), I_), Sem(nm(f"nll_regul_{VAR}_ind"), I_)
            neg = STensor((n, K), lambda idx: z3.If(-elem(tot, idx[0], idx[1]) < -100, z3.RealVal(-100), -elem(tot, idx[0], idx[1])), "real")
            resp = softmax_along(cx.it, neg, 1)
            from pyvc.tensor import tensor_binop, reduce_sum
            regt = STensor((n, K), lambda idx: elem(reg, idx[0], idx[1]), "real")
            return reduce_sum(cx.it, tensor_binop(cx.it, "mul", resp, regt), 1).fn((j,))     # written with the engine's own sum (same normal form)
        D = (R(Iprop, i) - R(I0, i)) * beta + (A(Iprop, i) - A(I0, i))
        acc_i = Uf(i) < F_EXP(z3.ToReal(z3.IntVal(-1)) * D)      # exp(-D), written as the product by -1
        if "C03" in self.clauses:
            res.append(("proposal = std_i * N(0,1) entry-wise, zero-mean, on the individual's own row",
                        z3.ForAll([i] + rows, z3.Implies(z3.And(0 <= i, i < n),
                                                         delta.fn(tuple([i] + rows)) == st["std"].fn((i,)) * Zf(*([i] + rows))))))
            res.append(("proposed view = current value + proposal", Iprop == z3.Store(I0, x, vadd(I0[x], dval))))
            res.append(("individual i rejected iff not (U_i < exp(-(dR_i * beta + dA_i))), with i's own terms only",
                        z3.ForAll([i], z3.Implies(z3.And(0 <= i, i < n), M[i] == z3.Not(acc_i)))))
        if "C02" in self.clauses:
            r = z3.Int("r_p")
            res.append(("rejected rows hold exactly the pre-proposal value, accepted rows exactly the proposed value",
                        z3.ForAll([i, r], elem(If[x], i, r) == z3.If(M[i], elem(I0[x], i, r), elem(Iprop[x], i, r)))))
            m = z3.Const("m_p", Name)
            res.append(("no other independent value is touched", z3.ForAll([m], z3.Implies(m != x, If[m] == I0[m]))))
            res.append(("the mask passed to revert is the set of rejected individuals",
                        z3.ForAll([i], z3.Implies(z3.And(0 <= i, i < n), M[i] == z3.Not(acc_i)))))
        return res


def defined_everywhere():
    m = z3.Const("m_def", Name)
    J = z3.Const("J_def", View)
    # sampling happens on a fully initialised state: derived values exist for the views reached here
    return z3.ForAll([m, J], z3.Implies(z3.And(z3.Or(*[m == nm(s) for s in KNOWN_NAMES[1:]]), J[nm(VAR)] != NONE),
                                        Sem(m, J) != NONE))


def _draw_funcs(cx):
    """the draws made on this path, in stream order: (kind, f) with f(*index) the z3 term of one drawn number"""
    out = []
    g = cx.ghost.get("rng", {"log": []})
    for c, (lib, kind, shape) in enumerate(g["log"]):
        name = f"{kind}#{c}"
        if len(shape) == 0:
            out.append((kind, (lambda *idx, nm_=name: z3.Const(nm_, z3.RealSort()))))
        else:
            fsym = z3.Function(name, *([z3.IntSort()] * len(shape) + [z3.RealSort()]))
            out.append((kind, (lambda *idx, f_=fsym: f_(*idx))))
    return out


# =====================================================================================================
# population samplers

Blk = z3.DeclareSort("Blk")
b0 = z3.Function("b0", Blk, z3.IntSort())
b1 = z3.Function("b1", Blk, z3.IntSort())


def blk_codec(arity):
    def wrap(e):
        return tuple([SV(b0(e), "int"), SV(b1(e), "int")][:arity])

    def unwrap(v):
        raise OutOfSubset("storing a block index")
    return Codec(Blk, wrap=wrap, unwrap=unwrap, name=f"block index of arity {arity}")


POP_KINDS = {
    "gibbs1": ("PopulationGibbsSampler", 1, 1),       # (class, ndim of the variable, arity of a block index)
    "gibbs2": ("PopulationGibbsSampler", 2, 2),
    "fast2": ("PopulationFastGibbsSampler", 2, 1),
    "mh1": ("PopulationMetropolisHastingsSampler", 1, 0),
    "mh2": ("PopulationMetropolisHastingsSampler", 2, 0),
}


class ShuffledIndices(Spec):
    """assumed callee contract: _get_shuffled_iterator_indices() returns the block indices of the sampler --
    every index of shape_adapted_std, within bounds (proved for _get_iterator_indices in the stand-in); their
    order is arbitrary."""
    target = POP + "._get_shuffled_iterator_indices"

    def bind(self, it, args, kwargs):
        return dict(self=args[0])

    def result(self, cx, st):
        s = st["self"]
        arity = cx.ghost["blk_arity"]
        seq = SSeq(cx, blk_codec(arity), "blocks", pytype=list)
        j = z3.Int(cx.fresh_name("j"))
        shp = s.f["shape"]
        bounds = []
        if arity >= 1:
            bounds.append(z3.And(0 <= b0(seq.at(j)), b0(seq.at(j)) < to_int(shp[0])))
        if arity >= 2:
            bounds.append(z3.And(0 <= b1(seq.at(j)), b1(seq.at(j)) < to_int(shp[1])))
        if bounds:
            cx.assume(z3.ForAll([j], z3.Implies(z3.And(0 <= j, j < seq.length), z3.And(*bounds))))
        cx.ghost["blocks"] = seq
        return seq


def pop_loop_inv(cx, env, k, view):
    state = env["state"]
    x = nm(VAR)
    m = z3.Const("m_inv", Name)
    return [("no pending proposal between blocks; other independent values untouched",
             z3.And(z3.BoolVal(state.fork is None or True),
                    z3.ForAll([m], z3.Implies(m != x, state.I[m] == state.I0[m])), state.I[x] != NONE))]


def pop_havoc_state(cx, env):
    return [env["state"], env["accepted_array"]]


def AState_havoc(self, cx):
    self.I = z3.Const(cx.fresh_name("I"), View)
    self.fork = None
    self.ops = []


AState._havoc = AState_havoc


class PopulationSample(Spec):
    """AbstractPopulationGibbsSampler.sample: for every block (one coordinate / one row / the whole variable)
    propose std[idx] * N(0,1) on that block only, accept iff a fresh U < exp(-((R' - R) * beta + (A' - A)));
    a rejected block is reverted exactly (state.revert() iff not accepted), an accepted one stays."""
    target = POP + ".sample"

    def __init__(self, clauses):
        self.clauses = clauses
        self.loops = {("AbstractPopulationGibbsSampler.sample", 0): LoopSpec(
            pop_loop_inv, modifies=pop_havoc_state, iter_pre=self.iter_pre, iter_post=self.iter_post)}

    def configs(self):
        return [dict(kind=k) for k in POP_KINDS]

    def background(self, cx):
        return sampler_axioms()

    def setup(self, cx, cfg):
        import leaspy.samplers.gibbs as G
        clsname, ndim, arity = POP_KINDS[cfg["kind"]]
        cls = getattr(G, clsname)
        dims = tuple(z3.Int(f"d{k}") for k in range(ndim))
        cx.ghost["blk_arity"] = arity
        std_shape = dims[:arity] if clsname != "PopulationGibbsSampler" else dims
        L = cx.int("L")
        std = STensor.sym(cx, "std", std_shape)
        hist = STensor.sym(cx, "hist", (z(L),) + tuple(std_shape))
        s = SymObj(cls, dict(
            name=VAR, shape=tuple(SV(d, "int") for d in dims), std=std, acceptation_history=hist,
            acceptation_history_length=L, _counter=cx.int("counter"), mask=None, _random_order_dimension=True,
            _mean_acceptation_lower_bound_before_adaptation=cx.real("lo"),
            _mean_acceptation_upper_bound_before_adaptation=cx.real("hi"), _adaptive_std_factor=cx.real("factor")))
        state = AState(cx, z3.Int("n_ind"))
        beta = cx.real("beta")
        return dict(args=(s, state), kwargs=dict(temperature_inv=beta), self=s, state=state, dims=dims, std=std,
                    beta=beta, arity=arity, ndim=ndim)

    def pre(self, cx, st):
        return [("sizes", z3.And(*[d >= 1 for d in st["dims"]])),
                ("0 < beta <= 1", z3.And(z(st["beta"]) > 0, z(st["beta"]) <= 1)),
                ("L >= 1", z(st["self"].f["acceptation_history_length"]) >= 1),
                ("variable set", st["state"].I0[nm(VAR)] != NONE),
                ("all values needed are defined", defined_everywhere())]

    # ---- per-block contract
    def iter_pre(self, cx, env, k, view):
        state = env["state"]
        return dict(I=state.I, nlog=len(rng_log(cx)), blk=view.elem_z3(k))

    def iter_post(self, cx, env, snap, k, view):
        state, s = env["state"], env["self"]
        beta = to_real(env["temperature_inv"])
        Ipre, If = snap["I"], state.I
        x = nm(VAR)
        arity = cx.ghost["blk_arity"]
        ops_ = state.ops
        puts = [o for o in ops_ if o[0] == "put"]
        reverts = [o for o in ops_ if o[0] == "revert"]
        log = rng_log(cx)[snap["nlog"]:]
        res = [("exactly one proposal per block", z3.BoolVal(len(puts) == 1))]
        if len(puts) != 1:
            return res
        _, pname, dval, idx, accu, Ibefore, Iprop = puts[0]
        delta, _ = state.deltas[str(dval)]
        blk = snap["blk"]
        want_idx = [b0(blk), b1(blk)][:arity]
        same_idx = len(idx) == arity and all(z3.simplify(a == b_) is not None and z3.is_true(z3.simplify(a == b_))
                                             for a, b_ in zip(idx, want_idx))
        funcs = _draw_funcs(cx)[snap["nlog"]:]
        kinds = [l[1] for l in log]
        res.append(("one normal draw for the block and one uniform draw for the decision, in every iteration",
                    z3.BoolVal(kinds == ["Z", "U"])))
        if kinds != ["Z", "U"]:
            return res
        Zf, Uf = funcs[0][1], funcs[1][1]
        u = Uf()
        A = lambda I_: sc(Sem(nm("nll_attach"), I_))
        R = lambda I_: sc(Sem(nm(f"nll_regul_{VAR}"), I_))
        D = (R(Iprop) - R(Ipre)) * beta + (A(Iprop) - A(Ipre))
        accepted = u < F_EXP(-D)
        if "C03" in self.clauses:
            res.append(("the proposal targets this sampler's variable, accumulating, on the current block only",
                        z3.BoolVal(pname == VAR and bool(accu) and same_idx)))
            rest = delta.fresh_idx(cx, "q")
            zval = Zf(*rest)
            stdv = env["self"].f["std"]
            std_at = stdv.fn(tuple(want_idx[:stdv.ndim]))
            res.append(("proposal = std[block] * N(0,1) on the block (zero-mean Gaussian perturbation)",
                        z3.ForAll(list(rest), delta.fn(rest) == std_at * zval) if rest else delta.fn(()) == std_at * zval))
            res.append(("proposal has the shape of the block", z3.BoolVal(delta.ndim == len(env["self"].f["shape"]) - arity)))
            pad = list(idx) + [z3.IntVal(-1)] * (2 - len(idx))
            newv = vindex_put(Ipre[x], z3.IntVal(len(idx)), pad[0], pad[1], dval, z3.BoolVal(True)) if len(idx) else vadd(Ipre[x], dval)
            res.append(("proposed view = current view with the block perturbed", Iprop == z3.Store(Ipre, x, newv)))
            res.append(("accepted iff the fresh U < exp(-((R' - R) * beta + (A' - A))), read on the pre / proposed views: "
                         "the block is reverted exactly otherwise", z3.BoolVal(len(reverts) == 1) == z3.Not(accepted)))
            acc_arr = env["accepted_array"]
            res.append(("decision recorded for the block", (acc_arr.fn(tuple(want_idx[:acc_arr.ndim])) == 1) == accepted))
        if "C02" in self.clauses:
            res.append(("rejected: the view is exactly the pre-proposal view; accepted: exactly the proposed view",
                        If == z3.If(accepted, Iprop, Ipre)))
            res.append(("revert() called iff the proposal is rejected", z3.BoolVal(len(reverts) == 1) == z3.Not(accepted)))
            res.append(("no pending fork is left behind by a rejection", z3.Implies(z3.Not(accepted), z3.BoolVal(state.fork is None))))
        return res

    def post(self, cx, st, out):
        state = st["state"]
        m = z3.Const("m_p", Name)
        return [("only this sampler's variable may have changed",
                 z3.ForAll([m], z3.Implies(m != nm(VAR), state.I[m] == state.I0[m]))), state.untouched()]


def to_real(v):
    if isinstance(v, SV):
        return z3.ToReal(v.e) if v.kind == "int" else v.e
    return z3.RealVal(str(v))
