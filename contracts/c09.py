"""C09 -- individual trajectories follow the documented closed form.

Pointwise contracts (tensors of any size) on the real model functions: time_reparametrization, the metric and
model_with_sources / model_no_sources of the logistic, linear and shared-speed logistic models; lemmas
(from the sigmoid facts of the axiom table): range [0,1], monotone in age, value 1/(1+g) at the reference time."""
import z3

from pyvc.api import *
from pyvc.tensor import STensor, F_EXP, F_LOG, F_SIGMOID

n, v, f = z3.Ints("n_ind n_vis n_ft")


def WT(value, weight=None):
    from leaspy.utils.weighted_tensor import WeightedTensor
    return SymObj(WeightedTensor, dict(value=value, weight=weight))


def weights_nonneg(st):
    w = st["w"]
    i, j = z3.Ints("i_w j_w")
    return ("weights are 0/1 flags (visit present)", z3.ForAll([i, j], z3.Or(w.fn((i, j)) == 0, w.fn((i, j)) == 1)))


class TimeReparam(Spec):
    """time_reparametrization(t, alpha, tau)[i,j] = alpha_i (t_ij - tau_i); the weights of t are kept."""
    target = "leaspy.models.time_reparametrized:TimeReparametrizedModel.time_reparametrization"

    def setup(self, cx, cfg):
        t, w = STensor.sym(cx, "t", (n, v)), STensor.sym(cx, "w", (n, v))
        alpha, tau = STensor.sym(cx, "alpha", (n, 1)), STensor.sym(cx, "tau", (n, 1))
        return dict(args=(), kwargs=dict(t=WT(t, w), alpha=alpha, tau=tau), t=t, w=w, alpha=alpha, tau=tau)

    def pre(self, cx, st):
        return [weights_nonneg(st)]

    def post(self, cx, st, out):
        r = out.value
        ok = isinstance(r, SymObj) and isinstance(r.f.get("value"), STensor) and r.f["value"].ndim == 2
        res = [("a weighted tensor (n_individuals, n_visits)", z3.BoolVal(ok))]
        if ok:
            i, j = z3.Ints("i j")
            z0 = z3.IntVal(0)
            res.append(("rt_ij = alpha_i (t_ij - tau_i)", z3.ForAll([i, j], r.f["value"].fn((i, j)) ==
                                                                   st["alpha"].fn((i, z0)) * (st["t"].fn((i, j)) - st["tau"].fn((i, z0))))))
            ww = r.f["weight"]
            res.append(("weights of t kept", z3.BoolVal(isinstance(ww, STensor))))
            if isinstance(ww, STensor):
                res.append(("weights equal entry-wise", z3.ForAll([i, j], ww.fn((i, j)) == st["w"].fn((i, j)))))
        return res


def pop_setup(cx, extra=()):
    rt, w = STensor.sym(cx, "rt", (n, v)), STensor.sym(cx, "w", (n, v))
    d = dict(rt=rt, w=w, ss=STensor.sym(cx, "space_shifts", (n, f)), metric=STensor.sym(cx, "metric", (f,)),
             v0=STensor.sym(cx, "v0", (f,)), g=STensor.sym(cx, "g", (f,)))
    for nm_, shape in extra:
        d[nm_] = STensor.sym(cx, nm_, shape)
    return d


class LogisticWithSources(Spec):
    """LogisticModel.model_with_sources[i,j,k] = sigmoid(metric_k (v0_k rt_ij + w_ik) - log g_k) at real
    visits and exactly 0 at padded visits (weight 0), whatever the padded time holds."""
    target = "leaspy.models.logistic:LogisticModel.model_with_sources"

    def configs(self):
        return [dict(sources=True)]

    def setup(self, cx, cfg):
        from leaspy.models.logistic import LogisticModel
        d = pop_setup(cx)
        kw = dict(rt=WT(d["rt"], d["w"]), metric=d["metric"], v0=d["v0"], g=d["g"], space_shifts=d["ss"])
        d.update(args=(LogisticModel,), kwargs=kw, cls=LogisticModel)
        return d

    def pre(self, cx, st):
        return [weights_nonneg(st)]

    def formula(self, st, i, j, k):
        ss = st["ss"].fn((i, k)) if st["cfg"]["sources"] else z3.RealVal(0)
        return F_SIGMOID(st["metric"].fn((k,)) * (st["v0"].fn((k,)) * st["rt"].fn((i, j)) + ss) - F_LOG(st["g"].fn((k,))))

    def post(self, cx, st, out):
        r = out.value
        ok = isinstance(r, STensor) and r.ndim == 3
        res = [("a plain tensor (n_individuals, n_visits, n_features)", z3.BoolVal(ok))]
        if ok:
            i, j, k = z3.Ints("i j k")
            w = st["w"].fn((i, j))
            res.append(("closed form at real visits, 0 at padded ones",
                        z3.ForAll([i, j, k], r.fn((i, j, k)) == z3.If(w != 0, w * self.formula(st, i, j, k), 0))))
        return res


class LogisticNoSources(LogisticWithSources):
    """model_no_sources = model_with_sources with zero space shifts."""
    target = "leaspy.models.riemanian_manifold:RiemanianManifoldModel.model_no_sources"

    def configs(self):
        return [dict(sources=False, model="logistic"), dict(sources=False, model="linear")]

    def setup(self, cx, cfg):
        from leaspy.models.logistic import LogisticModel
        from leaspy.models.linear import LinearModel
        d = pop_setup(cx)
        cls = LogisticModel if cfg["model"] == "logistic" else LinearModel
        d.update(args=(cls,), kwargs=dict(rt=WT(d["rt"], d["w"]), metric=d["metric"], v0=d["v0"], g=d["g"]), cls=cls)
        return d

    def formula(self, st, i, j, k):
        if st["cfg"]["model"] == "logistic":
            return LogisticWithSources.formula(self, st, i, j, k)
        return st["g"].fn((k,)) + st["v0"].fn((k,)) * st["rt"].fn((i, j))


class LinearWithSources(LogisticWithSources):
    """LinearModel.model_with_sources[i,j,k] = g_k + v0_k rt_ij + w_ik at real visits, 0 at padded ones."""
    target = "leaspy.models.linear:LinearModel.model_with_sources"

    def configs(self):
        return [dict(sources=True)]

    def setup(self, cx, cfg):
        from leaspy.models.linear import LinearModel
        d = pop_setup(cx)
        d.update(args=(LinearModel,), kwargs=dict(rt=WT(d["rt"], d["w"]), space_shifts=d["ss"], metric=d["metric"],
                                                  v0=d["v0"], g=d["g"]), cls=LinearModel)
        return d

    def formula(self, st, i, j, k):
        return st["g"].fn((k,)) + st["v0"].fn((k,)) * st["rt"].fn((i, j)) + st["ss"].fn((i, k))


class SharedSpeedWithSources(LogisticWithSources):
    """SharedSpeedLogisticModel.model_with_sources[i,j,k] = sigmoid(metric_k w_ik + rt_ij + delta_k - log g)."""
    target = "leaspy.models.shared_speed_logistic:SharedSpeedLogisticModel.model_with_sources"

    def configs(self):
        return [dict(sources=True)]

    def setup(self, cx, cfg):
        from leaspy.models.shared_speed_logistic import SharedSpeedLogisticModel as M
        d = pop_setup(cx, extra=(("deltas_padded", (f,)), ("log_g", (1,))))
        d.update(args=(M,), kwargs=dict(rt=WT(d["rt"], d["w"]), space_shifts=d["ss"], metric=d["metric"],
                                        deltas_padded=d["deltas_padded"], log_g=d["log_g"]), cls=M)
        return d

    def formula(self, st, i, j, k):
        return F_SIGMOID(st["metric"].fn((k,)) * st["ss"].fn((i, k)) + st["rt"].fn((i, j)) + st["deltas_padded"].fn((k,))
                         - st["log_g"].fn((z3.IntVal(0),)))


class SharedSpeedNoSources(SharedSpeedWithSources):
    """SharedSpeedLogisticModel.model_no_sources[i,j,k] = sigmoid(rt_ij + delta_k - log g): the curve with zero space shifts."""
    target = "leaspy.models.shared_speed_logistic:SharedSpeedLogisticModel.model_no_sources"

    def configs(self):
        return [dict(sources=False)]

    def setup(self, cx, cfg):
        from leaspy.models.shared_speed_logistic import SharedSpeedLogisticModel as M
        d = pop_setup(cx, extra=(("deltas_padded", (f,)), ("log_g", (1,))))
        d.update(args=(M,), kwargs=dict(rt=WT(d["rt"], d["w"]), metric=d["metric"], deltas_padded=d["deltas_padded"], log_g=d["log_g"]), cls=M)
        return d

    def formula(self, st, i, j, k):
        return F_SIGMOID(st["rt"].fn((i, j)) + st["deltas_padded"].fn((k,)) - st["log_g"].fn((z3.IntVal(0),)))


class Metrics(Spec):
    """LogisticModel.metric(g) = (g + 1)^2 / g."""
    target = "leaspy.models.logistic:LogisticModel.metric"
    model = "logistic"

    def setup(self, cx, cfg):
        g = STensor.sym(cx, "g", (f,))
        kw = dict(g_deltas_exp=g) if self.model == "shared" else dict(g=g)
        return dict(args=(), kwargs=kw, g=g)

    def pre(self, cx, st):
        k = z3.Int("k_pre")
        return [("g > 0", z3.ForAll([k], st["g"].fn((k,)) > 0))]

    def post(self, cx, st, out):
        r = out.value
        ok = isinstance(r, STensor) and r.ndim == 1
        res = [("a vector over features", z3.BoolVal(ok))]
        if ok:
            k = z3.Int("k")
            g = st["g"].fn((k,))
            want = z3.RealVal(1) if self.model == "linear" else (g + 1) * (g + 1) / g
            res.append(("metric formula", z3.ForAll([k], r.fn((k,)) == want)))
        return res


class MetricLinear(Metrics):
    """LinearModel.metric(g) = 1 (Euclidean)."""
    target = "leaspy.models.linear:LinearModel.metric"
    model = "linear"


class MetricShared(Metrics):
    """SharedSpeedLogisticModel.metric(g exp(-delta)) = (x + 1)^2 / x."""
    target = "leaspy.models.shared_speed_logistic:SharedSpeedLogisticModel.metric"
    model = "shared"


def LEMMAS():
    """consequences of the closed form (sigmoid facts: range, strict monotonicity, sigmoid(-log g) = 1/(1+g), exp > 0)"""
    x, y, g, m, v0, a, t1, t2, tau, w = z3.Reals("x y g m v0 a t1 t2 tau w")
    sig_range = z3.ForAll([x], z3.And(F_SIGMOID(x) > 0, F_SIGMOID(x) < 1))
    sig_mono = z3.ForAll([x, y], z3.Implies(x <= y, F_SIGMOID(x) <= F_SIGMOID(y)))
    sig_at = z3.ForAll([g], z3.Implies(g > 0, F_SIGMOID(-F_LOG(g)) == 1 / (1 + g)))

    def traj(t):
        return F_SIGMOID(m * (v0 * (a * (t - tau)) + w) - F_LOG(g))
    pos = [g > 0, v0 > 0, a > 0, m == (g + 1) * (g + 1) / g]
    return [
        ("logistic values lie in [0, 1]", [sig_range], z3.And(traj(t1) >= 0, traj(t1) <= 1)),
        ("logistic values are non-decreasing with age (g, v0 = exp(.), alpha = exp(xi) > 0)", [sig_mono] + pos + [t1 <= t2],
         traj(t1) <= traj(t2)),
        ("an unshifted individual at its reference time is at 1/(1+g)", [sig_at] + pos + [w == 0, t1 == tau], traj(t1) == 1 / (1 + g)),
    ]


class SetItemProbe(Spec):
    target = "leaspy.variables.state:State.__setitem__"

    def bind(self, it, args, kwargs):
        return dict(args=args)

    def havoc(self, cx, st):
        cx.ghost.setdefault("sets", []).append(st["args"])


class TimepointsUnmasked(Spec):
    """_put_data_timepoints(state, timepoints): a plain tensor of requested ages is stored as 't' with NO weights -- every requested
    age counts, whatever its value (zero and negative ages included) -- and entry by entry unchanged; a weighted tensor is stored
    as it is; anything else is a TypeError."""
    target = "leaspy.models.mcmc_saem_compatible:McmcSaemCompatibleModel._put_data_timepoints"

    def configs(self):
        return [dict(kind="tensor"), dict(kind="weighted"), dict(kind="list")]

    def setup(self, cx, cfg):
        from leaspy.models.logistic import LogisticModel
        from leaspy.variables.state import State
        from leaspy.utils.weighted_tensor import WeightedTensor
        m = SymObj(LogisticModel, {}, label="model")
        state = SymObj(State, {}, label="state")
        tp = STensor.sym(cx, "ages", (z3.Int("n_i"), z3.Int("n_t")), "real")
        arg = tp if cfg["kind"] == "tensor" else (SymObj(WeightedTensor, dict(value=tp, weight=STensor.sym(cx, "w", (z3.Int("n_i"), z3.Int("n_t")), "bool")))
                                                  if cfg["kind"] == "weighted" else [70.0, 71.0])
        return dict(args=(m, state, arg), state=state, tp=tp, arg=arg)

    def raises(self, cx, st):
        return [(TypeError, z3.BoolVal(st["cfg"]["kind"] == "list"))]

    def post(self, cx, st, out):
        sets = cx.ghost.get("sets", [])
        ok = len(sets) == 1 and sets[0][0] is st["state"] and sets[0][1] == "t"
        res = [("exactly one assignment: state['t']", z3.BoolVal(ok))]
        if not ok:
            return res
        v = sets[0][2]
        if st["cfg"]["kind"] == "weighted":
            res.append(("a weighted tensor is stored as it is", z3.BoolVal(v is st["arg"])))
            return res
        good = isinstance(v, SymObj) and v.cls.__name__ == "WeightedTensor" and isinstance(v.f.get("value"), STensor)
        res.append(("stored as a weighted tensor", z3.BoolVal(good)))
        if good:
            res.append(("without weights: every requested age counts", z3.BoolVal(v.f.get("weight") is None)))
            t, val = st["tp"], v.f["value"]
            idx = t.fresh_idx(cx, "a")
            res.append(("ages unchanged entry by entry", z3.ForAll(list(idx), z3.Implies(t.in_range(idx), val.fn(idx) == t.fn(idx))) if val.ndim == t.ndim else z3.BoolVal(False)))
        return res


UNITS = [TimeReparam(), LogisticWithSources(), LogisticNoSources(), LinearWithSources(), SharedSpeedWithSources(), SharedSpeedNoSources(), Metrics(), MetricLinear(), MetricShared(),
         TimepointsUnmasked()]
# "for any parameters": the trajectory is computed on ONE FRESH clone of the model's current state, taken in the call itself, written
# with the call's ages and individual parameters, and read back from that clone -- nothing is kept from an earlier call (contract
# of C13, verified with C13's callee contracts of State)
from contracts import c13 as _c13
UNITS += [foreign(_c13.TrajectoryOnClone(), "c13")]
CALLEES = [SetItemProbe()]
ASSUMPTIONS = ["sigmoid, exp, log uninterpreted with the facts listed in LEMMAS (axiom table)",
               "alpha = exp(xi), v0 = exp(log_v0), g = exp(log_g) are positive (DAG definitions Exp(...))"]
NOT_DECIDED = ["BaseModel.estimate re-indexing through pandas (bounded stand-in)"]
