#!/usr/bin/env python3
"""tools/seeded_run.py PATCH CHECK_ID [CHECK_ID ...] [--tier quick]: apply a patch (git diff of /repo/src) to a scratch copy of
/repo/src and run the given checks against it (VERIF_REPO); prints one summary line per check.  Nothing in /repo is touched."""
import os, shutil, subprocess, sys, tempfile, json, glob
patch = os.path.abspath(sys.argv[1])
ids = [a for a in sys.argv[2:] if not a.startswith("--")]
tier = "thorough" if "--thorough" in sys.argv else "quick"
d = tempfile.mkdtemp(prefix="leaspy_seed_")
try:
    shutil.copytree("/repo/src", os.path.join(d, "src"), ignore=shutil.ignore_patterns("__pycache__"))
    r = subprocess.run(["patch", "-p1", "-s", "-i", patch], cwd=d, capture_output=True, text=True)
    if r.returncode != 0:
        print("PATCH DOES NOT APPLY:", r.stdout, r.stderr)
        sys.exit(2)
    for i in ids:
        r = subprocess.run(["/verif/check", i, "--tier", tier], capture_output=True, text=True, env=dict(os.environ, VERIF_REPO=d), cwd="/verif")
        lines = (r.stdout + r.stderr).splitlines()
        viol = [l for l in lines if l.startswith("VIOLATION")]
        conf = [l for l in viol if not l.rstrip().endswith("no-failing-input-found")]
        und = [l for l in lines if l.startswith("UNDECIDED")]
        err = [l for l in lines if l.startswith("CHECKER-ERROR")]
        first = next((l.strip() for l in lines if l.strip().startswith("failed obligation")), "")
        print(f"{i}: exit={r.returncode} violations={len(viol)} with-failing-input={len(conf)} undecided={len(und)} checker-errors={len(err)}  {first[:230]}")
        if "-v" in sys.argv:
            for l in lines:
                if l.strip().startswith("failed obligation"):
                    print("   ", l.strip()[:250])
finally:
    shutil.rmtree(d, ignore_errors=True)
