#!/usr/bin/env python3
"""tools/mut.py PROP FILE OLD NEW [--tier quick]  -- run a check against a scratch copy of /repo/src
with one textual edit (OLD must occur exactly once in FILE, relative to src/leaspy)."""
import os, shutil, subprocess, sys, tempfile

def run(prop, edits, tier="quick", verbose=False):
    d = tempfile.mkdtemp(prefix="leaspy_mut_")
    try:
        shutil.copytree("/repo/src", os.path.join(d, "src"), ignore=shutil.ignore_patterns("__pycache__"))
        for rel, old, new in edits:
            p = os.path.join(d, "src", "leaspy", rel)
            s = open(p).read()
            if s.count(old) != 1:
                return None, f"edit does not apply uniquely ({s.count(old)} occurrences): {old!r}"
            open(p, "w").write(s.replace(old, new))
        env = dict(os.environ, VERIF_REPO=d)
        r = subprocess.run(["/verif/check", prop, "--tier", tier] + (["-v"] if verbose else []),
                           capture_output=True, text=True, env=env, cwd="/verif")
        return r.returncode, r.stdout + r.stderr
    finally:
        shutil.rmtree(d, ignore_errors=True)

if __name__ == "__main__":
    prop, rel, old, new = sys.argv[1:5]
    rc, out = run(prop, [(rel, old, new)], verbose="-v" in sys.argv)
    print(out[-3000:] if out else out)
    print("exit", rc)
