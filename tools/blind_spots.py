#!/usr/bin/env python3
"""tools/blind_spots.py PROP [PROP ...]: which functions of the files a property is anchored in are seen by NOTHING in its check?

For each property: the functions the deductive units execute come from ledger/<P>.json (source hashes recorded per unit); the lines
the bounded stand-ins execute are measured with `coverage` while the stand-ins of the quick tier run in-process (stand-ins that fork
worker pools are only measured in the parent).  Every function (def) of the property's anchor files is then listed as
  contract   -- executed symbolically by a unit,
  stand-in   -- at least one body line executed by a stand-in,
  BLIND      -- neither: a change there cannot be noticed by this property's check.
A development aid (decides nothing about /repo, not registered in MANIFEST)."""
import ast, importlib, json, os, sys, warnings
warnings.filterwarnings("ignore")
sys.path.insert(0, "/verif"); sys.path.insert(0, os.environ.get("VERIF_REPO", "/repo") + "/src")
import coverage

REPO = os.environ.get("VERIF_REPO", "/repo")
props = {}
for l in open("/verif/properties.jsonl"):
    p = json.loads(l)
    props[p["id"]] = p


def functions_of(path):
    tree = ast.parse(open(path).read())
    out = []

    def walk(node, prefix):
        for ch in ast.iter_child_nodes(node):
            if isinstance(ch, (ast.FunctionDef, ast.AsyncFunctionDef)):
                body = ch.body
                if body and isinstance(body[0], ast.Expr) and isinstance(getattr(body[0], "value", None), ast.Constant) and isinstance(body[0].value.value, str):
                    body = body[1:]
                lines = set()
                for st in body:
                    for n in ast.walk(st):
                        if hasattr(n, "lineno"):
                            lines.add(n.lineno)
                out.append((prefix + ch.name, ch.lineno, lines))
                walk(ch, prefix + ch.name + ".")
            elif isinstance(ch, ast.ClassDef):
                walk(ch, prefix + ch.name + ".")
    walk(tree, "")
    return out


def main(ids):
    from pyvc import driver
    driver._import_repo()
    for pid in ids:
        files = [os.path.join(REPO, f) for f in props[pid]["anchors"]["files"] if f.endswith(".py")]
        led = json.load(open(f"/verif/ledger/{pid}.json")) if os.path.exists(f"/verif/ledger/{pid}.json") else {"units": {}}
        contract = set()
        for u in led["units"].values():
            for k in u.get("hashes", {}):
                contract.add(k)
        cov = coverage.Coverage(include=files, data_file=None)
        smod = importlib.import_module(f"standin.{pid.lower()}")
        cov.start()
        try:
            for fn in getattr(smod, "STANDINS", []):
                try:
                    fn("quick", 0)
                except Exception as e:
                    print(f"  ({pid}: stand-in {fn.__name__} raised {type(e).__name__}: {e})")
        finally:
            cov.stop()
        data = cov.get_data()
        print(f"== {pid}: {props[pid]['title']}")
        for path in files:
            executed = set(data.lines(path) or [])
            mod = path[len(REPO) + len("/src/"):-3].replace("/", ".")
            rows = []
            for qual, lineno, lines in functions_of(path):
                key = f"{mod}:{qual}"
                in_contract = key in contract
                hit = len(lines & executed)
                if not lines:
                    continue
                status = "contract" if in_contract else ("stand-in" if hit else "BLIND")
                if in_contract and hit:
                    status = "contract+stand-in"
                rows.append((status, qual, lineno, hit, len(lines)))
            blind = [r for r in rows if r[0] == "BLIND"]
            print(f"  {path[len(REPO) + 1:]}: {len(rows)} functions, {len(blind)} blind")
            for st, qual, lineno, hit, n in rows:
                if st == "BLIND":
                    print(f"      BLIND  {qual} (line {lineno}, {n} lines)")


if __name__ == "__main__":
    main(sys.argv[1:] or sorted(props))
