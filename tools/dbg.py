#!/usr/bin/env python3
"""tools/dbg.py PROP UNIT_SUBSTR [CFG_SUBSTR]: print per-path outcomes of one unit (debugging aid)"""
import sys, os
sys.path.insert(0, "/verif"); sys.path.insert(0, os.environ.get("VERIF_REPO", "/repo") + "/src")
import warnings; warnings.filterwarnings("ignore")
from pyvc import driver, runner
driver._import_repo()
prop, unit = sys.argv[1], sys.argv[2]
cfgs = sys.argv[3] if len(sys.argv) > 3 else ""
st = runner._setup(prop)
eng = st["eng"]
for s in st["units"]:
    if unit not in s.target and unit not in type(s).__name__:
        continue
    for cfg in s.configs():
        if cfgs not in s.cfg_label(cfg):
            continue
        eng = runner.engine_for(st, s)[0]
        obs, d = eng.verify_cfg(s, cfg)
        print("==", s.target, s.cfg_label(cfg), "paths", d["paths"], "oos", d["oos"])
        for cx in d["cxs"]:
            out = getattr(cx, "outcome", None)
            msg = ""
            if out is not None and out.kind == "raise":
                msg = f"{out.exc.cls.__name__}{out.exc.args} at line {getattr(out.node, 'lineno', '?')}"
            print("  path", cx.path_id(), "->", "infeasible" if getattr(cx, "infeasible", False) else
                  ("ended" if getattr(cx, "ended", False) else (msg or "return")), "obligations", len(cx.obligations))
