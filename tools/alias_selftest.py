#!/usr/bin/env python3
"""tools/alias_selftest.py: cross-check of the engine's tensor aliasing model (DESIGN B.10) against torch itself.  Small programs that
update tensors in place -- through the object, through views, after clone / detach -- are run by the symbolic executor on concrete
tensors and natively; the values the engine predicts for every returned tensor must be the ones torch produced.  A disagreement is a
CHECKER-ERROR (exit 3); nothing about /repo is decided here (not registered in MANIFEST)."""
import sys, os, warnings
warnings.filterwarnings("ignore")
sys.path.insert(0, "/verif"); sys.path.insert(0, os.environ.get("VERIF_REPO", "/repo") + "/src")
import torch
import z3
from pyvc import driver
driver._import_repo()
from pyvc import tensor as T, npmodels  # noqa
from pyvc.core import Ctx
from pyvc.engine import Engine
from pyvc.interp import Interp


def p_inplace_mul(a, b):
    c = a
    d = a + 1.0          # derived before the update: keeps the old values
    a *= b
    return a, c, d


def p_view_write(a, b):
    v = a[0, :2]
    v[0] = 7.0
    w = a[:, 1]
    w *= 2.0
    return a, v


def p_clone_is_private(a, b):
    c = a[1, :].clone().detach()
    c[0] = -1.0
    return a, c


def p_detach_shares(a, b):
    c = a.detach()
    c[0, 0] = 5.0
    e = a.float()
    e[1, 1] = 9.0
    return a


def p_masked_through_view(a, b):
    row = a[1, :]
    row[b[1, :] > 0.0] = -99.0
    return a


def p_nested_views(a, b):
    v = a[:, 1:]
    w = v[0, :]
    w += 3.0
    return a


def p_ior_column(a, b):
    m = a > 0.0
    m[:, 0] |= m[:, 1]
    m[0, 1] = True
    return m


def p_clamp_inplace(a, b):
    keep = a * 1.0
    a.clamp_(min=-0.5, max=0.5)
    return a, keep


PROGRAMS = [p_inplace_mul, p_view_write, p_clone_is_private, p_detach_shares, p_masked_through_view, p_nested_views, p_ior_column, p_clamp_inplace]


def concrete(t):
    """values of an STensor over constants as nested lists"""
    shape = [int(str(z3.simplify(T.dim_z3(d)))) for d in t.shape_]
    out = torch.zeros(shape, dtype=torch.float64)
    import itertools
    for idx in itertools.product(*[range(n) for n in shape]):
        e = z3.simplify(t.fn(tuple(z3.IntVal(i) for i in idx)))
        if t.dtype == "bool":
            out[idx] = 1.0 if z3.is_true(e) else 0.0
        else:
            s = str(e)
            if "nan" in s.lower() or not (z3.is_rational_value(e) or z3.is_int_value(e)):
                out[idx] = float("nan")
            else:
                out[idx] = float(e.numerator_as_long()) / float(e.denominator_as_long()) if z3.is_rational_value(e) else float(e.as_long())
    return out


def main():
    bad = 0
    g = torch.Generator().manual_seed(7)
    for prog in PROGRAMS:
        for trial in range(5):
            a = (torch.randn(2, 3, generator=g) * 2).round() / 2
            b = (torch.randn(2, 3, generator=g) * 2).round() / 2
            want = prog(a.clone(), b.clone())
            want = want if isinstance(want, tuple) else (want,)
            cx = Ctx()
            cx.it = Interp(cx, Engine())
            got = cx.it.call_function(prog, (T.from_native(a.clone()), T.from_native(b.clone())), {})
            got = got if isinstance(got, tuple) else (got,)
            for k, (gw, ww) in enumerate(zip(got, want)):
                gv, wv = concrete(gw), ww.double()
                same = gv.shape == wv.shape and bool(torch.allclose(torch.nan_to_num(gv, nan=1e9), torch.nan_to_num(wv, nan=1e9), atol=1e-9))
                if not same:
                    bad += 1
                    print(f"  {prog.__name__} trial {trial} result {k}: engine {gv.tolist()} != torch {wv.tolist()}")
        print(f"{prog.__name__}: checked")
    print("ALIAS-SELFTEST", "ok" if not bad else f"{bad} disagreement(s): CHECKER-ERROR")
    sys.exit(0 if not bad else 3)


if __name__ == "__main__":
    main()
