#!/usr/bin/env python3
import subprocess
p = "/verif/DESIGN.md"
s = open(p).read()
a, b = "<!-- seeded-table-begin -->", "<!-- seeded-table-end -->"
t = subprocess.check_output(["python3", "/verif/tools/seeded_table.py"]).decode()
s = s[:s.index(a) + len(a)] + "\n" + t + s[s.index(b):]
open(p, "w").write(s)
