#!/usr/bin/env python3
"""print a python file (or one qualified function) without docstrings"""
import ast,sys
def strip(path, only=None):
    src=open(path).read()
    t=ast.parse(src)
    for n in ast.walk(t):
        if isinstance(n,(ast.FunctionDef,ast.ClassDef,ast.Module)):
            if n.body and isinstance(n.body[0],ast.Expr) and isinstance(getattr(n.body[0],'value',None),ast.Constant) and isinstance(n.body[0].value.value,str):
                n.body=n.body[1:] or [ast.Pass()]
    print(ast.unparse(t))
strip(sys.argv[1])
