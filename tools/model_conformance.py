#!/usr/bin/env python3
"""tools/model_conformance.py [N]: conformance test of the library models the verifier TRUSTS (numpy / torch operations given
by contract in pyvc/npmodels.py and pyvc/tensor.py).  For N seeded random concrete inputs per operation the model is applied
to the concrete input inside the engine; the axioms it assumes plus "the result equals what the real library returned" must
be satisfiable (z3 `sat`).  `unsat` means the contract the verifier assumes contradicts the library's real behaviour: a
CHECKER-ERROR (nothing about /repo is decided here; not registered in MANIFEST).  Exit 0 = every model agrees."""
import sys, os, warnings
warnings.filterwarnings("ignore")
sys.path.insert(0, "/verif"); sys.path.insert(0, os.environ.get("VERIF_REPO", "/repo") + "/src")
import numpy as np
import torch
import z3

from pyvc import driver
driver._import_repo()
from pyvc import tensor as T, npmodels  # noqa
from pyvc.core import Ctx, SV, PathInfeasible
from pyvc.engine import Engine
from pyvc.interp import Interp
from pyvc.models import MODELS, SRange
from pyvc.tensor import STensor, F_ISNAN

N = int(sys.argv[1]) if len(sys.argv) > 1 else 40
rng = np.random.default_rng(20260927)
NAN_CODE = 123456.75        # NaN is a real number carrying the predicate isnan(.) in the verifier's arithmetic


def model_of(f):
    return MODELS[id(f)][1]


def sym_of(cx, arr):
    """a concrete numpy array as an STensor; NaN entries become distinct reals x with isnan(x)"""
    a = np.asarray(arr)
    if a.dtype == bool:
        return T.from_native(torch.as_tensor(a))
    if np.issubdtype(a.dtype, np.integer):
        return T.from_native(torch.as_tensor(a))
    flat = a.reshape(-1).astype(float)
    consts = []
    for k, x in enumerate(flat):
        if np.isnan(x):
            c = z3.Real(cx.fresh_name("nanval"))
            cx.assume(F_ISNAN(c))
            consts.append(c)
        else:
            q = z3.RealVal(repr(float(x)))
            cx.assume(z3.Not(F_ISNAN(q)))
            consts.append(q)
    shape = a.shape
    strides, s = [], 1
    for d in reversed(shape):
        strides.insert(0, s)
        s *= d

    def fn(idx):
        lin = sum((i * st for i, st in zip(idx, strides)), z3.IntVal(0)) if idx else z3.IntVal(0)
        e = consts[-1]
        for k in range(len(consts) - 2, -1, -1):
            e = z3.If(lin == k, consts[k], e)
        return e
    return STensor(shape, fn, "real")


def equals_native(cx, sym, native, tol=1e-9):
    """constraints: the symbolic result is what the library returned (NaN <-> isnan)"""
    nat = np.asarray(native)
    cs = []
    if tuple(int(str(z3.simplify(T.dim_z3(d)))) if not isinstance(d, int) else d for d in sym.shape_) != nat.shape:
        return None
    for idx in np.ndindex(*nat.shape) if nat.shape else [()]:
        e = sym.fn(tuple(z3.IntVal(int(i)) for i in idx))
        v = nat[idx] if nat.shape else nat[()]
        if sym.dtype == "bool":
            cs.append(e == bool(v))
        elif sym.dtype == "int":
            cs.append(e == int(v))
        elif np.isnan(v):
            cs.append(F_ISNAN(e))
        else:
            cs.append(z3.And(z3.Not(F_ISNAN(e)), e >= float(v) - tol - 1e-7 * abs(float(v)), e <= float(v) + tol + 1e-7 * abs(float(v))))
    return cs


def run(name, build):
    bad = 0
    for trial in range(N):
        cx = Ctx()
        eng = Engine()
        cx.it = Interp(cx, eng)
        try:
            sym, native, shape_note = build(cx, cx.it)
        except PathInfeasible:
            print(f"  {name}: trial {trial}: the model's own assumptions are contradictory on a concrete input")
            bad += 1
            continue
        cs = equals_native(cx, sym, native)
        if cs is None:
            print(f"  {name}: trial {trial}: shape of the modelled result {sym.shape_} != shape of the library's {np.asarray(native).shape}")
            bad += 1
            continue
        s = z3.Solver()
        s.set("timeout", 20000)
        s.add(*cx.background)
        s.add(*cx.pc)
        s.add(*cs)
        r = s.check()
        if r != z3.sat:
            print(f"  {name}: trial {trial}: assumed contract + library result is {r} ({shape_note})")
            bad += 1
    print(f"{name}: {N - bad}/{N} concrete inputs agree")
    return bad


def rand_matrix(n, f, p_nan=0.3, ties=True):
    a = rng.normal(0, 1, (n, f)).round(1 if ties else 6)
    a[rng.random((n, f)) < p_nan] = np.nan
    return a


def t_nanmax(cx, it):
    a = rand_matrix(int(rng.integers(1, 5)), int(rng.integers(1, 4)))
    with np.errstate(all="ignore"):
        return model_of(np.nanmax)(it, sym_of(cx, a), axis=0), np.nanmax(a, axis=0), a.shape


def t_nanmin(cx, it):
    a = rand_matrix(int(rng.integers(1, 5)), int(rng.integers(1, 4)))
    with np.errstate(all="ignore"):
        return model_of(np.nanmin)(it, sym_of(cx, a), axis=0), np.nanmin(a, axis=0), a.shape


def t_nanmean(cx, it):
    a = rand_matrix(int(rng.integers(1, 5)), int(rng.integers(1, 4)))
    with np.errstate(all="ignore"):
        return model_of(np.nanmean)(it, sym_of(cx, a), axis=0), np.nanmean(a, axis=0), a.shape


def t_argmax_bool(cx, it):
    a = rng.random((int(rng.integers(1, 6)), int(rng.integers(1, 4)))) < 0.4
    return T.TENSOR_METHODS["argmax"](it, sym_of(cx, a), axis=0), a.argmax(axis=0), a.shape


def t_argmin_real(cx, it):
    a = rng.normal(0, 1, int(rng.integers(1, 7))).round(1)
    return T.TENSOR_METHODS["argmin"](it, sym_of(cx, a), dim=0), torch.as_tensor(a).argmin(dim=0).numpy(), a.shape


def t_sorted(cx, it):
    t = rng.normal(70, 3, int(rng.integers(1, 7))).round(0)          # ties on purpose (stability)
    rev = bool(rng.integers(0, 2))
    st = sym_of(cx, t)
    key = st._getattr(it, "__getitem__")
    out = SRange(0, len(t))._sorted(it, key, rev)
    return out, np.array(sorted(range(len(t)), key=t.__getitem__, reverse=rev), dtype=int), (len(t), rev)


def t_gather(cx, it):
    n, f = int(rng.integers(1, 5)), int(rng.integers(1, 4))
    a = rng.normal(0, 1, (n, f)).round(2)
    rows = rng.integers(0, n, f)
    out = T.tensor_getitem(it, sym_of(cx, a), (sym_of(cx, rows), range(f)))
    return out, a[rows, range(f)], (n, f)


def t_inv(cx, it):
    k = int(rng.integers(1, 3))
    a = rng.normal(0, 1, (k, k)).round(2) + 2 * np.eye(k)
    return model_of(np.linalg.inv)(it, sym_of(cx, a)), np.linalg.inv(a), k


def t_dot(cx, it):
    n = int(rng.integers(1, 5))
    a, b = rng.normal(0, 1, (2, n)).round(2), rng.normal(0, 1, n).round(2)
    return model_of(np.dot)(it, sym_of(cx, a), sym_of(cx, b)), np.dot(a, b), n


def t_add_constant(cx, it):
    import statsmodels.api as sm
    from pyvc.core import SymRaise
    x = rng.normal(0, 1, int(rng.integers(0, 6))).round(2)
    if len(x) == 0:
        # the library refuses an empty array: the model must raise the same exception class
        try:
            sm.add_constant(x, prepend=True, has_constant="add")
            lib = None
        except Exception as e:
            lib = type(e)
        try:
            npmodels._np_tensor_models.add_constant(it, sym_of(cx, x), prepend=True, has_constant="add")
            mod = None
        except SymRaise as e:
            mod = e.exc.cls if hasattr(e, "exc") else getattr(e.args[0], "cls", None)
        if lib is not mod:
            raise PathInfeasible(f"add_constant on an empty array: library {lib}, model {mod}")
        x = np.array([0.5])
    return npmodels._np_tensor_models.add_constant(it, sym_of(cx, x), prepend=True, has_constant="add"), sm.add_constant(x, prepend=True, has_constant="add"), len(x)


def t_zeros_like(cx, it):
    x = rng.normal(0, 1, int(rng.integers(1, 6))).round(2)
    return model_of(np.zeros_like)(it, sym_of(cx, x)), np.zeros_like(x), len(x)


def t_std(cx, it):
    a = rng.normal(0, 1, (int(rng.integers(2, 6)), 2)).round(2)
    out = T.m_std(it, sym_of(cx, a), dim=0)
    nat = torch.as_tensor(a).std(dim=0).numpy()
    # sqrt is uninterpreted in the verifier: compare the squares through its defining axiom
    cx.assume(z3.And(*[T.F_SQRT(z3.RealVal(repr(float(v * v)))) == z3.RealVal(repr(float(v))) for v in nat]))
    return STensor(out.shape_, lambda idx: out.fn(idx), "real"), nat, a.shape


TESTS = [("np.nanmax(axis=0)", t_nanmax), ("np.nanmin(axis=0)", t_nanmin), ("np.nanmean(axis=0)", t_nanmean), ("bool.argmax(axis=0)", t_argmax_bool),
         ("tensor.argmin(dim=0)", t_argmin_real), ("sorted(range(n), key=a.__getitem__, reverse=?)", t_sorted), ("a[rows, range(F)]", t_gather),
         ("np.linalg.inv (1x1, 2x2)", t_inv), ("np.dot", t_dot), ("statsmodels add_constant", t_add_constant), ("np.zeros_like", t_zeros_like)]

if __name__ == "__main__":
    npmodels.register_statsmodels()
    total = 0
    for name, fn in TESTS:
        try:
            total += run(name, fn)
        except Exception as e:
            import traceback
            traceback.print_exc()
            print(f"{name}: harness error {type(e).__name__}: {e}")
            total += 1
    print("MODEL-CONFORMANCE", "ok" if total == 0 else f"{total} disagreement(s): CHECKER-ERROR")
    sys.exit(0 if total == 0 else 3)
