#!/usr/bin/env python3
"""tools/harvest_seeded.py ID [CHECK_ID ...]: take the change a sub-agent produced in /tmp/wt_<ID>/seeded, confirm its demonstration
(exit 0 on the unchanged sources, exit 1 on the changed ones), run the given checks (default: the property's own) against the
changed sources on a scratch copy, and store everything under /verif/seeded/<ID>/."""
import json, os, shutil, subprocess, sys, tempfile
pid = sys.argv[1]
checks = sys.argv[2:] or [pid]
rnd = 8 if "--round8" in sys.argv else 7 if "--round7" in sys.argv else 6 if "--round6" in sys.argv else 5 if "--round5" in sys.argv else 4 if "--round4" in sys.argv else (3 if "--round3" in sys.argv else (2 if "--round2" in sys.argv else 1))
src = f"/tmp/wt{rnd}_{pid}/seeded" if rnd > 1 else f"/tmp/wt_{pid}/seeded"
dst = f"/verif/seeded/{pid}_{rnd}" if rnd > 1 else f"/verif/seeded/{pid}"
os.makedirs(dst, exist_ok=True)
keep = "--keep-patch" in sys.argv      # the patch under /verif/seeded/<ID>/ was rebased by hand onto later fix: commits
checks = [c for c in checks if not c.startswith("--")] or [pid]
for f in ("patch.diff", "demo.py", "meta.json"):
    if f == "patch.diff" and keep and os.path.exists(os.path.join(dst, f)):
        continue
    if os.path.exists(os.path.join(src, f)):
        shutil.copy(os.path.join(src, f), os.path.join(dst, f))
# the demonstration must not depend on the worktree path
demo = open(os.path.join(dst, "demo.py")).read().replace(f"/tmp/wt8_{pid}", "${TREE}").replace(f"/tmp/wt7_{pid}", "${TREE}").replace(f"/tmp/wt6_{pid}", "${TREE}").replace(f"/tmp/wt5_{pid}", "${TREE}").replace(f"/tmp/wt4_{pid}", "${TREE}").replace(f"/tmp/wt3_{pid}", "${TREE}").replace(f"/tmp/wt2_{pid}", "${TREE}").replace(f"/tmp/wt_{pid}", "${TREE}")
open(os.path.join(dst, "demo.py"), "w").write(demo)
meta = json.load(open(os.path.join(dst, "meta.json"))) if os.path.exists(os.path.join(dst, "meta.json")) else {"property": pid}
if keep:
    meta["patch_rebased"] = "patch.diff was rebased by hand onto the fix: commits made after the sub-agent's worktree was created; patch_as_produced.diff is the sub-agent's own"
env0 = dict(os.environ, OMP_NUM_THREADS="2")


def run_demo(tree):
    r = subprocess.run(["/venv/bin/python", os.path.join(dst, "demo.py")], capture_output=True, text=True, env=dict(env0, PYTHONPATH=os.path.join(tree, "src")), cwd=tree, timeout=3000)
    return r.returncode, (r.stdout + r.stderr)[-600:]


d = tempfile.mkdtemp(prefix="leaspy_seed_")
try:
    shutil.copytree("/repo/src", os.path.join(d, "src"), ignore=shutil.ignore_patterns("__pycache__"))
    rc0, out0 = run_demo("/repo")
    r = subprocess.run(["patch", "-p1", "-s", "-i", os.path.join(dst, "patch.diff")], cwd=d, capture_output=True, text=True)
    if r.returncode != 0:
        print("PATCH DOES NOT APPLY to the current /repo:", r.stdout, r.stderr)
        meta["applies_to_current_repo"] = False
        json.dump(meta, open(os.path.join(dst, "meta.json"), "w"), indent=1)
        sys.exit(2)
    rc1, out1 = run_demo(d)
    meta["confirmed_by_main_session"] = {"demo_exit_unchanged_tree": rc0, "demo_exit_changed_tree": rc1, "demo_output_changed_tree": out1[-400:]}
    print(f"demo: unchanged tree exit {rc0}, changed tree exit {rc1}")
    res = {}
    for c in checks:
        r = subprocess.run(["/verif/check", c, "--tier", "quick"], capture_output=True, text=True, env=dict(os.environ, VERIF_REPO=d), cwd="/verif")
        lines = (r.stdout + r.stderr).splitlines()
        viol = [l for l in lines if l.startswith("VIOLATION")]
        fo = [l.strip()[len("failed obligation: "):] for l in lines if l.strip().startswith("failed obligation")]
        res[c] = {"exit": r.returncode, "violations": len(viol), "with_failing_input": len([l for l in viol if not l.rstrip().endswith("no-failing-input-found")]),
                  "undecided": len([l for l in lines if l.startswith("UNDECIDED")]), "first_failed_obligations": fo[:4]}
        print(c, res[c]["exit"], res[c]["violations"], res[c]["with_failing_input"], fo[:1])
    meta["checks_on_changed_tree"] = res
    meta["caught"] = any(v["exit"] == 1 for v in res.values())
    json.dump(meta, open(os.path.join(dst, "meta.json"), "w"), indent=1)
finally:
    shutil.rmtree(d, ignore_errors=True)
