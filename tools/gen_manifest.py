#!/usr/bin/env python3
"""regenerate /verif/MANIFEST.json from the table below (keeps it schema-valid at all times)"""
import json, os, subprocess
ROOT = os.path.dirname(os.path.dirname(os.path.abspath(__file__)))
props = [json.loads(l) for l in open(os.path.join(ROOT, "properties.jsonl"))]
baseline = json.load(open("/root/.vp/BASELINE.json"))["cmd"].replace("--junitxml=<file>", "--junitxml=/tmp/leaspy_baseline.junit.xml")

TECH = "contract-based deductive verification: VCs generated from the AST of the real functions against sidecar contracts, discharged by z3/cvc5"
CLAIMS = {}
exec(open(os.path.join(ROOT, "tools", "claims.py")).read())

fix_commits = []
for line in open(os.path.join(ROOT, "known_findings.txt")):
    if line.startswith("fixed:"):
        fix_commits.append(line.split()[2])

checks = []
for p in props:
    c = CLAIMS.get(p["id"])
    if not c:
        continue
    checks.append({
        "property_id": p["id"],
        "quick_cmd": f"./check {p['id']} --tier quick",
        "thorough_cmd": f"./check {p['id']} --tier thorough",
        "evidence_file": f"evidence/{p['id']}.json",
        "replay_cmd_template": f"./check {p['id']} --replay {{path}}",
        "engine": "pyvc",
        "level_claimed": {"category": c.get("category", "proof"), "text": c["text"], "design_ref": c.get("ref", f"DESIGN.md section 5, {p['id']}")},
        "level_note": c["note"],
        "technique": c.get("technique", TECH),
    })
na = [{"property_id": p["id"], "reason": NOT_APPLICABLE.get(p["id"], "check not built yet in this session (planned contracts: DESIGN.md section 5)")}
      for p in props if p["id"] not in CLAIMS]
m = {"version": 1, "setup_cmd": "./setup.sh",
     "hooks": {"guard": "LEASPY_VERIF",
               "enable": "no source hooks: contracts are sidecar files under /verif/contracts and stand-ins monkey-patch inside the check's own process; ./check exports LEASPY_VERIF=1 (reserved; nothing in /repo reads it)",
               "baseline_off_cmd": baseline, "source_commits": [], "add_only": True},
     "engines": [{"name": "pyvc", "path": "pyvc/", "serves_properties": sorted(CLAIMS),
                  "kind_free_text": "contract-based deductive verifier built here: symbolic execution of the real function objects' AST (source re-read from /repo on every run) against sidecar contracts; callers are checked against callee contracts; loops are cut by invariants; VCs discharged by z3 (python API) and cvc5; counterexamples replayed natively on the real code; bounded stand-ins = run-time contracts on the real functions over stated spaces"}],
     "checks": checks, "not_applicable": na,
     "notes": "fix: commits in /repo (unguarded repairs of genuine defects, see known_findings.txt): " + ", ".join(fix_commits)}
json.dump(m, open(os.path.join(ROOT, "MANIFEST.json"), "w"), indent=1)
print("claimed:", sorted(CLAIMS), "not applicable:", len(na))
