#!/usr/bin/env python3
"""re-run every stored seeded change against its property's check (scratch copy, VERIF_REPO) and refresh meta.json
usage: reverify_seeded.py [-jN] [NAME ...]   (N changes at a time, default 3: every check itself uses all cores)"""
import glob, json, os, shutil, subprocess, sys, tempfile
from concurrent.futures import ThreadPoolExecutor
args = sys.argv[1:]
jobs = next((int(a[2:]) for a in args if a.startswith("-j")), 3)
only = [a for a in args if not a.startswith("-j")]


def one(d):
    name = os.path.basename(d)
    pid = name[:3]
    meta_p = os.path.join(d, "meta.json")
    meta = json.load(open(meta_p))
    checks = list(meta.get("checks_on_changed_tree", {pid: 0}))
    if pid not in checks:
        checks.insert(0, pid)
    t = tempfile.mkdtemp(prefix="leaspy_seed_")
    try:
        shutil.copytree("/repo/src", os.path.join(t, "src"), ignore=shutil.ignore_patterns("__pycache__"))
        r = subprocess.run(["patch", "-p1", "-s", "-i", os.path.join(d, "patch.diff")], cwd=t, capture_output=True, text=True)
        if r.returncode != 0:
            return (name, "PATCH DOES NOT APPLY")
        res = {}
        for c in checks:
            r = subprocess.run(["/verif/check", c, "--tier", "quick"], capture_output=True, text=True, env=dict(os.environ, VERIF_REPO=t), cwd="/verif")
            lines = (r.stdout + r.stderr).splitlines()
            viol = [l for l in lines if l.startswith("VIOLATION")]
            fo = [l.strip()[len("failed obligation: "):] for l in lines if l.strip().startswith("failed obligation")]
            res[c] = {"exit": r.returncode, "violations": len(viol), "with_failing_input": len([l for l in viol if not l.rstrip().endswith("no-failing-input-found")]),
                      "undecided": len([l for l in lines if l.startswith("UNDECIDED")]), "first_failed_obligations": fo[:4]}
        meta["checks_on_changed_tree"] = res
        meta["caught"] = any(v["exit"] == 1 for v in res.values())
        json.dump(meta, open(meta_p, "w"), indent=1)
        return (name, " ".join(f"{c}:exit{v['exit']}" for c, v in res.items()), "CAUGHT" if meta["caught"] else "MISSED")
    finally:
        shutil.rmtree(t, ignore_errors=True)


dirs = [d for d in sorted(glob.glob("/verif/seeded/C*")) if not only or os.path.basename(d) in only]
rows = []
with ThreadPoolExecutor(jobs) as ex:
    for row in ex.map(one, dirs):
        rows.append(row)
        print(row, flush=True)
print("missed:", [r[0] for r in rows if r[-1] != "CAUGHT"])
