# table read by tools/gen_manifest.py
NOT_APPLICABLE = {}
CLAIMS = {
 "C05": dict(
   text="Proof: every obligation generated from the current source of _is_burn_in, AlgorithmWithSamplersMixin.__init__, TensorMcmcSaemAlgorithm.__init__ and _maximization_step is discharged for all iteration numbers, burn-in counts/fractions, step powers and statistic key sets (no bound); the convex-combination clause is a quantified statement over the dictionary of statistics.",
   note="Assumes: real arithmetic for floats (int(frac*n_iter) is floor of the real product), x**-p as an uninterpreted real power, callee contracts of compute_sufficient_statistics (key set) and update_parameters (probe), library models listed in the evidence."),
 "C19": dict(
   text="Proof: contracts on the annealing constructor, _initialize_annealing, _update_temperature (per-iteration transition relation incl. exactness at the last plateau), the acceptance-band setters, _update_std and _update_acceptation_rate (tensor code, any rank 0-2 and any sizes), plus the schedule lemma T_k = max(T0 - floor(k/p) d, 1) proved by induction from the contracts; one recorded known finding (n_plateau=1).",
   note="Assumes: real arithmetic (std overflow after ~930 one-sided adaptations not modelled); division-algorithm hints k = p*(k div p) + k mod p given to the solver as hypotheses; oscillating branch outside the default scheme not covered."),
}
