#!/usr/bin/env python3
"""print the markdown table of DESIGN.md section G from seeded/*/meta.json"""
import glob, json, os
rows = []
for f in sorted(glob.glob("/verif/seeded/*/meta.json")):
    m = json.load(open(f))
    pid = os.path.basename(os.path.dirname(f))
    res = m.get("checks_on_changed_tree", {})
    own = res.get(pid[:3], {})
    how = []
    for c, r in res.items():
        if r["exit"] == 1:
            fo = (r.get("first_failed_obligations") or [""])[0]
            kind = "stand-in" if fo.startswith("stand-in") else "obligation"
            how.append(f"`./check {c}` exit 1 ({r['violations']} violation(s), {r['with_failing_input']} with a failing input; first: {kind} \"{fo[:110]}\")")
        else:
            how.append(f"`./check {c}` exit {r['exit']}")
    summ = (m.get("summary") or "").replace("\n", " ").replace("|", "/")
    rows.append(f"| {pid} | {', '.join(m.get('files_changed', []))[:80]} | {summ[:260]} | {'; '.join(how)} |")
print("| id | file | change (sub-agent's summary, abridged) | result on the changed tree |")
print("|----|----|----|----|")
print("\n".join(rows))
