/-
C15 -- lemmas over the contracts of Kahn's algorithm (EdgeStep / NodeStep of contracts/c15.py).
The solvers discharge the one-step facts; the inductions over paths are done here (Lean 4 + Mathlib).
`E a b` : a is a direct ancestor of b (an edge a -> b).  `P a b` : entry (a, b) of the path matrix is set.
-/
import Mathlib.Logic.Relation

open Relation

/-- Completeness step.  EdgeStep's "closure" lemma gives, once every edge has been processed: P contains every edge, and
    whatever reached p (when the edge p -> b was processed, column p was final) reaches b.  Then P contains every path. -/
theorem closure_contains_paths {V : Type} (E P : V → V → Prop)
    (hedge : ∀ a b, E a b → P a b)
    (hstep : ∀ a p b, P a p → E p b → P a b) :
    ∀ a b, TransGen E a b → P a b := by
  intro a b h
  induction h with
  | single hab => exact hedge _ _ hab
  | tail _ hpb ih => exact hstep _ _ _ ih hpb

/-- Soundness over a whole run: if every entry that is set stands for a path (EdgeStep's soundness lemma, preserved by every
    step, true for the all-false initial matrix), then together with completeness the matrix IS the transitive closure. -/
theorem matrix_is_closure {V : Type} (E P : V → V → Prop)
    (hsound : ∀ a b, P a b → TransGen E a b)
    (hedge : ∀ a b, E a b → P a b)
    (hstep : ∀ a p b, P a p → E p b → P a b) :
    ∀ a b, P a b ↔ TransGen E a b :=
  fun a b => ⟨hsound a b, closure_contains_paths E P hedge hstep a b⟩

/-- The emission order is topological for the closure as soon as it is for the edges: a node emitted after each of its direct
    ancestors is emitted after every transitive ancestor. -/
theorem order_respects_paths {V : Type} (E : V → V → Prop) (pos : V → Nat)
    (h : ∀ a b, E a b → pos a < pos b) :
    ∀ a b, TransGen E a b → pos a < pos b := by
  intro a b hab
  induction hab with
  | single e => exact h _ _ e
  | tail _ e ih => exact Nat.lt_trans ih (h _ _ e)

/-- Hence a graph whose nodes could all be emitted in such an order has no cycle. -/
theorem emitted_order_implies_acyclic {V : Type} (E : V → V → Prop) (pos : V → Nat)
    (h : ∀ a b, E a b → pos a < pos b) : ∀ a, ¬ TransGen E a a :=
  fun a haa => Nat.lt_irrefl _ (order_respects_paths E pos h a a haa)
