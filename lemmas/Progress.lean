/-
C15 -- progress of Kahn's algorithm (the "accepted iff acyclic" half that the one-step contracts cannot give).
At termination the queue is empty; the loop invariant (contracts EdgeStep / NodeStep + lemma `kahn invariant` of contracts/c15.py)
says: a node is emitted iff all its direct ancestors were emitted and it was dequeued, and every non-emitted node still has a
remaining (= non-emitted) direct ancestor.  On a finite graph such a non-empty "stuck" set forces a cycle.
-/
import Mathlib.Data.Fintype.Card
import Mathlib.Order.WellFounded
import Mathlib.Logic.Relation

open Relation

/-- A non-empty set of nodes each of which has a direct ancestor inside the set contains a cycle (finite graphs). -/
theorem stuck_set_has_cycle {V : Type} [Finite V] (E : V → V → Prop) (S : Set V)
    (hne : S.Nonempty) (hpred : ∀ m ∈ S, ∃ a ∈ S, E a m) : ∃ v, TransGen E v v := by
  by_contra hno
  push Not at hno
  have : Std.Irrefl (TransGen E) := ⟨hno⟩
  have : IsTrans V (TransGen E) := ⟨fun _ _ _ => TransGen.trans⟩
  have hwf : WellFounded (TransGen E) := Finite.wellFounded_of_trans_of_irrefl _
  obtain ⟨m, hm, hmin⟩ := hwf.has_min S hne
  obtain ⟨a, ha, hE⟩ := hpred m hm
  exact hmin a ha (TransGen.single hE)

/-- Completeness of Kahn's algorithm: if the graph is acyclic and, when the queue runs empty, every non-emitted node still has a
    non-emitted direct ancestor (the loop invariant), then every node was emitted. -/
theorem acyclic_all_emitted {V : Type} [Finite V] (E : V → V → Prop) (emitted : V → Prop)
    (hacyc : ∀ v, ¬ TransGen E v v)
    (hstuck : ∀ m, ¬ emitted m → ∃ a, ¬ emitted a ∧ E a m) : ∀ v, emitted v := by
  intro v
  by_contra hv
  obtain ⟨w, hw⟩ := stuck_set_has_cycle E {m | ¬ emitted m} ⟨v, hv⟩
    (fun m hm => by
      obtain ⟨a, ha, hE⟩ := hstuck m hm
      exact ⟨a, ha, hE⟩)
  exact hacyc w hw

/-- Hence: the acyclicity test of the real code (ValueError iff some node was never emitted) refuses exactly the cyclic graphs,
    given the invariant and the emission order respecting the edges. -/
theorem refused_iff_cyclic {V : Type} [Finite V] (E : V → V → Prop) (emitted : V → Prop) (pos : V → Nat)
    (hstuck : ∀ m, ¬ emitted m → ∃ a, ¬ emitted a ∧ E a m)
    (horder : ∀ a b, emitted b → E a b → emitted a ∧ pos a < pos b) :
    (∃ v, ¬ emitted v) ↔ (∃ v, TransGen E v v) := by
  constructor
  · rintro ⟨v, hv⟩
    exact stuck_set_has_cycle E {m | ¬ emitted m} ⟨v, hv⟩
      (fun m hm => by
        obtain ⟨a, ha, hE⟩ := hstuck m hm
        exact ⟨a, ha, hE⟩)
  · rintro ⟨v, hcyc⟩
    by_contra hall
    push Not at hall
    -- every node emitted: positions strictly increase along every path, so no cycle
    have hpath : ∀ a b, TransGen E a b → pos a < pos b := by
      intro a b hab
      induction hab with
      | single e => exact (horder _ _ (hall _) e).2
      | tail _ e ih => exact Nat.lt_trans ih (horder _ _ (hall _) e).2
    exact Nat.lt_irrefl _ (hpath v v hcyc)
