"""run-time contracts on the REAL samplers with REAL model states (bounded stand-in for C02 / C03 / C07):
every sampler step is replayed from its recorded random draws against an independent evaluation
("from scratch": brand-new State objects fed with the independent values only)."""
import contextlib
import random

import torch

from .common import MODEL_KINDS, make_model_state, same_value, quiet


def fresh_eval(state, overrides, names):
    """values of `names` evaluated from scratch with some independent values overridden"""
    from leaspy.variables.state import State
    from leaspy.variables.specs import IndepVariable
    fresh = State(state.dag)
    for n in state.dag:
        var = state.dag[n]
        if isinstance(var, IndepVariable) and var.is_settable:
            v = overrides.get(n, state._values[n])
            if v is not None:
                fresh._values[n] = v
    return [fresh.get_tensor_value(n) for n in names]


@contextlib.contextmanager
def record_draws(log):
    orig_rand, orig_randn = torch.rand, torch.randn

    def rand(*a, **k):
        r = orig_rand(*a, **k)
        log.append(("U", r.clone()))
        return r

    def randn(*a, **k):
        r = orig_randn(*a, **k)
        log.append(("Z", r.clone()))
        return r
    torch.rand, torch.randn = rand, randn
    try:
        yield
    finally:
        torch.rand, torch.randn = orig_rand, orig_randn


def make_algo(model, state, ds, seed, sampler_pop="Gibbs"):
    from leaspy.algo import AlgorithmSettings, algorithm_factory
    settings = AlgorithmSettings("mcmc_saem", n_iter=10, seed=seed, sampler_pop=sampler_pop, progress_bar=False)
    with quiet():
        algo = algorithm_factory(settings)
    algo._initialize_samplers(state, ds)
    return algo


def tensor_of(v):
    return v.value if hasattr(v, "weight") else v


def check_individual_step(state, sampler, beta, violations, ctx):
    name = sampler.name
    old = state[name].clone()
    std = sampler.std.clone()
    indep_before = {n: v for n, v in state._values.items()}
    log = []
    with record_draws(log):
        sampler.sample(state, temperature_inv=beta)
    kinds = [k for k, _ in log]
    if kinds != ["Z", "U"]:
        violations.append(dict(key=f"individual sampler {name}: draws {kinds} instead of one normal and one uniform draw", **ctx))
        return 0
    Z, U = log[0][1], log[1][1]
    n_ind = old.shape[0]
    if U.shape != (n_ind,):
        violations.append(dict(key=f"individual sampler {name}: uniform draw of shape {tuple(U.shape)}, not one per individual", **ctx))
        return 0
    proposed = old + std.reshape((-1,) + (1,) * (old.ndim - 1)) * Z
    names = ["nll_attach_ind", f"nll_regul_{name}_ind"]
    A0, R0 = fresh_eval(state, {name: old}, names)
    A1, R1 = fresh_eval(state, {name: proposed}, names)
    if R0.ndim == 2:
        # mixture model: one regularity per cluster, weighted by the individual's cluster responsibilities IN THE SAME STATE
        # (softmax of minus the per-cluster total regularity): the change of everything that depends on the block
        S0, = fresh_eval(state, {name: old}, ["nll_regul_ind_sum_ind"])
        S1, = fresh_eval(state, {name: proposed}, ["nll_regul_ind_sum_ind"])
        P0 = torch.softmax(torch.clamp(-tensor_of(S0), -100.0), dim=1)
        P1 = torch.softmax(torch.clamp(-tensor_of(S1), -100.0), dim=1)
        R0, R1 = (P0 * R0).sum(dim=1), (P1 * R1).sum(dim=1)
    alpha = torch.exp(-((R1 - R0) * beta + (A1 - A0)))
    acc = U < alpha
    risky = (U - alpha).abs() < 1e-6
    want = torch.where(acc.reshape((-1,) + (1,) * (old.ndim - 1)), proposed, old)
    got = state[name]
    ok_rows = risky | (got.reshape(n_ind, -1) == want.reshape(n_ind, -1)).all(dim=1)
    if not bool(ok_rows.all()):
        i = int((~ok_rows).nonzero()[0])
        violations.append(dict(key=f"individual sampler {name}: row {i} is neither the exact pre-proposal value (rejected) nor the exact proposal (accepted) as decided by U < exp(-(dR*beta + dA)) on its own terms",
                               U=float(U[i]), alpha=float(alpha[i]), old=old[i].tolist(), proposed=proposed[i].tolist(), got=got[i].tolist(), **ctx))
        return 1
    # nothing else changed, derived values are those of the final view
    for n, v in indep_before.items():
        from leaspy.variables.specs import IndepVariable
        if n != name and isinstance(state.dag[n], IndepVariable) and not same_value(state._values[n], v):
            violations.append(dict(key=f"individual sampler {name}: independent variable {n} changed", **ctx))
            return 1
    for n in ("nll_attach_ind", f"nll_regul_{name}_ind", "nll_attach", "nll_regul_ind_sum"):
        cached = state.get_tensor_value(n)
        scratch, = fresh_eval(state, {}, [n])
        if not same_value(cached, scratch, exact=False, tol=1e-5):
            violations.append(dict(key=f"individual sampler {name}: {n} read after the step differs from its from-scratch value", **ctx))
            return 1
    return 1


def check_population_step(state, sampler, beta, violations, ctx):
    name = sampler.name
    cur = state[name].clone()
    std = sampler.std.clone()
    blocks = []
    orig = sampler._get_shuffled_iterator_indices

    def spy():
        r = orig()
        blocks.extend(r)
        return r
    sampler._get_shuffled_iterator_indices = spy
    log = []
    from leaspy.exceptions import LeaspyException
    try:
        with record_draws(log):
            sampler.sample(state, temperature_inv=beta)
    except LeaspyException:
        raise
    except (ArithmeticError, ValueError, TypeError, IndexError, RuntimeError) as e:
        # a sampler step on a valid state takes its decisions and returns: an arithmetic / value error escaping from it means
        # a proposal was neither accepted nor rejected
        violations.append(dict(key=f"population sampler {name}: the step raised {type(e).__name__} instead of deciding every block", error=str(e)[:200], **ctx))
        return 0
    finally:
        del sampler._get_shuffled_iterator_indices
    kinds = [k for k, _ in log]
    if kinds != ["Z", "U"] * len(blocks):
        violations.append(dict(key=f"population sampler {name}: draws {kinds[:6]}... do not alternate one normal / one uniform per block", **ctx))
        return 0
    expected_blocks = set(__import__("numpy").ndindex(sampler.shape_adapted_std))
    if set(blocks) != expected_blocks or len(blocks) != len(expected_blocks):
        violations.append(dict(key=f"population sampler {name}: blocks visited {blocks} are not each block exactly once", **ctx))
        return 0
    names = ["nll_attach", f"nll_regul_{name}"]
    n = 0
    for b, idx in enumerate(blocks):
        Z, U = log[2 * b][1], log[2 * b + 1][1]
        if tuple(Z.shape) != tuple(sampler.shape[len(idx):]):
            violations.append(dict(key=f"population sampler {name}: proposal of shape {tuple(Z.shape)} for block {idx}", **ctx))
            return n
        delta = std[idx] * Z
        proposed = cur.index_put(tuple(map(torch.tensor, idx)), delta, accumulate=True) if idx else cur + delta
        A0, R0 = fresh_eval(state, {name: cur}, names)
        A1, R1 = fresh_eval(state, {name: proposed}, names)
        alpha = torch.exp(-((R1 - R0) * beta + (A1 - A0)))
        n += 1
        if abs(float(U) - float(alpha)) < 1e-6:
            return n   # undecidable by rounding: stop replaying this step
        if bool(U < alpha):
            cur = proposed
    got = state[name]
    if not torch.equal(got, cur):
        violations.append(dict(key=f"population sampler {name}: final value differs from the replay of the recorded draws with "
                                   "accept iff U < exp(-(dR*beta + dA)) and exact restoration of rejected blocks",
                               got=got.tolist(), want=cur.tolist(), blocks=[list(b) for b in blocks], **ctx))
        return n
    for nn in ("nll_attach", f"nll_regul_{name}", "nll_attach_ind"):
        cached = state.get_tensor_value(nn)
        scratch, = fresh_eval(state, {}, [nn])
        if not same_value(cached, scratch, exact=False, tol=1e-5):
            violations.append(dict(key=f"population sampler {name}: {nn} read after the step differs from its from-scratch value", **ctx))
            return n
    return n


def run(tier, seed, which=("ind", "pop")):
    rng = random.Random(seed)
    violations, evals, distinct, samples = [], 0, set(), []
    sweeps = 2 if tier == "quick" else 12
    pops = ["Gibbs", "FastGibbs", "Metropolis-Hastings"]
    for k, (kind, kw, n_ft) in enumerate(MODEL_KINDS):
        model, state, ds, df = make_model_state(kind, kw, n_ft, seed=seed + k)
        algo = make_algo(model, state, ds, seed, sampler_pop=pops[k % 3] if tier == "quick" else "Gibbs")
        torch.manual_seed(seed + k)
        for sweep in range(sweeps):
            beta = rng.choice([1.0, 0.5, 0.1])
            for name, sampler in algo.samplers.items():
                ctx = dict(model=kind, hyper=str(kw), variable=name, sweep=sweep, beta=beta, seed=seed + k,
                           sampler=type(sampler).__name__)
                is_ind = type(sampler).__name__ == "IndividualGibbsSampler"
                if is_ind and "ind" in which:
                    e = check_individual_step(state, sampler, beta, violations, ctx)
                elif not is_ind and "pop" in which:
                    e = check_population_step(state, sampler, beta, violations, ctx)
                else:
                    with quiet():
                        sampler.sample(state, temperature_inv=beta)
                    e = 0
                evals += e
                if e:
                    distinct.add((kind, str(kw), name, sweep))
                if len(samples) < 3 and e:
                    samples.append(ctx)
                if violations:
                    break
            if violations:
                break
        if not violations and "ind" in which and k == 0:
            # the mixture model (cluster axis): individual sampler steps against the same from-scratch rule
            modelm, statem, dsm, dfm = make_model_state("mixture_logistic", dict(n_clusters=2, source_dimension=1, dimension=3), 3, seed=seed + 31)
            algom = make_algo(modelm, statem, dsm, seed)
            torch.manual_seed(seed + 31)
            for sweep in range(3 if tier == "quick" else 8):
                beta_m = [1.0, 0.125, 0.4][sweep % 3]        # also under tempering: the temperature weights the change of regularity only
                for name, sampler in algom.samplers.items():
                    if type(sampler).__name__ == "IndividualGibbsSampler":
                        ctx = dict(model="mixture_logistic", hyper="2 clusters", variable=name, sweep=sweep, beta=beta_m, seed=seed + 31, sampler="IndividualGibbsSampler")
                        e = check_individual_step(statem, sampler, beta_m, violations, ctx)
                        evals += e
                        if e:
                            distinct.add(("mixture", name, sweep))
                    else:
                        with quiet():
                            sampler.sample(statem, temperature_inv=1.0)
                    if violations:
                        break
                if violations:
                    break
        if not violations and "pop" in which and (k == 0 or tier != "quick"):
            # proposals whose evaluation is extreme / non-finite: same contract (one uniform draw per decision, exact restoration)
            model2, state2, ds2, df2 = make_model_state(kind, kw, n_ft, seed=seed + k)
            algo2 = make_algo(model2, state2, ds2, seed, sampler_pop=pops[k % 3])
            for name, sampler in algo2.samplers.items():
                if type(sampler).__name__ != "IndividualGibbsSampler":
                    sampler.std = sampler.std * 1e25
                    ctx = dict(model=kind, hyper=str(kw), variable=name, sweep="extreme proposal scale", beta=1.0, seed=seed + k, sampler=type(sampler).__name__)
                    from leaspy.exceptions import LeaspyModelInputError
                    try:
                        e = check_population_step(state2, sampler, 1.0, violations, ctx)
                    except LeaspyModelInputError:
                        # the model itself refuses this configuration while evaluating it (e.g. a metric that is not positive once
                        # g overflows): the run is aborted by the model, no sampler decision is taken -- not a sampler step
                        model2, state2, ds2, df2 = make_model_state(kind, kw, n_ft, seed=seed + k)
                        algo2b = make_algo(model2, state2, ds2, seed, sampler_pop=pops[k % 3])
                        continue
                    evals += e
                    distinct.add((kind, str(kw), name, "extreme"))
                    if violations:
                        break
        if not violations and "pop" in which and (k == 0 or tier != "quick"):
            # overwhelmingly better proposals: a sharp likelihood (tiny noise) and a population variable far from where the data
            # want it make exp(-D) exceed every finite number; such a proposal is simply accepted (U < exp(-D) holds)
            model3, state3, ds3, df3 = make_model_state(kind, kw, n_ft, seed=seed + k)
            algo3 = make_algo(model3, state3, ds3, seed, sampler_pop=pops[(k + 1) % 3])
            first_pop = next((nm for nm, sp_ in algo3.samplers.items() if type(sp_).__name__ != "IndividualGibbsSampler"), None)
            if first_pop is not None and "noise_std" in state3.dag:
                with state3.auto_fork(None):
                    state3["noise_std"] = torch.full_like(state3["noise_std"], 2e-3)
                    state3[first_pop] = state3[first_pop] + 1.5
                sampler = algo3.samplers[first_pop]
                sampler.std = torch.full_like(sampler.std, 0.3)
                torch.manual_seed(seed + 77)
                for sweep in range(6 if tier == "quick" else 20):
                    beta3 = [1.0, 0.5][sweep % 2]
                    ctx = dict(model=kind, hyper=str(kw), variable=first_pop, sweep=f"overwhelming improvement {sweep}", beta=beta3, seed=seed + k, sampler=type(sampler).__name__)
                    from leaspy.exceptions import LeaspyModelInputError
                    try:
                        e = check_population_step(state3, sampler, beta3, violations, ctx)
                    except LeaspyModelInputError:
                        break
                    evals += e
                    distinct.add((kind, str(kw), first_pop, "overwhelming", sweep))
                    if violations:
                        break
        if tier != "quick" and not violations:
            for sp in pops[1:]:
                model, state, ds, df = make_model_state(kind, kw, n_ft, seed=seed + k)
                algo = make_algo(model, state, ds, seed, sampler_pop=sp)
                for name, sampler in algo.samplers.items():
                    if type(sampler).__name__ != "IndividualGibbsSampler" and "pop" in which:
                        ctx = dict(model=kind, hyper=str(kw), variable=name, sweep=0, beta=1.0, seed=seed + k, sampler=type(sampler).__name__)
                        evals += check_population_step(state, sampler, 1.0, violations, ctx)
                        distinct.add((kind, str(kw), name, sp))
        if violations:
            break
    return dict(evaluations=evals, distinct_nontrivial=len(distinct),
                rule="one evaluation = one sampler decision (block or cohort step) of a real sampler on a real model state, "
                     "replayed from its recorded draws against from-scratch evaluations; distinct = (model kind, variable, sweep)",
                samples=samples, violations=violations[:60],
                bound=dict(space="seeded sampler sweeps on the shipped model kinds", model_kinds=len(MODEL_KINDS),
                           sweeps=sweeps, exhaustive=False, seed=seed))
