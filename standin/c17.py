"""C17 bounded stand-in: the real personalisation algorithms (scipy_minimize, mean_posterior, mode_posterior) on fitted and
re-loaded models of several kinds, seeded cohorts with identifiers in non-sorted order (numeric-looking ones included), a
one-visit subject and missing values.  Checked at run time, on the real objects:
  * one finite set of parameters per input individual, identifiers as strings in input order, shapes as the model expects;
  * scipy_minimize: the posterior objective at the returned point <= the objective at the point scipy was started from
    (both evaluated on an independent copy of the subject's state);
  * sampling: the values handed to the estimator are exactly the states recorded after each iteration past the burn-in,
    and the result is their mean (mean_posterior) / each individual's lowest-loss draw (mode_posterior);
  * a burn-in that keeps no sample is refused as a configuration error, not a crash."""
import tempfile
import os

import numpy as np
import torch

from .common import MODEL_KINDS, cohort, fitted_model, quiet

ASSUMPTIONS = ["stand-in C17: seeded cohorts of 5 individuals, short chains (<= 40 iterations), n_jobs=1; the optimiser's own "
               "guarantee (result not worse than its start) is observed, not proved"]


def person_cohort(seed, n_ft):
    df = cohort(seed + 101, n_ind=5, n_ft=n_ft, min_visits=2, max_visits=4, missing=0.15)
    ids = sorted(df["ID"].unique())
    new = dict(zip(ids, ["10", "9", "007", "zz", "b"]))
    df["ID"] = df["ID"].map(new)
    # one subject with a single visit
    first = df[df["ID"] == "zz"].index[1:]
    df = df.drop(first)
    # input order: not sorted
    order = {"zz": 0, "10": 1, "b": 2, "9": 3, "007": 4}
    df = df.sort_values(by=["ID", "TIME"], key=lambda c: c.map(order) if c.name == "ID" else c, kind="stable").reset_index(drop=True)
    return df, ["zz", "10", "b", "9", "007"]


def models_for(kind, kw, n_ft, seed):
    from leaspy.models import BaseModel
    m, _ = fitted_model(kind, seed=seed, n_iter=30, n_ind=8, n_ft=n_ft, **kw)
    d = tempfile.mkdtemp(prefix="c17_")
    try:
        p = os.path.join(d, "m.json")
        m.save(p)
        loaded = BaseModel.load(p)
    finally:
        import shutil
        shutil.rmtree(d, ignore_errors=True)
    return [("fitted", m), ("loaded", loaded)]


def expected_shapes(model):
    from leaspy.variables.specs import IndividualLatentVariable
    out = {}
    for n in model.dag.sorted_variables_by_type[IndividualLatentVariable]:
        out[n] = model.source_dimension if n == "sources" else 1
    return out


def check_alignment(ip, ids, model, what, violations):
    if ip._indices != ids:
        violations.append(dict(key=f"{what}: identifiers {ip._indices} instead of the input order {ids}"))
        return False
    shapes = expected_shapes(model)
    for sid in ids:
        d = ip[sid]
        if set(d) != set(shapes):
            violations.append(dict(key=f"{what}: parameters {sorted(d)} instead of {sorted(shapes)}"))
            return False
        for k, v in d.items():
            vals = v if isinstance(v, list) else [v]
            if len(vals) != shapes[k]:
                violations.append(dict(key=f"{what}: {k} has {len(vals)} component(s), the model expects {shapes[k]}"))
                return False
            if not all(np.isfinite(x) for x in vals):
                violations.append(dict(key=f"{what}: non-finite {k} for {sid}"))
                return False
    return True


def objective(model, data, sid, point):
    """nll_attach + nll_regul_ind_sum of one subject at `point` on an independent state"""
    from leaspy.io.data import Dataset
    ds = Dataset(data[[sid]], no_warning=True)
    st = model.state.clone(disable_auto_fork=True)
    model.put_data_variables(st, ds)
    for k, v in point.items():
        st[k] = torch.as_tensor(v, dtype=torch.float32).reshape(1, -1)
    return float(st["nll_attach"] + st["nll_regul_ind_sum"])


def standin_scipy(tier, seed):
    import leaspy.algo.personalize.scipy_minimize as sm
    from leaspy.io.data import Data
    violations, evals, distinct, samples = [], 0, set(), []
    kinds = MODEL_KINDS if tier == "thorough" else MODEL_KINDS[:3]
    for kind, kw, n_ft in kinds:
        df, ids = person_cohort(seed, n_ft)
        data = Data.from_dataframe(df)
        for (origin, model), use_jac in [(om, uj) for om in models_for(kind, kw, n_ft, seed) for uj in (False, True)]:
            if use_jac and origin != "fitted" and tier == "quick":
                continue
            what = f"scipy_minimize{' (use_jacobian=True)' if use_jac else ''} on a {origin} {kind}{kw or ''} model"
            calls = []
            real_minimize = sm.minimize

            def spy(fun, x0=None, args=(), **kws):
                state, scaling = args
                state0 = {n: state.get_tensor_value(n)[0].reshape(-1).tolist() for n in state.dag.individual_variable_names}
                res = real_minimize(fun, x0=x0, args=args, **kws)
                calls.append(dict(state0=state0,
                                  x0={k: v.squeeze(0).tolist() for k, v in scaling.unscaling(np.array(x0)).items()},
                                  x={k: v.squeeze(0).tolist() for k, v in scaling.unscaling(res.x).items()},
                                  f0=fun(np.array(x0), *args) if not kws.get("jac") else None, f=res.fun))
                return res
            sm.minimize = spy
            try:
                torch.manual_seed(seed)
                with quiet():
                    ip = model.personalize(data, "scipy_minimize", seed=seed, progress_bar=False, n_jobs=1, use_jacobian=use_jac)
            except Exception as e:
                violations.append(dict(key=f"{what}: raised {type(e).__name__}: {str(e)[:100]}"))
                continue
            finally:
                sm.minimize = real_minimize
            evals += 1
            distinct.add((kind, str(kw), origin, use_jac))
            if not check_alignment(ip, ids, model, what, violations):
                continue
            if len(calls) != len(ids):
                violations.append(dict(key=f"{what}: {len(calls)} optimisations for {len(ids)} individuals"))
                continue
            for sid, c in zip(ids, calls):
                evals += 1
                ret = ip[sid]
                got = {k: (v if isinstance(v, list) else [v]) for k, v in ret.items()}
                if any(not np.allclose(got[k], c["x"][k], rtol=1e-5, atol=1e-6) for k in got):
                    violations.append(dict(key=f"{what}: the parameters returned for an individual are not the optimiser's result for that individual",
                                           subject=sid, returned=str(got), optimiser=str(c["x"])))
                    break
                x0_flat = {k: np.atleast_1d(np.array(v, dtype=float)).reshape(-1) for k, v in c["x0"].items()}
                if any(not np.allclose(x0_flat[k], c["state0"][k], rtol=1e-4, atol=1e-5) for k in x0_flat):
                    # "the point it started from": the individual values the model put in the subject's state (the deductive unit
                    # OnePatient states the same); an optimiser started elsewhere is compared with another point than the property's
                    violations.append(dict(key=f"{what}: the optimisation is not started from the individual values the model put in the subject's state",
                                           subject=sid, state=str(c["state0"]), handed_to_scipy=str(c["x0"])))
                    break
                f_start, f_ret = objective(model, data, sid, c["x0"]), objective(model, data, sid, got)
                if not (f_ret <= f_start + 1e-4 * max(1.0, abs(f_start))):
                    violations.append(dict(key=f"{what}: objective at the returned point is worse than at the start point",
                                           subject=sid, start=f_start, returned=f_ret))
                    break
            if len(samples) < 2:
                samples.append(dict(model=f"{origin} {kind}", ids=ip._indices, first=str(ip[ids[0]])[:120]))
            if origin == "fitted" and not use_jac and kind == kinds[0][0]:
                # more than one worker: still one set of parameters per identifier, each identifier keeping ITS OWN estimate (the cohort
                # has unequal visit counts and is not listed in sorted order; low-digit differences between workers are a known
                # effect recorded under C07, another individual's parameters are units away)
                try:
                    with quiet():
                        ip2 = model.personalize(data, "scipy_minimize", seed=seed, progress_bar=False, n_jobs=2)
                except Exception as e:
                    violations.append(dict(key=f"{what} with n_jobs=2: raised {type(e).__name__}: {str(e)[:100]}"))
                    continue
                evals += 1
                if check_alignment(ip2, ids, model, what + " with n_jobs=2", violations):
                    def flat(d_):
                        return [x for v in d_.values() for x in (v if isinstance(v, list) else [v])]
                    moved = [sid for sid in ids if any(abs(x - y) > 0.05 + 0.01 * abs(x) for x, y in zip(flat(ip[sid]), flat(ip2[sid])))]
                    if moved:
                        violations.append(dict(key=f"{what}: with n_jobs=2 identifiers receive parameters far from their own n_jobs=1 estimate (another individual's?)",
                                               individuals=moved, one_worker=str(ip[moved[0]]), two_workers=str(ip2[moved[0]])))
    uniq = {v["key"]: v for v in violations}
    return dict(evaluations=evals, distinct_nontrivial=len(distinct),
                rule="one evaluation = one personalisation (alignment, shapes, finiteness) or one subject's objective comparison; distinct = (model kind, fitted|loaded)",
                samples=samples, violations=list(uniq.values())[:60],
                bound=dict(model_kinds=len(kinds), origins=2, individuals=5, seed=seed, exhaustive=False))


def standin_sampling(tier, seed):
    from leaspy.io.data import Data
    from leaspy.algo import AlgorithmSettings, algorithm_factory
    from leaspy.exceptions import LeaspyAlgoInputError
    import leaspy.algo.personalize.mcmc as pm
    violations, evals, distinct, samples = [], 0, set(), []
    kinds = MODEL_KINDS if tier == "thorough" else MODEL_KINDS[:2]
    settings_list = [dict(n_iter=12, n_burn_in_iter=5), dict(n_iter=10, n_burn_in_iter=0), dict(n_iter=8, n_burn_in_iter=7),
                     dict(n_iter=20, n_burn_in_iter=None, n_burn_in_iter_frac=0.5),
                     dict(n_iter=15, n_burn_in_iter=6, annealing=dict(do_annealing=True, initial_temperature=4.0, n_plateau=3, n_iter=6)),
                     # a long chain (many more kept draws than any fixed-size buffer would hold)
                     dict(n_iter=1500, n_burn_in_iter=100),
                     # annealing that goes on after the burn-in: kept draws sampled at a temperature > 1 are compared by their plain loss
                     dict(n_iter=24, n_burn_in_iter=4, annealing=dict(do_annealing=True, initial_temperature=8.0, n_plateau=6, n_iter=22))]
    for kind, kw, n_ft in kinds:
        df, ids = person_cohort(seed, n_ft)
        data = Data.from_dataframe(df)
        for origin, model in models_for(kind, kw, n_ft, seed)[:(2 if tier == "thorough" else 1)]:
            for algo_name in ("mean_posterior", "mode_posterior"):
                for sett in settings_list:
                    what = f"{algo_name} on a {origin} {kind}{kw or ''} model"
                    record, captured = [], {}
                    cls = pm.McmcPersonalizeAlgorithm
                    real_update = cls._update_temperature
                    real_get = cls._get_individual_parameters

                    def spy_get(self, model_, dataset, _rec=record, _cap=captured, _cls=cls, _real=real_get):
                        names = sorted(model_.dag.sorted_variables_by_type[__import__("leaspy").variables.specs.IndividualLatentVariable])
                        real_est = type(self)._compute_individual_parameters_from_samples_torch

                        def spy_update(self2):
                            st = self2._c17_state
                            _rec.append((self2.current_iteration, {n: st[n].clone() for n in names},
                                         st.get_tensor_value("nll_attach_ind").clone(), st.get_tensor_value("nll_regul_ind_sum_ind").clone()))
                            return real_update(self2)

                        def spy_init(self2, m2, d2, _ri=_cls._initialize_algo):
                            st = _ri(self2, m2, d2)
                            self2._c17_state = st
                            return st

                        def spy_est(self2, values, attachments, regularities):
                            out = real_est(self2, values, attachments, regularities)
                            _cap.update(values={k: v.clone() for k, v in values.items()}, attach=attachments.clone(), regul=regularities.clone(),
                                        out={k: v.clone() for k, v in out.items()}, n_burn=self2.algo_parameters.get("n_burn_in_iter"))
                            return out
                        _cls._update_temperature, _cls._initialize_algo = spy_update, spy_init
                        type(self)._compute_individual_parameters_from_samples_torch = spy_est
                        try:
                            return _real(self, model_, dataset)
                        finally:
                            _cls._update_temperature = real_update
                            del _cls._initialize_algo
                            type(self)._compute_individual_parameters_from_samples_torch = real_est
                    real_initialize = cls._initialize_algo
                    cls._get_individual_parameters = spy_get
                    try:
                        with quiet():
                            ip = model.personalize(data, algo_name, seed=seed, progress_bar=False, **sett)
                    except Exception as e:
                        violations.append(dict(key=f"{algo_name}: raised {type(e).__name__} with settings {sett}: {str(e)[:90]}"))
                        continue
                    finally:
                        cls._get_individual_parameters = real_get
                        cls._initialize_algo = real_initialize
                    evals += 1
                    distinct.add((kind, str(kw), origin, algo_name, str(sett)))
                    if not check_alignment(ip, ids, model, what, violations):
                        continue
                    n_iter = sett["n_iter"]
                    n_burn = captured["n_burn"]
                    kept = [r for r in record if r[0] > n_burn]
                    if len(record) != n_iter or [r[0] for r in record] != list(range(1, n_iter + 1)):
                        violations.append(dict(key=f"{what}: {len(record)} iterations recorded for n_iter={n_iter}"))
                        continue
                    vals = captured["values"]
                    ok = all(vals[n].shape[0] == len(kept) for n in vals) and captured["attach"].shape[0] == len(kept)
                    if ok:
                        for j, r in enumerate(kept):
                            ok = ok and all(torch.equal(vals[n][j], r[1][n]) for n in vals) and torch.equal(captured["attach"][j], r[2]) \
                                and torch.equal(captured["regul"][j], r[3])
                    if not ok:
                        violations.append(dict(key=f"{what}: the draws handed to the estimator are not exactly the states after each iteration past the burn-in "
                                                   f"({vals[next(iter(vals))].shape[0]} draws, {len(kept)} iterations after burn-in {n_burn} of {n_iter})"))
                        continue
                    # the estimator, against an independent numpy oracle
                    for n in vals:
                        arr = np.stack([r[1][n].numpy() for r in kept]).astype(np.float64)
                        if algo_name == "mean_posterior":
                            want = arr.mean(axis=0)
                        else:
                            loss = np.stack([(r[2] + r[3]).numpy() for r in kept]).astype(np.float64)
                            best = loss.argmin(axis=0)
                            want = np.stack([arr[best[i], i] for i in range(arr.shape[1])])
                        got = np.array([ip[sid][n] if isinstance(ip[sid][n], list) else [ip[sid][n]] for sid in ids], dtype=np.float64)
                        if got.shape != want.shape or not np.allclose(got, want, rtol=2e-6, atol=2e-6):
                            violations.append(dict(key=f"{what}: returned {n} is not the {'mean' if algo_name == 'mean_posterior' else 'lowest-loss draw'} of the kept draws",
                                                   got=got.tolist()[:3], want=want.tolist()[:3], settings=str(sett)))
                            break
                    if len(samples) < 2:
                        samples.append(dict(algo=algo_name, settings=str(sett), kept=len(kept), first=str(ip[ids[0]])[:100]))
    # a burn-in that keeps nothing must be refused as a configuration error
    kind, kw, n_ft = MODEL_KINDS[0]
    df, ids = person_cohort(seed, n_ft)
    model = models_for(kind, kw, n_ft, seed)[0][1]
    for algo_name in ("mean_posterior", "mode_posterior"):
        for sett in (dict(n_iter=6, n_burn_in_iter=6), dict(n_iter=6, n_burn_in_iter=None, n_burn_in_iter_frac=1.0)):
            evals += 1
            distinct.add(("empty", algo_name, str(sett)))
            try:
                with quiet():
                    ip = model.personalize(Data.from_dataframe(df), algo_name, seed=seed, progress_bar=False, **sett)
                check_alignment(ip, ids, model, f"{algo_name} with an all-burn-in chain", violations)
            except LeaspyAlgoInputError:
                pass
            except Exception as e:
                violations.append(dict(key=f"{algo_name}: a chain whose burn-in keeps no draw ({sett}) crashes with {type(e).__name__} instead of being refused: {str(e)[:80]}"))
    uniq = {v["key"]: v for v in violations}
    return dict(evaluations=evals, distinct_nontrivial=len(distinct),
                rule="one evaluation = one sampling-based personalisation with recorded chain; distinct = (model, origin, algorithm, settings)",
                samples=samples, violations=list(uniq.values())[:60],
                bound=dict(model_kinds=len(kinds), settings=len(settings_list), individuals=5, seed=seed, exhaustive=False))


STANDINS = [standin_scipy, standin_sampling]
