"""C14 bounded stand-in (the pandas readers are outside the verifier's subset): the REAL ingestion path
Data.from_dataframe -> Dataset -> Dataset.to_pandas -> re-ingestion on
  * ALL visit tables with <= 3 individuals x <= 3 visits x 2 features x entry in {value, missing}, in every row order of a
    rotation family, with identifiers as str / int / categorical: one tensor row per individual in order of first
    appearance, ages sorted, values / mask / ages aligned, mask exactly on present entries, counts correct, round trip stable,
    caller's table untouched;
  * each malformation kind of the property injected at each position: duplicate visit (also after rounding ages to 6 digits),
    NaN / inf age, non-numeric / inf value, invalid identifier, inconsistent events: refused with LeaspyDataInputError.
Exhaustive within the stated scope."""
import itertools
import math

import numpy as np
import pandas as pd

from .common import quiet

ASSUMPTIONS = ["stand-in C14: visit layout exhaustive in the stated small scope; event / joint / covariate layouts on representative tables"]


def expected(rows):
    """rows: list of (id, age, a, b) -> per id (in order of first appearance): sorted ages, values"""
    out = {}
    for sid, age, a, b in rows:
        if math.isnan(a) and math.isnan(b):
            continue        # visits without any value are dropped by the reader (drop_full_nan)
        out.setdefault(str(sid), []).append((age, a, b))
    return {k: sorted(v) for k, v in out.items() if v}


def check_table(rows, id_kind, violations, key):
    from leaspy.io.data import Data, Dataset
    from leaspy.exceptions import LeaspyDataInputError
    df = pd.DataFrame(rows, columns=["ID", "TIME", "A", "B"])
    if id_kind == "int":
        df["ID"] = df["ID"].map(lambda s: int(s[1:]))
    elif id_kind == "cat":
        df["ID"] = df["ID"].astype("category")
    before = df.copy(deep=True)
    exp = expected([(r[0] if id_kind != "int" else str(int(r[0][1:])), r[1], r[2], r[3]) for r in rows])
    try:
        with quiet():
            data = Data.from_dataframe(df)
            ds = Dataset(data)
    except LeaspyDataInputError as e:
        if exp and not all(math.isnan(r[2]) for r in rows) and not all(math.isnan(r[3]) for r in rows):
            violations.append(dict(key=f"{key}: a valid table was refused: {str(e)[:100]}", rows=[list(map(str, r)) for r in rows]))
        return False
    except Exception as e:
        violations.append(dict(key=f"{key}: {type(e).__name__} instead of a data-input error / success: {str(e)[:100]}", rows=[list(map(str, r)) for r in rows]))
        return False
    if not df.equals(before):
        violations.append(dict(key=f"{key}: the caller's table was modified"))
        return True
    ids = [str(i) for i in ds.indices]
    if ids != list(exp):
        violations.append(dict(key=f"{key}: individuals {ids}, expected order of first appearance {list(exp)}", rows=[list(map(str, r)) for r in rows]))
        return True
    for i, sid in enumerate(ids):
        nv = len(exp[sid])
        if int(ds.n_visits_per_individual[i]) != nv:
            violations.append(dict(key=f"{key}: {sid} has {int(ds.n_visits_per_individual[i])} visits, expected {nv}"))
            return True
        ages = ds.timepoints[i, :nv].tolist()
        want_ages = [a for a, _, _ in exp[sid]]
        if not np.allclose(ages, want_ages, rtol=1e-6) or any(x >= y for x, y in zip(ages, ages[1:])):
            violations.append(dict(key=f"{key}: ages of {sid} = {ages}, expected sorted {want_ages}"))
            return True
        for j, (_, a, b) in enumerate(exp[sid]):
            for f, val in enumerate((a, b)):
                m = bool(ds.mask[i, j, f])
                if m != (not math.isnan(val)) or (m and abs(float(ds.values[i, j, f]) - val) > 1e-6) or (not m and float(ds.values[i, j, f]) != 0.0):
                    violations.append(dict(key=f"{key}: value / mask of {sid} visit {j} feature {f}: mask={m}, value={float(ds.values[i, j, f])}, table holds {val}"))
                    return True
        if bool(ds.mask[i, nv:].any()) or bool((ds.values[i, nv:] != 0).any()):
            violations.append(dict(key=f"{key}: padding of {sid} is not masked zeros"))
            return True
    n_obs = sum(1 for v in exp.values() for (_, a, b) in v for x in (a, b) if not math.isnan(x))
    if int(ds.n_observations) != n_obs or int(ds.n_visits) != sum(len(v) for v in exp.values()):
        violations.append(dict(key=f"{key}: counts n_observations={int(ds.n_observations)} n_visits={int(ds.n_visits)}, expected {n_obs} / {sum(len(v) for v in exp.values())}"))
        return True
    # round trip
    with quiet():
        df2 = ds.to_pandas().reset_index()
        ds2 = Dataset(Data.from_dataframe(df2))
    ids2 = [str(i) for i in ds2.indices]
    same = ids2 == ids and np.allclose(ds2.values, ds.values, atol=1e-6) and bool((ds2.mask == ds.mask).all()) \
        and np.allclose(ds2.timepoints, ds.timepoints, rtol=1e-6)
    if not same:
        perm_only = False
        if sorted(ids2) == sorted(ids) and ds2.values.shape == ds.values.shape:
            p = [ids2.index(i) for i in ids]
            perm_only = np.allclose(ds2.values[p], ds.values, atol=1e-6) and bool((ds2.mask[p] == ds.mask).all()) \
                and np.allclose(ds2.timepoints[p], ds.timepoints, rtol=1e-6)
        if perm_only:
            violations.append(dict(key="round trip through to_pandas only reorders the individuals (sorted by identifier instead of first appearance)",
                                   rows=[list(map(str, r)) for r in rows], first=ids, second=ids2))
        else:
            violations.append(dict(key=f"{key}: converting back to a table and re-ingesting changes the dataset",
                                   rows=[list(map(str, r)) for r in rows],
                                   first=dict(ids=ids, values=ds.values.tolist(), ages=ds.timepoints.tolist()),
                                   second=dict(ids=ids2, values=ds2.values.tolist(), ages=ds2.timepoints.tolist())))
    return True


def standin_visit_tables(tier, seed):
    violations, evals, nontrivial = [], 0, 0
    vals = [0.25, 0.5, 0.75]
    nan = float("nan")
    ages = {"s0": [70.0, 61.5, 65.25], "s1": [80.0, 55.0, 60.0], "s2": [66.0, 67.0, 68.0]}
    tables = 0
    for n_ind in (1, 2, 3):
        for nvis in itertools.product((1, 2, 3), repeat=n_ind):
            cells = sum(nvis) * 2
            if cells > 10 and tier == "quick":
                continue
            for pattern in itertools.product((0, 1), repeat=cells):
                if tier == "quick" and cells > 6 and (hash(pattern) % 7):
                    continue
                rows, c = [], 0
                for i in range(n_ind):
                    for j in range(nvis[i]):
                        a = nan if pattern[c] else vals[(i + j) % 3]
                        b = nan if pattern[c + 1] else vals[(i + 2 * j) % 3]
                        c += 2
                        rows.append((f"s{i}", ages[f"s{i}"][j], a, b))
                tables += 1
                for rot in range(min(len(rows), 3)):
                    order = rows[rot:] + rows[:rot]
                    if rot % 2:
                        order = order[::-1]
                    id_kind = ("str", "int", "cat")[(tables + rot) % 3]
                    evals += 1
                    if check_table(order, id_kind, violations, f"visit table ({id_kind} ids)"):
                        nontrivial += 1
                    if len(violations) > 3:
                        break
                if len(violations) > 3:
                    break
            if len(violations) > 3:
                break
    return dict(evaluations=evals, distinct_nontrivial=nontrivial,
                rule="one evaluation = one table (row order, identifier type) through Data.from_dataframe -> Dataset -> to_pandas -> "
                     "re-ingestion with every tensor entry compared with the table; non-trivial = accepted tables; all tables distinct",
                samples=[dict(rows=[["s0", 70.0, 0.25, "nan"], ["s1", 55.0, 0.5, 0.75], ["s0", 61.5, "nan", 0.5]])],
                violations=violations[:60],
                bound=dict(space="<= 3 individuals x <= 3 visits x 2 features x {value, missing}; 3 row orders; 3 identifier types",
                           exhaustive=(tier != "quick"), tables=tables))


def standin_malformed(tier, seed):
    from leaspy.io.data import Data
    from leaspy.exceptions import LeaspyDataInputError
    violations, evals, distinct = [], 0, set()
    base = [("a", 70.0, 0.2, 0.3), ("a", 71.0, 0.25, 0.35), ("b", 60.0, 0.4, 0.5), ("b", 62.5, 0.45, 0.55)]

    def expect_refused(df, what, **kw):
        nonlocal evals
        evals += 1
        distinct.add(what)
        before = df.copy(deep=True)
        try:
            with quiet():
                Data.from_dataframe(df, **kw)
        except LeaspyDataInputError:
            pass
        except Exception as e:
            violations.append(dict(key=f"malformed table ({what}): {type(e).__name__} instead of LeaspyDataInputError: {str(e)[:100]}"))
            return
        else:
            violations.append(dict(key=f"malformed table ({what}) was silently accepted", table=df.astype(str).values.tolist()))
        if not df.equals(before):
            violations.append(dict(key=f"malformed table ({what}): the caller's table was modified"))

    for pos in range(len(base)):
        rows = list(base)
        # duplicate visit (exact, and equal after rounding to 6 digits)
        for dup_age in (rows[pos][1], rows[pos][1] + 4e-7):
            expect_refused(pd.DataFrame(rows[:pos + 1] + [(rows[pos][0], dup_age, 0.9, 0.9)] + rows[pos + 1:], columns=["ID", "TIME", "A", "B"]),
                           f"duplicate visit at row {pos}" + (" after rounding" if dup_age != rows[pos][1] else ""))
        for bad_age, what in ((float("nan"), "missing age"), (float("inf"), "infinite age"), (-float("inf"), "-inf age")):
            r = list(rows)
            r[pos] = (r[pos][0], bad_age, r[pos][2], r[pos][3])
            expect_refused(pd.DataFrame(r, columns=["ID", "TIME", "A", "B"]), f"{what} at row {pos}")
        # the same missing age in pandas' nullable dtypes (pd.NA in a Float64 / Int64 column, e.g. after convert_dtypes())
        for dtype in ("Float64", "Int64"):
            d_ = pd.DataFrame(list(rows), columns=["ID", "TIME", "A", "B"])
            if dtype == "Int64":
                d_["TIME"] = d_["TIME"].round()
                d_.loc[3, "TIME"] = 63.0
            d_["TIME"] = d_["TIME"].astype(dtype)
            d_.loc[pos, "TIME"] = pd.NA
            expect_refused(d_, f"missing age (pd.NA, dtype {dtype}) at row {pos}")
        for bad_val, what in ((float("inf"), "infinite value"), (-float("inf"), "-inf value"), ("x", "non-numeric value")):
            r = [list(x) for x in rows]
            r[pos][2] = bad_val
            expect_refused(pd.DataFrame(r, columns=["ID", "TIME", "A", "B"]), f"{what} at row {pos}")
            if isinstance(bad_val, float):
                # ... also when the same column has a missing value elsewhere (NaN must not hide the infinite entry)
                other = (pos + 1) % len(r)
                r2 = [list(x) for x in r]
                r2[other][2] = float("nan")
                expect_refused(pd.DataFrame(r2, columns=["ID", "TIME", "A", "B"]), f"{what} at row {pos} with a missing value in the same column")
        for bad_id, what in ((None, "missing id"), ("", "empty id"), (1.5, "float id"), (-3, "negative integer id")):
            r = [list(x) for x in rows]
            if isinstance(bad_id, (int, float)) and not isinstance(bad_id, bool) and bad_id is not None:
                r = [[{"a": 1, "b": 2}[x[0]]] + x[1:] for x in r]
            r[pos][0] = bad_id
            expect_refused(pd.DataFrame(r, columns=["ID", "TIME", "A", "B"]), f"{what} at row {pos}")
    # a missing identifier among INTEGER identifiers (nullable Int64 with pd.NA, python ints with None / NaN)
    for pos in range(len(base)):
        ints = [{"a": 1, "b": 2}[x[0]] for x in base]
        d_ = pd.DataFrame([list(x) for x in base], columns=["ID", "TIME", "A", "B"])
        d1 = d_.copy()
        d1["ID"] = pd.array([None if k == pos else v for k, v in enumerate(ints)], dtype="Int64")
        expect_refused(d1, f"missing identifier (pd.NA in an Int64 column) at row {pos}")
        d2 = d_.copy()
        d2["ID"] = pd.Series([float("nan") if k == pos else v for k, v in enumerate(ints)], dtype=object)
        expect_refused(d2, f"missing identifier (NaN among python ints) at row {pos}")
    expect_refused(pd.DataFrame(base, columns=["ID", "AGE", "A", "B"]), "no TIME column")
    expect_refused(pd.DataFrame([(x[0], x[1]) for x in base], columns=["ID", "TIME"]), "no feature column")
    # events: inconsistent event rows of one individual, negative / missing event time, non-boolean flag
    ev = pd.DataFrame([("a", 75.0, True), ("b", 64.0, False)], columns=["ID", "EVENT_TIME", "EVENT_BOOL"])
    try:
        with quiet():
            Data.from_dataframe(ev, data_type="event")
        evals += 1
    except Exception as e:
        violations.append(dict(key=f"valid event table refused: {type(e).__name__}: {str(e)[:100]}"))
    for bad, what in ((pd.DataFrame([("a", 75.0, True), ("a", 76.0, True), ("b", 64.0, False)], columns=ev.columns), "two event rows with different times for one individual"),
                      (pd.DataFrame([("a", float("nan"), True), ("b", 64.0, False)], columns=ev.columns), "missing event time"),
                      (pd.DataFrame([("a", -5.0, True), ("b", 64.0, False)], columns=ev.columns), "negative event time"),
                      (pd.DataFrame([("a", 75.0, 0.5), ("b", 64.0, 0)], columns=ev.columns), "event flag that is not an integer code")):
        expect_refused(bad, what, data_type="event")
    joint = pd.DataFrame([("a", 70.0, 0.2, 75.0, True), ("a", 71.0, 0.3, 76.0, True), ("b", 60.0, 0.4, 64.0, False)],
                         columns=["ID", "TIME", "A", "EVENT_TIME", "EVENT_BOOL"])
    expect_refused(joint, "joint table whose event time differs between the rows of one individual", data_type="joint")
    return dict(evaluations=evals, distinct_nontrivial=len(distinct),
                rule="one evaluation = one malformed table that must be refused with LeaspyDataInputError; distinct = malformation kind x position",
                samples=[dict(kind="duplicate visit after rounding", rows=[["a", 70.0], ["a", 70.0000004]])],
                violations=violations[:60],
                bound=dict(space="malformation kinds of the property x 4 row positions + event / joint layouts", exhaustive=True))


def standin_direct_api(tier, seed):
    """IndividualData.add_observations / Data.from_individual_values called directly (the readers have their own duplicate
    check): every pair of batches of ages drawn from a small set -- repeats inside a batch, across batches, unsorted --
    is refused iff some age occurs twice, and otherwise stored sorted with every age keeping its own observations."""
    import itertools
    import numpy as np
    from leaspy.io.data.individual_data import IndividualData
    from leaspy.io.data import Data
    from leaspy.exceptions import LeaspyDataInputError
    violations, evals, distinct = [], 0, set()
    ages = [70.0, 71.5, 72.25]
    n1 = 3 if tier == "quick" else 4
    batches1 = [b for k in range(1, n1 + 1) for b in itertools.product(ages, repeat=k)]
    batches2 = [()] + [b for k in range(1, 3) for b in itertools.product(ages + [69.0], repeat=k)]

    def obs(a):
        return [a / 100.0, 1.0 - a / 100.0]
    for b1, b2 in itertools.product(batches1, batches2):
        evals += 1
        allages = list(b1) + list(b2)
        dup = len(set(allages)) != len(allages)
        distinct.add((b1, b2))
        ind = IndividualData("s")
        try:
            ind.add_observations(list(b1), [obs(a) for a in b1])
            if b2:
                ind.add_observations(list(b2), [obs(a) for a in b2])
            raised = None
        except LeaspyDataInputError:
            raised = "LeaspyDataInputError"
        except Exception as e:
            raised = type(e).__name__
        if dup and raised is None:
            violations.append(dict(key="add_observations accepts an age that occurs twice " + ("inside the first batch" if len(set(b1)) != len(b1) else "across calls"),
                                   batches=[list(b1), list(b2)], stored=ind.timepoints.tolist()))
        elif not dup and raised is not None:
            violations.append(dict(key=f"add_observations refuses distinct ages ({raised})", batches=[list(b1), list(b2)]))
        elif dup and raised != "LeaspyDataInputError":
            violations.append(dict(key=f"add_observations: {raised} instead of LeaspyDataInputError for a repeated age", batches=[list(b1), list(b2)]))
        elif not dup:
            t = ind.timepoints.tolist()
            if t != sorted(allages) or any(list(o) != obs(a) for a, o in zip(t, ind.observations.tolist())):
                violations.append(dict(key="add_observations: visits not sorted or observations not aligned with their ages", batches=[list(b1), list(b2)], stored=t))
    # the public constructor from lists
    for b1 in batches1:
        evals += 1
        dup = len(set(b1)) != len(b1)
        try:
            d = Data.from_individual_values(["s"], [list(b1)], [[obs(a) for a in b1]], ["f0", "f1"])
            raised = None
        except LeaspyDataInputError:
            raised = "LeaspyDataInputError"
        except Exception as e:
            raised = type(e).__name__
        if dup and raised is None:
            violations.append(dict(key="Data.from_individual_values accepts an individual with the same age twice", ages=list(b1)))
        elif not dup and (raised is not None or d["s"].timepoints.tolist() != sorted(b1)):
            violations.append(dict(key=f"Data.from_individual_values: distinct ages refused or not sorted ({raised})", ages=list(b1)))
    uniq = {v["key"]: v for v in violations}
    return dict(evaluations=evals, distinct_nontrivial=len(distinct), rule="one evaluation = one pair of batches through the real add_observations (or one list through from_individual_values); all pairs distinct",
                samples=[dict(batches=[list(batches1[5]), list(batches2[3])])], violations=list(uniq.values())[:60],
                bound=dict(ages=ages, first_batch_len=n1, second_batch_len=2, exhaustive=True))


def standin_joint_tables(tier, seed):
    """joint (visits + one event) tables: every row order of a small table is accepted iff the table is consistent (event
    at or after the individual's last visit when it is observed, one event time / indicator per individual), with the same
    dataset for every order; an inconsistent one is refused with LeaspyDataInputError in every row order."""
    import itertools
    import numpy as np
    import pandas as pd
    from leaspy.io.data import Data, Dataset
    from leaspy.exceptions import LeaspyDataInputError
    violations, evals, distinct = [], 0, set()

    def table(ev_b, obs_b=True, ev_a=70.0, inconsistent_time=False):
        rows = [("A", 60.0, 0.2, ev_a, True), ("A", 65.0, 0.3, ev_a, True),
                ("B", 65.0, 0.25, ev_b, obs_b), ("B", 70.0, 0.35, ev_b, obs_b), ("B", 75.0, 0.45, ev_b + (1.0 if inconsistent_time else 0.0), obs_b)]
        return pd.DataFrame(rows, columns=["ID", "TIME", "Y", "EVENT_TIME", "EVENT_BOOL"])
    cases = [("event after the last visit", table(76.0), True),
             ("event exactly at the last visit", table(75.0), True),
             ("censoring before the last visit (prediction set-up: accepted with a warning)", table(71.0, obs_b=False), True),
             ("observed event before the last visit", table(71.0), False),
             ("observed event before the first visit", table(50.0), False),
             ("two different event times for one individual", table(76.0, inconsistent_time=True), False)]

    def with_cells(tab, cells):
        t = tab.copy()
        for (row, col), val in cells.items():
            t.loc[row, col] = val
        return t
    nan, inf = float("nan"), float("inf")
    cases += [("event age missing on one row of an individual", with_cells(table(76.0), {(1, "EVENT_TIME"): nan}), False),
              ("event age missing on every row of an individual", with_cells(table(76.0), {(0, "EVENT_TIME"): nan, (1, "EVENT_TIME"): nan}), False),
              ("event age zero", table(76.0, ev_a=0.0), False),
              ("event age negative", table(76.0, ev_a=-3.0), False),
              ("event age infinite", table(76.0, ev_a=inf), False)]
    orders = list(itertools.permutations(range(5))) if tier == "thorough" else list(itertools.permutations(range(5)))[::5]
    for label, tab, valid in cases:
        ref = None
        for perm in orders:
            df = tab.iloc[list(perm)].reset_index(drop=True)
            before = df.copy(deep=True)
            evals += 1
            distinct.add((label, perm))
            try:
                import warnings
                with warnings.catch_warnings():
                    warnings.simplefilter("ignore")
                    data = Data.from_dataframe(df, data_type="joint")
                    ds = Dataset(data)
                res = (tuple(ds.indices), ds.timepoints.tolist(), ds.event_time.tolist(), ds.event_bool.tolist())
                raised = None
            except LeaspyDataInputError:
                raised = "LeaspyDataInputError"
            except Exception as e:
                raised = f"{type(e).__name__}: {str(e)[:60]}"
            if not before.equals(df):
                violations.append(dict(key=f"joint table ({label}): the caller's table was modified"))
                break
            if valid and raised is not None:
                violations.append(dict(key=f"joint table ({label}): a consistent table is refused ({raised}) for some row order", order=list(perm)))
                break
            if not valid and raised is None:
                violations.append(dict(key=f"joint table ({label}): accepted for some row order instead of LeaspyDataInputError", order=list(perm)))
                break
            if not valid and raised != "LeaspyDataInputError":
                violations.append(dict(key=f"joint table ({label}): {raised} instead of LeaspyDataInputError", order=list(perm)))
                break
            if valid:
                first_seen = tuple(dict.fromkeys(df["ID"]))
                canon = (res[0] != first_seen, )
                key_res = (sorted(zip(res[0], map(tuple, res[1]), map(tuple, res[2]), map(tuple, res[3]))))
                if res[0] != first_seen:
                    violations.append(dict(key=f"joint table ({label}): individuals {res[0]} not in order of first appearance {first_seen}"))
                    break
                if ref is None:
                    ref = key_res
                elif key_res != ref:
                    violations.append(dict(key=f"joint table ({label}): the dataset depends on the row order", order=list(perm)))
                    break
    # round trip of joint tables, event CODES included (0 = censored, k = the k-th competing event observed): table -> Data -> Dataset ->
    # to_pandas / to_dataframe -> re-ingestion gives the same dataset
    rt_rows = [("p-a", 62.0, 0.20, 0.30, 66.0, 1), ("p-b", 71.5, 0.40, nan, 75.0, 2), ("p-b", 70.0, 0.30, 0.35, 75.0, 2), ("p-c", 80.0, 0.60, 0.50, 83.5, 0),
               ("p-a", 60.5, 0.10, 0.25, 66.0, 1), ("p-d", 55.0, nan, 0.15, 58.0, 2), ("p-c", 81.0, 0.65, 0.55, 83.5, 0), ("p-d", 56.5, 0.22, 0.18, 58.0, 2)]
    for nb_ev, codes in ((1, {1: 1, 2: 1}), (2, {1: 1, 2: 2}), (3, {1: 3, 2: 2})):
        tab = pd.DataFrame([(i, t, a, b, et, codes.get(c, 0)) for i, t, a, b, et, c in rt_rows], columns=["ID", "TIME", "Y0", "Y1", "EVENT_TIME", "EVENT_BOOL"])
        want = tab.groupby("ID")["EVENT_BOOL"].first().to_dict()
        label = f"round trip, {nb_ev} competing event type(s)"
        evals += 1
        distinct.add(("round trip", nb_ev))
        try:
            import warnings
            with warnings.catch_warnings():
                warnings.simplefilter("ignore")
                fk_ = {"nb_events": nb_ev} if nb_ev > 1 else {}
                data = Data.from_dataframe(tab, data_type="joint", factory_kws=dict(fk_)) if fk_ else Data.from_dataframe(tab, data_type="joint")
                ds = Dataset(data)
                exported = {"Dataset.to_pandas": ds.to_pandas().reset_index(), "Data.to_dataframe": data.to_dataframe().reset_index(drop=True)}
                for how, back in exported.items():
                    got = {k: int(v) for k, v in back.groupby("ID")["EVENT_BOOL"].first().items()}
                    if got != want:
                        violations.append(dict(key=f"joint table ({label}): {how} exports other event codes than the ones ingested", got=str(got), want=str(want)))
                        continue
                    ds2 = Dataset(Data.from_dataframe(back, data_type="joint", factory_kws=dict(fk_)) if fk_ else Data.from_dataframe(back, data_type="joint"))
                    same = sorted(ds2.indices) == sorted(ds.indices)
                    if same:
                        o1, o2 = [ds.indices.index(i) for i in sorted(ds.indices)], [ds2.indices.index(i) for i in sorted(ds.indices)]
                        same = bool((ds.event_bool[o1] == ds2.event_bool[o2]).all()) and bool(np.allclose(ds.event_time[o1].numpy(), ds2.event_time[o2].numpy())) and \
                            bool(np.allclose(ds.values[o1].numpy(), ds2.values[o2].numpy())) and bool((ds.mask[o1] == ds2.mask[o2]).all())
                    if not same:
                        violations.append(dict(key=f"joint table ({label}): re-ingesting what {how} exported gives another dataset"))
        except Exception as e:
            violations.append(dict(key=f"joint table ({label}): a valid table cannot be exported and re-ingested: {type(e).__name__}: {str(e)[:100]}"))
    uniq = {v["key"]: v for v in violations}
    return dict(evaluations=evals, distinct_nontrivial=len(distinct), rule="one evaluation = one row order of one small joint table through Data.from_dataframe(data_type='joint') and Dataset",
                samples=[dict(case=cases[0][0], rows=cases[0][1].values.tolist()[:3])], violations=list(uniq.values())[:60],
                bound=dict(cases=len(cases), row_orders=len(orders), exhaustive=(tier == "thorough")))


def standin_covariate_tables(tier, seed):
    """covariate layout (visits + per-individual integer covariates): every row order of a small valid table gives the same dataset,
    with the individuals in order of first appearance and each individual's covariates attached to it; tables whose covariates are
    missing, not integers, not constant within an individual, constant across individuals, or missing altogether are refused with
    LeaspyDataInputError; the caller's table is never modified."""
    import itertools
    import pandas as pd
    from leaspy.io.data import Data, Dataset
    from leaspy.exceptions import LeaspyDataInputError
    violations, evals, distinct = [], 0, set()
    cols = ["ID", "TIME", "Y", "SEX", "GROUP"]
    base = [("A", 60.0, 0.2, 0, 2), ("A", 65.0, 0.3, 0, 2), ("A", 67.0, 0.33, 0, 2), ("B", 66.0, 0.25, 1, 2), ("C", 61.5, 0.5, 1, 0)]
    fk = dict(covariate_names=["SEX", "GROUP"])

    def ingest(df):
        import warnings
        with warnings.catch_warnings():
            warnings.simplefilter("ignore")
            data = Data.from_dataframe(df, data_type="covariate", factory_kws=fk)
            ds = Dataset(data)
        return data, ds
    orders = list(itertools.permutations(range(5))) if tier == "thorough" else list(itertools.permutations(range(5)))[::7]
    want_cov = {"A": [0, 2], "B": [1, 2], "C": [1, 0]}
    want_times = {"A": [60.0, 65.0, 67.0], "B": [66.0], "C": [61.5]}
    for perm in orders:
        df = pd.DataFrame([base[i] for i in perm], columns=cols)
        before = df.copy(deep=True)
        evals += 1
        distinct.add(("valid", perm))
        try:
            data, ds = ingest(df)
        except Exception as e:
            violations.append(dict(key=f"covariate table: a valid table is refused for some row order ({type(e).__name__}: {str(e)[:80]})", order=list(perm)))
            break
        if not before.equals(df):
            violations.append(dict(key="covariate table: the caller's table was modified"))
            break
        first_seen = list(dict.fromkeys(df["ID"]))
        if list(ds.indices) != first_seen:
            violations.append(dict(key=f"covariate table: individuals {list(ds.indices)} not in order of first appearance {first_seen}"))
            break
        if list(ds.covariate_names or []) != ["SEX", "GROUP"] or ds.covariates is None:
            violations.append(dict(key="covariate table: covariate names / values missing from the dataset"))
            break
        for k, sid in enumerate(ds.indices):
            nv = int(ds.n_visits_per_individual[k])
            if ds.covariates[k].tolist() != want_cov[sid] or [round(float(t), 4) for t in ds.timepoints[k, :nv]] != want_times[sid]:
                violations.append(dict(key=f"covariate table: individual {sid} got covariates {ds.covariates[k].tolist()} / ages {ds.timepoints[k, :nv].tolist()} "
                                           f"instead of {want_cov[sid]} / {want_times[sid]}", order=list(perm)))
                break
        if violations:
            break

    def variant(changes, drop=None):
        rows = [list(r) for r in base]
        for (r, c), v in changes.items():
            rows[r][cols.index(c)] = v
        df = pd.DataFrame(rows, columns=cols)
        return df.drop(columns=drop) if drop else df
    bad = [("covariate missing on one visit", variant({(1, "SEX"): float("nan")})),
           ("covariate not an integer", variant({(0, "GROUP"): 2.5, (1, "GROUP"): 2.5, (2, "GROUP"): 2.5})),
           ("covariate changing between the visits of one individual", variant({(2, "SEX"): 1})),
           ("covariate deviating on one (possibly intermediate) visit only", variant({(1, "SEX"): 1})),
           ("covariate taking three values over the visits of one individual", variant({(0, "GROUP"): 0, (1, "GROUP"): 1})),
           ("covariate with a single value over the cohort", variant({(4, "GROUP"): 2})),
           ("covariate column absent from the table", variant({}, drop=["GROUP"])),
           ("covariate given as text", variant({(0, "SEX"): "f", (1, "SEX"): "f", (2, "SEX"): "f"}))]
    for what, tab in bad:
        for perm in (orders[:18] if tier == "quick" else orders):
            df = tab.iloc[list(perm)].reset_index(drop=True)
            before = df.copy(deep=True)
            evals += 1
            distinct.add((what, perm))
            try:
                ingest(df)
                violations.append(dict(key=f"covariate table ({what}): accepted instead of LeaspyDataInputError", order=list(perm)))
                break
            except LeaspyDataInputError:
                pass
            except Exception as e:
                violations.append(dict(key=f"covariate table ({what}): {type(e).__name__} instead of LeaspyDataInputError: {str(e)[:80]}", order=list(perm)))
                break
            if not before.equals(df):
                violations.append(dict(key=f"covariate table ({what}): the caller's table was modified"))
                break
    uniq = {v["key"]: v for v in violations}
    return dict(evaluations=evals, distinct_nontrivial=len(distinct), rule="one evaluation = one row order of one small covariate table through Data.from_dataframe(data_type='covariate') and Dataset",
                samples=[dict(rows=[list(map(str, r)) for r in base[:3]])], violations=list(uniq.values())[:60],
                bound=dict(valid_row_orders=len(orders), malformed_kinds=len(bad), exhaustive=(tier == "thorough")))


STANDINS = [standin_direct_api, standin_joint_tables, standin_covariate_tables, standin_visit_tables, standin_malformed]
