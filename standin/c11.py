"""C11 bounded stand-in: seeded fit / personalize / simulate on the real library, repeated
  * after consuming different amounts of random numbers from random / numpy / torch,
  * after other activity in the same interpreter (another fit of another model kind),
  * under every combination of console / CSV / plot logging periodicities (with and without an output path),
and compared bit for bit (model parameters, individual parameters, simulated table).  A run with logging turned on must
neither change the result nor abort."""
import itertools
import os
import random
import shutil
import tempfile

import numpy as np
import pandas as pd
import torch

from .common import MODEL_KINDS, cohort, quiet

ASSUMPTIONS = ["stand-in C11: short chains (12-20 iterations), cohorts of 6, one process; logging combinations as enumerated"]


def consume(k):
    """prior activity: draw k numbers from each generator"""
    for _ in range(k):
        random.random()
    np.random.rand(max(k, 1))
    torch.rand(max(k, 1))
    torch.randn(k + 3)


def params_of(model):
    return {k: v.clone() for k, v in model.parameters.items()}


def same_params(a, b):
    return a.keys() == b.keys() and all(torch.equal(a[k], b[k]) for k in a)


def fit_once(kind, kw, df, seed, n_iter, **logs):
    from leaspy.models import model_factory
    from leaspy.io.data import Data
    m = model_factory(kind, **kw)
    with quiet():
        m.fit(Data.from_dataframe(df), "mcmc_saem", seed=seed, n_iter=n_iter, progress_bar=False, **logs)
    return m


def standin_seeded(tier, seed):
    from leaspy.io.data import Data
    violations, evals, distinct, samples = [], 0, set(), []
    kinds = MODEL_KINDS if tier == "thorough" else MODEL_KINDS[:2]
    seeds = [seed, seed + 7] if tier == "thorough" else [seed]
    for (kind, kw, n_ft), sd in itertools.product(kinds, seeds):
        df = cohort(sd + 3, n_ind=6, n_ft=n_ft)
        what = f"{kind}{kw or ''} seed={sd}"
        ref = fit_once(kind, kw, df, sd, 15)
        ref_p = params_of(ref)
        for prior in (0, 1, 17):
            consume(prior)
            if prior == 17:
                # something else fitted earlier in the process
                fit_once("linear", dict(source_dimension=1), cohort(99, n_ind=5, n_ft=2), 1, 6)
            m = fit_once(kind, kw, df, sd, 15)
            evals += 1
            distinct.add(("fit", kind, str(kw), sd, prior))
            if not same_params(ref_p, params_of(m)):
                bad = [k for k in ref_p if not torch.equal(ref_p[k], m.parameters[k])]
                violations.append(dict(key=f"fit {kind}: parameters differ between two runs with the same seed after {prior} prior draws"
                                           f"{' and another fit' if prior == 17 else ''}", parameters=bad[:4]))
        # personalize (three algorithms) and simulate on the reference model
        pdf = cohort(sd + 11, n_ind=4, n_ft=n_ft)
        for algo, extra in (("scipy_minimize", {}), ("mean_posterior", dict(n_iter=12)), ("mode_posterior", dict(n_iter=12))):
            outs = []
            # (the ambient-dtype history only for the algorithms that pin their tensor type for the duration of a run --
            # algo_with_device.py --; scipy_minimize makes no such promise and does fail under a float64 default: observed, not claimed)
            for prior in ((0, 5, "float64-default") if algo != "scipy_minimize" else (0, 5)):
                # process history also includes the ambient default dtype another computation may have left behind
                ambient = torch.get_default_dtype()
                if prior == "float64-default":
                    torch.set_default_dtype(torch.float64)
                else:
                    consume(prior)
                try:
                    with quiet():
                        ip = ref.personalize(Data.from_dataframe(pdf), algo, seed=sd, progress_bar=False, **extra)
                    outs.append(ip.to_dataframe())
                except Exception as e:
                    outs.append(f"{type(e).__name__}: {str(e)[:80]}")
                finally:
                    torch.set_default_dtype(ambient)
                evals += 1
            distinct.add(("personalize", kind, str(kw), algo, sd))
            for q, label in ((1, "after prior draws"), (2, "with another default dtype left behind by earlier activity"))[:len(outs) - 1]:
                if isinstance(outs[0], str) or isinstance(outs[q], str):
                    if not (isinstance(outs[0], str) and isinstance(outs[q], str) and outs[0] == outs[q]):
                        violations.append(dict(key=f"personalize {algo} on {kind}: a seeded run fails or succeeds differently {label}: "
                                                   f"{outs[0] if isinstance(outs[0], str) else 'ok'} / {outs[q] if isinstance(outs[q], str) else 'ok'}"))
                elif not outs[0].equals(outs[q]):
                    violations.append(dict(key=f"personalize {algo} on {kind}: results differ between two runs with the same seed {label}",
                                           first=outs[0].head(2).to_dict(), second=outs[q].head(2).to_dict()))
        if kind in ("logistic",) and kw.get("source_dimension", 0) and n_ft > 1:
            with quiet():
                ip = ref.personalize(Data.from_dataframe(pdf), "scipy_minimize", seed=sd, progress_bar=False)
            df_ip = ip.to_dataframe()
            sim_kw = dict(features=[f"f{k}" for k in range(n_ft)],
                          visit_parameters=dict(patient_number=4, visit_type="random", first_visit_mean=0.0, first_visit_std=0.4,
                                                time_follow_up_mean=5, time_follow_up_std=1, distance_visit_mean=1.0, distance_visit_std=0.2,
                                                min_spacing_between_visits=0.5))
            outs = []
            for prior in (0, 9):
                consume(prior)
                try:
                    with quiet():
                        res = ref.simulate(algorithm="simulate", seed=sd, **sim_kw)
                    outs.append(res.to_dataframe() if hasattr(res, "to_dataframe") else res.data.to_dataframe())
                except Exception as e:
                    outs.append(f"{type(e).__name__}: {str(e)[:80]}")
                evals += 1
            distinct.add(("simulate", kind, str(kw), sd))
            if isinstance(outs[0], str) or isinstance(outs[1], str):
                if outs[0] != outs[1]:
                    violations.append(dict(key=f"simulate on {kind}: one seeded run fails, its repetition does not ({outs[0] if isinstance(outs[0], str) else 'ok'} / {outs[1] if isinstance(outs[1], str) else 'ok'})"))
            elif not outs[0].equals(outs[1]):
                violations.append(dict(key=f"simulate on {kind}: tables differ between two runs with the same seed"))
        if len(samples) < 2:
            samples.append(dict(model=what, g=ref_p.get("log_g_mean", next(iter(ref_p.values()))).flatten()[:2].tolist()))
    uniq = {v["key"]: v for v in violations}
    return dict(evaluations=evals, distinct_nontrivial=len(distinct),
                rule="one evaluation = one seeded run compared bit for bit with its reference; distinct = (operation, model, algorithm, seed, prior activity)",
                samples=samples, violations=list(uniq.values())[:60],
                bound=dict(model_kinds=len(kinds), seeds=len(seeds), prior_draws=[0, 1, 17], exhaustive=False))


def standin_logging(tier, seed):
    violations, evals, distinct, samples = [], 0, set(), []
    kind, kw, n_ft = MODEL_KINDS[0]
    df = cohort(seed + 3, n_ind=6, n_ft=n_ft)
    n_iter = 12
    ref_p = params_of(fit_once(kind, kw, df, seed, n_iter))
    per = [None, 1, 4, 5] if tier == "thorough" else [None, 4]
    combos = []
    for pr, sv, pl, pp in itertools.product(per, per, per, [None, 6]):
        if pl is not None and (sv is None or pl % sv != 0):
            continue           # refused by the settings (plot needs the saved CSV files)
        combos.append(dict(print_periodicity=pr, save_periodicity=sv, plot_periodicity=pl, plot_patient_periodicity=pp))
        if pl is not None:
            combos.append(dict(print_periodicity=pr, save_periodicity=sv, plot_periodicity=pl, plot_patient_periodicity=pp, plot_sourcewise=True))
    cwd = os.getcwd()
    tmp = tempfile.mkdtemp(prefix="c11_")
    try:
        os.chdir(tmp)       # default log folders are created relative to the working directory
        for q, logs in enumerate(combos):
            for with_path in (False, True):
                lg = {k: v for k, v in logs.items() if v is not None}
                if with_path:
                    lg["path"] = os.path.join(tmp, f"logs_{q}")
                    lg["overwrite_logs_folder"] = True
                label = ", ".join(f"{k}={v}" for k, v in lg.items() if k not in ("path", "overwrite_logs_folder")) or "no logging"
                label += " with an output path" if with_path else " without an output path"
                evals += 1
                distinct.add(label)
                try:
                    import matplotlib
                    matplotlib.use("Agg")
                    m = fit_once(kind, kw, df, seed, n_iter, **lg)
                except Exception as e:
                    violations.append(dict(key=f"fit aborted with logging ({label}): {type(e).__name__}: {str(e)[:90]}"))
                    continue
                if not same_params(ref_p, params_of(m)):
                    violations.append(dict(key=f"fit result changes with logging ({label})"))
                if len(samples) < 2:
                    samples.append(dict(logging=label))
        # with annealing on (the temperature schedule is part of the algorithm, not of its logging)
        ann = dict(annealing=dict(do_annealing=True, initial_temperature=10.0, n_plateau=4))
        ref_a = params_of(fit_once(kind, kw, df, seed, 24, **ann))
        for q3, lg in enumerate([dict(save_periodicity=6), dict(print_periodicity=5), dict(save_periodicity=4, plot_periodicity=8)]):
            for with_path in (False, True):
                if with_path:
                    lg = dict(lg, path=os.path.join(tmp, f"logs_ann_{q3}"), overwrite_logs_folder=True)
                label = "annealing on, " + ", ".join(f"{k}={v}" for k, v in lg.items() if k not in ("path", "overwrite_logs_folder")) + \
                    (" with an output path" if with_path else " without an output path")
                evals += 1
                distinct.add(label)
                try:
                    m = fit_once(kind, kw, df, seed, 24, **ann, **lg)
                except Exception as e:
                    violations.append(dict(key=f"fit aborted with logging ({label}): {type(e).__name__}: {str(e)[:90]}"))
                    continue
                if not same_params(ref_a, params_of(m)):
                    violations.append(dict(key=f"fit result changes with logging ({label})"))
        # the other model shapes (one source, no source, one feature, shared speed): everything switched on
        other_kinds = [("logistic", dict(source_dimension=1, dimension=3), 3), ("logistic", dict(source_dimension=0, dimension=3), 3),
                       ("logistic", dict(dimension=1, source_dimension=0), 1), ("linear", dict(source_dimension=1, dimension=3), 3),
                       ("shared_speed_logistic", dict(source_dimension=1, dimension=3), 3)]
        full = [dict(print_periodicity=4, save_periodicity=4, plot_periodicity=4, plot_patient_periodicity=6),
                dict(save_periodicity=5, plot_periodicity=10), dict(save_periodicity=4, plot_periodicity=4, plot_sourcewise=True)]
        for k2, (kind2, kw2, n_ft2) in enumerate(other_kinds if tier == "thorough" else other_kinds[:3]):
            df2 = cohort(seed + 5 + k2, n_ind=6, n_ft=n_ft2)
            ref2 = params_of(fit_once(kind2, kw2, df2, seed, n_iter))
            for q2, lg in enumerate(full):
                lg = dict(lg, path=os.path.join(tmp, f"logs_other_{k2}_{q2}"), overwrite_logs_folder=True)
                label = f"{kind2}{kw2}: " + ", ".join(f"{k}={v}" for k, v in lg.items() if k not in ("path", "overwrite_logs_folder")) + " with an output path"
                evals += 1
                distinct.add(label)
                try:
                    m = fit_once(kind2, kw2, df2, seed, n_iter, **lg)
                except Exception as e:
                    violations.append(dict(key=f"fit aborted with logging ({label}): {type(e).__name__}: {str(e)[:90]}"))
                    continue
                if not same_params(ref2, params_of(m)):
                    violations.append(dict(key=f"fit result changes with logging ({label})"))
    finally:
        os.chdir(cwd)
        shutil.rmtree(tmp, ignore_errors=True)
    uniq = {v["key"]: v for v in violations}
    return dict(evaluations=evals, distinct_nontrivial=len(distinct),
                rule="one evaluation = one seeded fit under one logging configuration compared bit for bit with the unlogged fit",
                samples=samples, violations=list(uniq.values())[:60],
                bound=dict(periodicities=[str(p) for p in per], combinations=len(combos) * 2, n_iter=n_iter, exhaustive=True))


STANDINS = [standin_seeded, standin_logging]
