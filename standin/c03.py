"""C03 bounded stand-in: see samplers_monitor (decision = U < exp(-(dR*beta + dA)), draws consumed, proposals on the block only)."""
from .samplers_monitor import run

ASSUMPTIONS = ["stand-in C03: seeded sampler sweeps, bounds under coverage.bounded"]


def standin_sampler_steps(tier, seed):
    return run(tier, seed)


STANDINS = [standin_sampler_steps]
