"""C05 bounded stand-in: real seeded fits with a monitor around the maximisation step.  For every iteration k the statistics
handed to `update_parameters` are compared with an independent re-computation from the recorded per-iteration statistics
s_k: exactly s_k while k <= n_burn_in + 1, then (1 - e_k) S_(k-1) + e_k s_k with e_k = (k - n_burn_in)^(-power); the burn-in
flag passed on is k <= n_burn_in; n_burn_in is the configured count, or int(fraction * n_iter); step powers outside (0.5, 1]
are refused."""
import itertools
import warnings

import torch

import copy

from .common import MODEL_KINDS, cohort, quiet, tensor_value

ASSUMPTIONS = ["stand-in C05: fits of 9-14 iterations on seeded cohorts of 6; settings grid as listed"]


def standin_schedule(tier, seed):
    import leaspy.models  # noqa
    from leaspy.models import model_factory
    from leaspy.io.data import Data
    from leaspy.exceptions import LeaspyAlgoInputError
    from leaspy.algo import AlgorithmSettings, algorithm_factory
    import leaspy.algo.fit.mcmc_saem as ms
    violations, evals, distinct, samples = [], 0, set(), []
    kinds = MODEL_KINDS[:2] if tier == "quick" else MODEL_KINDS
    grid = [dict(n_iter=9, n_burn_in_iter=4, power=0.8), dict(n_iter=12, n_burn_in_iter=None, n_burn_in_iter_frac=0.5, power=0.65),
            dict(n_iter=10, n_burn_in_iter=0, power=1.0), dict(n_iter=11, n_burn_in_iter=None, n_burn_in_iter_frac=0.77, power=0.51),
            dict(n_iter=8, n_burn_in_iter=8, power=0.8),
            # annealing configured for longer than the memory-less phase: the phase boundary must not move
            dict(n_iter=12, n_burn_in_iter=None, n_burn_in_iter_frac=0.25, power=0.8,
                 annealing=dict(do_annealing=True, n_iter_frac=0.75, initial_temperature=5.0, n_plateau=3))]
    if tier != "quick":
        grid += [dict(n_iter=14, n_burn_in_iter=None, n_burn_in_iter_frac=0.2, power=0.9), dict(n_iter=9, n_burn_in_iter=7, power=0.6)]
    cls = ms.TensorMcmcSaemAlgorithm
    reuse = {}
    runs = list(itertools.product(kinds, grid))
    # one algorithm object built by the public factory, run twice on fresh models (settings of the second grid entry)
    try:
        from leaspy.algo import AlgorithmSettings, algorithm_factory
        c0 = dict(grid[1])
        p0 = c0.pop("power")
        with quiet(), warnings.catch_warnings():
            warnings.simplefilter("ignore")
            reuse.update(algo=algorithm_factory(AlgorithmSettings("mcmc_saem", seed=seed, progress_bar=False, burn_in_step_power=p0, **c0)), conf=c0, power=p0)
        runs += [(kinds[0], grid[1]), (kinds[0], grid[1])]
    except Exception as e:
        violations.append(dict(key=f"an algorithm object cannot be built from accepted settings: {type(e).__name__}: {str(e)[:80]}"))
    n_plain = len(runs) - 2
    for run_no, ((kind, kw, n_ft), conf) in enumerate(runs):
        if run_no < n_plain:
            reuse_now, reuse["algo_saved"] = None, reuse.get("algo_saved", reuse.get("algo"))
            reuse["algo"] = None
        else:
            reuse["algo"] = reuse.get("algo_saved")
        conf = dict(conf)
        power = conf.pop("power")
        n_iter = conf["n_iter"]
        want_burn = conf["n_burn_in_iter"] if conf.get("n_burn_in_iter") is not None else int(conf["n_burn_in_iter_frac"] * n_iter)
        rec = []
        real_step = cls._maximization_step

        def spy(self, model, state, _rec=rec, _real=real_step):
            s_k = {k: tensor_value(copy.deepcopy(v)).clone() for k, v in model.compute_sufficient_statistics(state).items()}
            real_update = model.update_parameters
            seen = {}

            def upd(st, suff, *, burn_in):
                seen.update(suff={k: tensor_value(copy.deepcopy(v)).clone() for k, v in suff.items()}, burn_in=burn_in)
                return real_update(st, suff, burn_in=burn_in)
            model.update_parameters = upd
            try:
                _real(self, model, state)
            finally:
                del model.update_parameters
            _rec.append((self.current_iteration, s_k, seen.get("suff"), seen.get("burn_in"), self.algo_parameters["n_burn_in_iter"]))
        cls._maximization_step = spy
        label = f"{kind}{kw or ''} {conf} power={power}"
        try:
            m = model_factory(kind, **kw)
            with quiet(), warnings.catch_warnings():
                warnings.simplefilter("ignore")
                if reuse.get("algo") is not None and conf == reuse["conf"] and power == reuse["power"]:
                    # the SAME algorithm object as in an earlier fit with these settings (an algorithm object can be run again:
                    # the schedule of each run is the documented one)
                    from leaspy.io.data import Dataset
                    ds_ = Dataset(Data.from_dataframe(cohort(seed + 2, n_ind=6, n_ft=n_ft)))
                    m.initialize(ds_)
                    reuse["algo"].run(m, ds_)
                    label += " (algorithm object run a second time)"
                else:
                    m.fit(Data.from_dataframe(cohort(seed + 2, n_ind=6, n_ft=n_ft)), "mcmc_saem", seed=seed, progress_bar=False, burn_in_step_power=power, **conf)
        except Exception as e:
            violations.append(dict(key=f"fit with accepted schedule settings raises {type(e).__name__}: {str(e)[:80]}", settings=label))
            continue
        finally:
            cls._maximization_step = real_step
        distinct.add((kind, str(kw), str(conf), power))
        if [r[0] for r in rec] != list(range(1, n_iter + 1)):
            violations.append(dict(key="the maximisation step does not run exactly once per iteration", settings=label))
            continue
        S = None
        for k, s_k, used, flag, nb in rec:
            evals += 1
            if nb != want_burn:
                violations.append(dict(key=f"memory-less phase of {nb} iterations instead of {want_burn}", settings=label))
                break
            if k <= want_burn + 1:
                S = {n: v.double() for n, v in s_k.items()}
            else:
                e = float(k - want_burn) ** (-power)
                S = {n: (1.0 - e) * S[n] + e * s_k[n].double() for n in S}
            if used is None or set(used) != set(S) or any(not torch.allclose(used[n].double(), S[n], rtol=1e-4, atol=1e-6) for n in S):
                violations.append(dict(key="statistics used for the maximisation are not the documented combination " +
                                           ("(memory-less phase: the current iteration's own)" if k <= want_burn + 1 else "(1 - e_k) S_(k-1) + e_k s_k"),
                                       settings=label, iteration=k))
                break
            if bool(flag) != (k <= want_burn):
                violations.append(dict(key=f"burn-in flag {flag} at iteration {k} with a memory-less phase of {want_burn}", settings=label))
                break
        if len(samples) < 2:
            samples.append(dict(settings=label, n_burn_in=want_burn))
    for power in (0.5, 0.3, 1.0001, 0.0, 2):
        evals += 1
        try:
            algorithm_factory(AlgorithmSettings("mcmc_saem", n_iter=10, burn_in_step_power=power, progress_bar=False))
            violations.append(dict(key=f"step power {power} outside (0.5, 1] is accepted"))
        except LeaspyAlgoInputError:
            pass
    for power in (0.5001, 0.75, 1.0):
        evals += 1
        try:
            algorithm_factory(AlgorithmSettings("mcmc_saem", n_iter=10, burn_in_step_power=power, progress_bar=False))
        except Exception as e:
            violations.append(dict(key=f"step power {power} inside (0.5, 1] is refused ({type(e).__name__})"))
    uniq = {v["key"]: v for v in violations}
    return dict(evaluations=evals, distinct_nontrivial=len(distinct), rule="one evaluation = one iteration of a real fit whose maximisation statistics are recomputed independently (or one constructor call); distinct = (model, settings)",
                samples=samples, violations=list(uniq.values())[:60], bound=dict(model_kinds=len(kinds), settings=len(grid), exhaustive=False))


STANDINS = [standin_schedule]
