"""C04 bounded stand-in: per-iteration monitor on seeded fits of real models.  `update_parameters` is wrapped; after every
call, in the memory-less phase (where the statistics in force are those of the current state), each parameter is
re-derived independently with numpy-style torch code from the latent values / data: prior means = (averaged) latent
values, prior stds = unbiased dispersion, noise = RMS residual over observed entries; and every parameter must have been
updated from the pre-step state.  Bounded: model kinds x seeds x iterations listed in the evidence."""
import torch

from .common import cohort, quiet, tensor_value

ASSUMPTIONS = ["stand-in C04: 12-iteration seeded fits (memory-less phase 90%) of 4 model kinds with 25% missing values"]


def standin_mstep_monitor(tier, seed):
    import leaspy.models  # noqa
    from leaspy.models import model_factory, McmcSaemCompatibleModel
    from leaspy.io.data import Data
    violations, evals, distinct, samples = [], 0, set(), []
    kinds = [("logistic", dict(source_dimension=1, dimension=3)),
             ("logistic", dict(source_dimension=1, dimension=3, obs_models="gaussian-scalar")),
             ("linear", dict(source_dimension=0, dimension=3)),
             ("shared_speed_logistic", dict(source_dimension=1, dimension=3))]
    if tier == "quick":
        kinds = kinds[:3]
    n_iter = 12 if tier == "quick" else 40
    orig = McmcSaemCompatibleModel.update_parameters.__func__

    for kind, kw in kinds:
        log = []

        def monitored(cls, state, sufficient_statistics, *, burn_in, _log=log):
            pre = {n_: (None if state._values[n_] is None else state._values[n_]) for n_ in state.dag}
            orig(cls, state, sufficient_statistics, burn_in=burn_in)
            _log.append(("__call__", bool(burn_in), None))
            if not burn_in:
                # with memory: the dispersion rule uses the (averaged) statistics and the mean held BEFORE the step
                for lat in ("tau", "xi"):
                    if lat in sufficient_statistics and f"{lat}_sqr" in sufficient_statistics and f"{lat}_mean" in state.dag:
                        s1 = tensor_value(sufficient_statistics[lat]).mean(dim=0)
                        s2 = tensor_value(sufficient_statistics[f"{lat}_sqr"]).mean(dim=0)
                        old = pre[f"{lat}_mean"]
                        want = torch.sqrt(s2 - 2 * old * s1 + old ** 2)
                        _log.append((f"{lat}_std (with memory)", state[f"{lat}_std"].clone(), want.reshape(state[f"{lat}_std"].shape).clone()))
                return
            chk = {}
            for lat in ("tau", "xi"):
                x = state[lat]
                if f"{lat}_mean" in state.dag and state.dag[f"{lat}_mean"].is_settable:
                    chk[f"{lat}_mean"] = x.mean(dim=0)
                chk[f"{lat}_std"] = x.std(dim=0, unbiased=True)
            for pop in ("log_g", "log_v0", "g", "betas", "deltas"):
                if f"{pop}_mean" in state.dag and pop in state.dag:
                    chk[f"{pop}_mean"] = state[pop]
            y, mdl = state["y"], tensor_value(state["model"])
            w = y.weight.bool()
            res2 = ((y.value - mdl) ** 2) * w
            if state["noise_std"].numel() == 1:
                chk["noise_std"] = torch.sqrt(res2.sum() / w.sum()).reshape(state["noise_std"].shape)
            else:
                chk["noise_std"] = torch.sqrt(res2.sum(dim=(0, 1)) / w.sum(dim=(0, 1)))
            for p_, want in chk.items():
                got = state[p_]
                _log.append((p_, got.clone(), want.clone()))
        McmcSaemCompatibleModel.update_parameters = classmethod(monitored)
        try:
            df = cohort(seed + 3, n_ind=8, n_ft=3, missing=0.25)
            m = model_factory(kind, **kw)
            with quiet():
                m.fit(Data.from_dataframe(df), "mcmc_saem", seed=seed, n_iter=n_iter, n_burn_in_iter=n_iter // 2, n_burn_in_iter_frac=None, progress_bar=False)
        finally:
            McmcSaemCompatibleModel.update_parameters = classmethod(orig)
        flags = [g for p_, g, w in log if p_ == "__call__"]
        want_flags = [k <= n_iter // 2 for k in range(1, n_iter + 1)]
        if flags != want_flags:
            bad = next((k + 1 for k, (a, b) in enumerate(zip(flags, want_flags)) if a != b), len(flags))
            violations.append(dict(key=f"{kind} {kw}: the maximisation rule of the memory-less phase is used at iteration {bad} although that phase has {n_iter // 2} iterations (or the step does not run once per iteration)"))
            break
        log = [e for e in log if e[0] != "__call__"]
        for p_, got, want in log:
            evals += 1
            distinct.add((kind, str(kw), p_))
            if not torch.allclose(got.reshape(-1), want.reshape(-1), rtol=2e-4, atol=2e-6):
                violations.append(dict(key=f"{kind} {kw}: after a maximisation step {p_} = {got.tolist()} is not the closed form {want.tolist()}"))
                break
        if violations:
            break
        samples.append(dict(kind=kind, hyper=str(kw), checked=sorted({p for p, _, _ in log}), n_checks=len(log)))
    return dict(evaluations=evals, distinct_nontrivial=len(distinct),
                rule="one evaluation = one parameter after one real maximisation step compared with its independently computed "
                     "closed form; distinct = (model kind, parameter)",
                samples=samples[:3], violations=violations[:60],
                bound=dict(space="model kinds x iterations of a seeded fit", iterations=n_iter, exhaustive=False, seed=seed))


def standin_mixture_monitor(tier, seed):
    """the mixture model: after every real maximisation step (both phases) the cluster probabilities are the mean responsibilities
    of the pre-step state and sum to one, and the cluster means of tau / xi / sources are the responsibility-weighted means of the
    current latent values -- responsibilities recomputed here from the pre-step state's regularity terms."""
    import leaspy.models  # noqa
    from leaspy.models import model_factory, McmcSaemCompatibleModel
    from leaspy.io.data import Data
    violations, evals, distinct, samples = [], 0, set(), []
    orig = McmcSaemCompatibleModel.update_parameters.__func__
    n_iter = 14 if tier == "quick" else 40
    log = []

    def monitored(cls, state, sufficient_statistics, *, burn_in):
        if "probs" not in state.dag:
            return orig(cls, state, sufficient_statistics, burn_in=burn_in)
        nll = tensor_value(state["nll_regul_ind_sum_ind"])
        r = torch.softmax(torch.clamp(-nll, -100.0), dim=1).clone()
        lat = {k: state[k].clone() for k in ("tau", "xi", "sources") if k in state.dag}
        orig(cls, state, sufficient_statistics, burn_in=burn_in)
        log.append(("probs", state["probs"].clone(), r.sum(dim=0) / r.shape[0]))
        log.append(("sum of probs", state["probs"].sum().reshape(1), torch.ones(1)))
        for k, z in lat.items():
            if k == "sources":
                want = (z.unsqueeze(-1) * r.unsqueeze(1)).sum(dim=0) / r.sum(dim=0)
            else:
                want = (r * z).sum(dim=0) / r.sum(dim=0)
            log.append((f"{k}_mean", state[f"{k}_mean"].clone(), want.reshape(state[f"{k}_mean"].shape)))
    McmcSaemCompatibleModel.update_parameters = classmethod(monitored)
    try:
        df = cohort(seed + 5, n_ind=12, n_ft=3, missing=0.2)
        m = model_factory("mixture_logistic", n_clusters=2, source_dimension=2, dimension=3)
        with quiet():
            m.fit(Data.from_dataframe(df), "mcmc_saem", seed=seed, n_iter=n_iter, n_burn_in_iter=n_iter // 2, n_burn_in_iter_frac=None, progress_bar=False)
    except Exception as e:
        violations.append(dict(key=f"a monitored fit of the mixture model aborts: {type(e).__name__}: {str(e)[:100]}"))
    finally:
        McmcSaemCompatibleModel.update_parameters = classmethod(orig)
    for p_, got, want in log:
        evals += 1
        distinct.add(p_)
        if not torch.allclose(got.reshape(-1).double(), want.reshape(-1).double(), rtol=2e-4, atol=2e-6):
            violations.append(dict(key=f"mixture model: after a maximisation step {p_} = {got.reshape(-1).tolist()} is not the closed form {want.reshape(-1).tolist()}"))
            break
    if not log and not violations:
        violations.append(dict(key="mixture model: the maximisation step was never observed"))
    uniq = {v["key"][:60]: v for v in violations}
    return dict(evaluations=evals, distinct_nontrivial=len(distinct),
                rule="one evaluation = one parameter of the mixture model after one real maximisation step compared with its closed form "
                     "(responsibilities recomputed from the pre-step state)",
                samples=[dict(checked=sorted(distinct), n_checks=len(log))], violations=list(uniq.values())[:60],
                bound=dict(space="iterations of one seeded mixture fit (2 clusters, 2 sources, 3 features)", iterations=n_iter, exhaustive=False, seed=seed))


STANDINS = [standin_mstep_monitor, standin_mixture_monitor]
