"""C13 bounded stand-in: sequences of estimate / personalize (scipy_minimize, mean_posterior, mode_posterior) / simulate calls on
real model objects -- the object that was just fitted, and a model re-loaded from its file -- with deep snapshots around every
call:
  * parameters, hyper-parameters and population variables of the model are bit-identical before and after the call;
  * no data or individual latent value of the call stays in the model's state (each such entry is None or what it was before);
  * the table, Data and AlgorithmSettings objects passed in are not modified; a settings object can be reused;
  * the result of a call is bit-identical whatever calls (the fit included) were made before on the same object: it is compared
    with the result of the same call on a freshly loaded model."""
import copy
import itertools
import os
import shutil
import tempfile

import numpy as np
import pandas as pd
import torch

from .common import cohort, quiet

ASSUMPTIONS = ["stand-in C13: logistic models (with / without sources), cohorts of 5-8, short chains; all ordered pairs of the five operations"]

OPS = ["estimate", "scipy_minimize", "mean_posterior", "mode_posterior", "simulate"]


def fit_model(kind, kw, n_ft, seed):
    from leaspy.models import model_factory
    from leaspy.io.data import Data
    df = cohort(seed, n_ind=8, n_ft=n_ft)
    m = model_factory(kind, **kw)
    with quiet():
        m.fit(Data.from_dataframe(df), "mcmc_saem", seed=seed, n_iter=25, progress_bar=False)
    return m


def loaded_copy(m, tmp):
    from leaspy.models import BaseModel
    p = os.path.join(tmp, "m.json")
    m.save(p)
    return BaseModel.load(p)


def snapshot(model):
    from leaspy.variables.specs import DataVariable, IndividualLatentVariable, PopulationLatentVariable
    st = model.state
    snap = {"parameters": {k: v.clone() for k, v in model.parameters.items()},
            "hyperparameters": {k: torch.as_tensor(v).clone() for k, v in model.hyperparameters.items()},
            "population": {}, "transient": {}}
    for name in st.dag:
        var = st.dag[name]
        v = st._values.get(name)
        if isinstance(var, PopulationLatentVariable):
            snap["population"][name] = None if v is None else v.clone()
        elif isinstance(var, (DataVariable, IndividualLatentVariable)):
            snap["transient"][name] = None if v is None else copy.deepcopy(v)
    return snap


def same_tensor(a, b):
    from leaspy.utils.weighted_tensor import WeightedTensor
    if a is None or b is None:
        return a is None and b is None
    if isinstance(a, WeightedTensor) or isinstance(b, WeightedTensor):
        if not (isinstance(a, WeightedTensor) and isinstance(b, WeightedTensor)):
            return False
        return same_tensor(a.value, b.value) and same_tensor(a.weight, b.weight)
    a, b = torch.as_tensor(a), torch.as_tensor(b)
    return a.shape == b.shape and bool(torch.equal(torch.nan_to_num(a.double(), nan=1.25e9), torch.nan_to_num(b.double(), nan=1.25e9)))


def compare_snapshots(before, after, what, violations):
    for group in ("parameters", "hyperparameters", "population"):
        for k, v in before[group].items():
            if k not in after[group] or not same_tensor(v, after[group][k]):
                violations.append(dict(key=f"{what}: the model's {group} changed ({k})"))
                return
    for k, v in after["transient"].items():
        if v is not None and not same_tensor(v, before["transient"].get(k)):
            violations.append(dict(key=f"{what}: the call's {k} values stay in the model's state"))
            return


def run_op(model, op, inputs, seed):
    """returns a comparable result (DataFrame / dict of arrays)"""
    from leaspy.io.data import Data
    from leaspy.algo import AlgorithmSettings
    df = inputs["df"]
    if op == "estimate":
        ip = inputs["ip"]
        out = model.estimate(inputs["timepoints"], ip)
        return {k: np.asarray(v) for k, v in out.items()}
    if op == "simulate":
        with quiet():
            res = model.simulate(algorithm="simulate", seed=seed, features=inputs["features"], visit_parameters=inputs["visit_parameters"])
        return res.data.to_dataframe() if hasattr(res, "data") else res.to_dataframe()
    if op == "simulate_table":
        # a table-driven design with integer identifiers: the caller's own dictionary and table are passed, not copies
        with quiet():
            res = model.simulate(algorithm="simulate", seed=seed, features=inputs["features"], visit_parameters=inputs["table_design"])
        return res.data.to_dataframe() if hasattr(res, "data") else res.to_dataframe()
    if op.endswith("_dataset"):
        # the caller's own tensor Dataset (the library does not build a private one in that case)
        with quiet():
            ip = model.personalize(inputs["dataset"], algorithm_settings=inputs["settings"][op[:-len("_dataset")]])
        return ip.to_dataframe()
    settings = inputs["settings"][op]
    with quiet():
        ip = model.personalize(inputs["data"], algorithm_settings=settings)
    return ip.to_dataframe()


def same_result(a, b):
    if isinstance(a, pd.DataFrame):
        return isinstance(b, pd.DataFrame) and a.shape == b.shape and list(a.columns) == list(b.columns) and \
            bool(np.array_equal(a.reset_index().to_numpy(dtype=object), b.reset_index().to_numpy(dtype=object)) or a.reset_index().equals(b.reset_index()))
    if isinstance(a, dict):
        return a.keys() == b.keys() and all(np.array_equal(a[k], b[k], equal_nan=True) for k in a)
    return a == b


def make_inputs(n_ft, seed, n_src):
    from leaspy.io.data import Data
    from leaspy.algo import AlgorithmSettings
    # as many individuals as the training cohort (8): values left by the fit would fit in shape, so nothing hides their re-use
    df = cohort(seed + 50, n_ind=8, n_ft=n_ft, min_visits=2, max_visits=4)
    ids = list(df["ID"].unique())
    ip_vals = {"xi": [0.1, -0.2], "tau": [70.0, 75.5]}
    from leaspy.io.outputs import IndividualParameters
    ip = IndividualParameters()
    for q, sid in enumerate(ids[:2]):
        d = {"xi": [ip_vals["xi"][q]], "tau": [ip_vals["tau"][q]]}
        if n_src:
            d["sources"] = [0.3 * (-1) ** (q + s) for s in range(n_src)]
        ip.add_individual_parameters(sid, d)
    settings = {"scipy_minimize": AlgorithmSettings("scipy_minimize", seed=seed, progress_bar=False, n_jobs=1),
                # nested settings (annealing: the algorithm derives annealing.n_iter from the fraction) must not be written back
                "mean_posterior": AlgorithmSettings("mean_posterior", seed=seed, progress_bar=False, n_iter=12,
                                                    annealing=dict(do_annealing=True, initial_temperature=3.0, n_plateau=3, n_iter=None, n_iter_frac=0.5)),
                "mode_posterior": AlgorithmSettings("mode_posterior", seed=seed, progress_bar=False, n_iter=12)}
    from leaspy.io.data import Dataset
    return dict(df=df, data=Data.from_dataframe(df), dataset=Dataset(Data.from_dataframe(df.copy())), ip=ip, timepoints={ids[0]: [66.0, 71.5, 80.0], ids[1]: [69.25]}, settings=settings,
                features=[f"f{k}" for k in range(n_ft)],
                visit_parameters=dict(patient_number=3, visit_type="random", first_visit_mean=0.0, first_visit_std=0.4, time_follow_up_mean=4, time_follow_up_std=1,
                                      distance_visit_mean=1.0, distance_visit_std=0.2, min_spacing_between_visits=0.5),
                table_design=dict(visit_type="dataframe", df_visits=pd.DataFrame({"ID": [3, 3, 3, 12, 12, 7], "TIME": [61.0, 62.5, 64.0, 70.25, 71.0, 80.5]})))


def inputs_fingerprint(inputs):
    return dict(df=inputs["df"].copy(deep=True), data_df=inputs["data"].to_dataframe().copy(deep=True),
                ip=copy.deepcopy(inputs["ip"]._individual_parameters), timepoints=copy.deepcopy(inputs["timepoints"]),
                settings={k: copy.deepcopy(s.parameters) for k, s in inputs["settings"].items()},
                seeds={k: s.seed for k, s in inputs["settings"].items()}, visit=copy.deepcopy(inputs["visit_parameters"]),
                table=inputs["table_design"]["df_visits"].copy(deep=True), table_dtypes=list(map(str, inputs["table_design"]["df_visits"].dtypes)),
                table_keys=sorted(inputs["table_design"]),
                dataset={k: v.clone() for k, v in vars(inputs["dataset"]).items() if isinstance(v, torch.Tensor)},
                dataset_ids=list(inputs["dataset"].indices))


def inputs_unchanged(fp, inputs, what, violations):
    if not fp["df"].equals(inputs["df"]):
        violations.append(dict(key=f"{what}: the table passed in was modified"))
    if not fp["data_df"].equals(inputs["data"].to_dataframe()):
        violations.append(dict(key=f"{what}: the Data object passed in was modified"))
    if fp["ip"] != inputs["ip"]._individual_parameters or fp["timepoints"] != inputs["timepoints"]:
        violations.append(dict(key=f"{what}: the individual parameters / timepoints passed in were modified"))
    now = {k: v for k, v in vars(inputs["dataset"]).items() if isinstance(v, torch.Tensor)}
    if set(now) != set(fp["dataset"]) or list(inputs["dataset"].indices) != fp["dataset_ids"] or \
            any(v.shape != fp["dataset"][k].shape or not torch.equal(torch.nan_to_num(v.double(), nan=-12345.0), torch.nan_to_num(fp["dataset"][k].double(), nan=-12345.0)) for k, v in now.items()):
        bad = [k for k, v in now.items() if k not in fp["dataset"] or v.shape != fp["dataset"][k].shape or not torch.equal(torch.nan_to_num(v.double(), nan=-12345.0), torch.nan_to_num(fp["dataset"][k].double(), nan=-12345.0))]
        violations.append(dict(key=f"{what}: the Dataset object passed in was modified", tensors=bad))
    for k, s in inputs["settings"].items():
        if fp["settings"][k] != s.parameters or fp["seeds"][k] != s.seed:
            violations.append(dict(key=f"{what}: the AlgorithmSettings object passed in was modified ({k})"))
    if fp["visit"] != inputs["visit_parameters"]:
        violations.append(dict(key=f"{what}: the visit parameters passed in were modified"))
    tb = inputs["table_design"]["df_visits"]
    if fp["table_keys"] != sorted(inputs["table_design"]) or not fp["table"].equals(tb) or fp["table_dtypes"] != list(map(str, tb.dtypes)):
        violations.append(dict(key=f"{what}: the visit table passed in was modified", dtypes_before=fp["table_dtypes"], dtypes_after=list(map(str, tb.dtypes))))


def standin_histories(tier, seed):
    violations, evals, distinct, samples = [], 0, set(), []
    configs = [("logistic", dict(source_dimension=2), 3)] + ([("logistic", dict(source_dimension=0), 2)] if tier == "thorough" else [])
    tmp = tempfile.mkdtemp(prefix="c13_")
    try:
        for kind, kw, n_ft in configs:
            n_src = kw.get("source_dimension", 0)
            base = fit_model(kind, kw, n_ft, seed)
            inputs = make_inputs(n_ft, seed, n_src)
            ops = OPS if n_src else OPS[:-1]
            extra_ops = (["simulate_table"] if n_src else []) + ["scipy_minimize_dataset", "mean_posterior_dataset"]
            # reference: each operation on a freshly loaded model
            ref = {}
            for op in ops + extra_ops:
                m = loaded_copy(base, tmp)
                fp = inputs_fingerprint(inputs)
                try:
                    ref[op] = run_op(m, op, inputs, seed)
                except Exception as e:
                    ref[op] = f"{type(e).__name__}: {str(e)[:80]}"
                evals += 1
                inputs_unchanged(fp, inputs, op, violations)          # the very first use of the inputs is monitored too
            histories = [(a,) for a in ops + extra_ops] + list(itertools.product(ops, ops))
            histories += [("scipy_minimize_dataset", "scipy_minimize_dataset"), ("mean_posterior_dataset", "scipy_minimize_dataset")]
            if "simulate_table" in extra_ops:      # the table-driven design: alone, repeated (the same table re-used), before and after another call
                histories += [("simulate_table", "simulate_table"), ("simulate_table", "estimate"), ("scipy_minimize", "simulate_table")]
            for origin in ("fitted", "loaded"):
                for hist in histories:
                    model = fit_model(kind, kw, n_ft, seed) if origin == "fitted" else loaded_copy(base, tmp)
                    label = f"{origin} model, calls {' -> '.join(hist)}"
                    for pos, op in enumerate(hist):
                        what = f"{op} (call {pos + 1} of {' -> '.join(hist)} on a {origin} model)"
                        before = snapshot(model)
                        fp = inputs_fingerprint(inputs)
                        try:
                            out = run_op(model, op, inputs, seed)
                        except Exception as e:
                            out = f"{type(e).__name__}: {str(e)[:80]}"
                        evals += 1
                        compare_snapshots(before, snapshot(model), f"{op} on a {origin} model", violations)
                        inputs_unchanged(fp, inputs, op, violations)
                        if isinstance(out, str) or isinstance(ref[op], str):
                            if not (isinstance(out, str) and isinstance(ref[op], str) and out == ref[op]):
                                violations.append(dict(key=f"{op} on a {origin} model after [{', '.join(hist[:pos]) or 'nothing'}] fails or succeeds differently from a fresh model: {out if isinstance(out, str) else 'ok'} / {ref[op] if isinstance(ref[op], str) else 'ok'}"))
                        elif not same_result(out, ref[op]):
                            violations.append(dict(key=f"{op}: the result on a {origin} model after [{', '.join(hist[:pos]) or ('the fit' if origin == 'fitted' else 'nothing')}] differs from the result on a freshly loaded model",
                                                   history=label))
                    distinct.add((kind, str(kw), origin, hist))
            if len(samples) < 2:
                samples.append(dict(model=f"{kind}{kw}", histories=len(histories) * 2))
    finally:
        shutil.rmtree(tmp, ignore_errors=True)
    uniq = {v["key"]: v for v in violations}
    return dict(evaluations=evals, distinct_nontrivial=len(distinct),
                rule="one evaluation = one public call with snapshots of the model and of the inputs around it, compared with the same call on a fresh model; distinct = (model, origin, history)",
                samples=samples, violations=list(uniq.values())[:60],
                bound=dict(operations=OPS, history_length=2, origins=["fitted", "loaded"], exhaustive=True))


STANDINS = [standin_histories]
