"""C20 bounded stand-in (the numpy code of the benchmark models is outside the verifier's subset):
  * constant model: the real ConstantPredictionAlgorithm + ConstantModel on ALL visit histories with <= 3 visits x 2
    features x every missing-value pattern x every row order, for the 4 prediction types, against an independent oracle
    (last by age incl. NaN, last non-missing by age, max, mean; repeated at every requested age);
  * LME: personalised random effects of the real LMEPersonalizeAlgorithm against statsmodels' conditional means on the
    training individuals, with and without random slope; trajectories are straight lines in age.
Exhaustive within the stated scope for the constant model; seeded for LME."""
import itertools
import math

import numpy as np
import pandas as pd

from .common import quiet

ASSUMPTIONS = ["stand-in C20: exhaustive small scope for the constant model; 2 seeded univariate cohorts for LME (reference: statsmodels)"]


def oracle(kind, ages, vals):
    order = np.argsort(ages)
    out = []
    for f in range(vals.shape[1]):
        col = vals[:, f]
        if kind == "last":
            out.append(col[order[-1]])
        elif kind == "last-known":
            known = [col[i] for i in order if not math.isnan(col[i])]
            out.append(known[-1] if known else float("nan"))
        elif kind == "max":
            k = [x for x in col if not math.isnan(x)]
            out.append(max(k) if k else float("nan"))
        else:
            k = [x for x in col if not math.isnan(x)]
            out.append(sum(k) / len(k) if k else float("nan"))
    return out


def standin_constant_model(tier, seed):
    import leaspy.models  # noqa
    from leaspy.models import model_factory
    from leaspy.io.data import Data
    violations, evals, distinct, samples = [], 0, set(), []
    base_vals = [0.1, 0.7, 0.4]
    # two age scales: ages in years, and times relative to an event (zero and negative times are valid visit times)
    for n_vis, age_set in itertools.product((1, 2, 3), ([70.5, 61.25, 66.0], [0.0, -1.5, -0.5])):
        ages0 = age_set[:n_vis]
        for nanmask in itertools.product([0, 1], repeat=n_vis * 2):
            vals = np.array([[base_vals[(i + f) % 3] + 0.01 * i for f in range(2)] for i in range(n_vis)], dtype=float)
            for q, bit in enumerate(nanmask):
                if bit:
                    vals[q // 2, q % 2] = np.nan
            if np.isnan(vals).all(axis=1).all() and n_vis > 0:
                pass
            for perm in itertools.permutations(range(n_vis)):
                rows = [("subj", ages0[i], vals[i, 0], vals[i, 1]) for i in perm]
                # a second individual with complete data so that no feature column is entirely missing in the table
                # (with more visits than the individual under test, so that the latter's rows are padded in the dataset)
                rows += [("other", (60.0 if ages0[0] > 0 else -3.0) + 0.25 * q_, 0.3, 0.3) for q_ in range(4)]
                df = pd.DataFrame(rows, columns=["ID", "TIME", "A", "B"])
                try:
                    data = Data.from_dataframe(df)
                except Exception:
                    continue          # tables the reader refuses (e.g. a visit without any value) are C14's business
                if "subj" not in list(data.individuals):
                    continue
                kept = df[(df.ID == "subj") & df[["A", "B"]].notna().any(axis=1)]
                ages = kept["TIME"].to_numpy()
                kv = kept[["A", "B"]].to_numpy()
                if len(ages) == 0:
                    continue
                for kind in ("last", "last-known", "max", "mean"):
                    m = model_factory("constant")
                    with quiet():
                        ips = m.personalize(data, "constant_prediction", prediction_type=kind)
                    got = ips["subj"]
                    want = oracle(kind, ages, kv)
                    evals += 1
                    distinct.add((n_vis, tuple(ages0), nanmask, kind))
                    g = [got["A"], got["B"]]
                    ok = all((math.isnan(a) and math.isnan(b)) or abs(a - b) < 1e-6 for a, b in zip(g, want))
                    if not ok:
                        violations.append(dict(key=f"constant model ({kind}): predicted {g} for a history whose {kind} values are {want}",
                                               rows=[list(map(str, r)) for r in rows[:-1]]))
                        break
                    req = [50.0, 90.0, 61.25, 90.0]
                    with quiet():
                        est = m.estimate({"subj": req}, ips)["subj"]
                    if est.shape != (len(req), 2) or not all(
                            (math.isnan(x) and math.isnan(w)) or abs(x - w) < 1e-6 for row in est for x, w in zip(row, want)):
                        violations.append(dict(key=f"constant model ({kind}): trajectory is not the predicted value repeated at every requested age",
                                               got=np.asarray(est).tolist(), want=want))
                        break
                if violations:
                    break
            if violations:
                break
        if violations:
            break
    # one model object used for two cohorts whose feature columns differ in order / names: every prediction is that of a fresh model
    if not violations:
        c1 = pd.DataFrame([("s1", 60.0, 0.1, 0.8), ("s1", 65.0, 0.2, 0.7), ("s2", 70.0, 0.3, 0.6)], columns=["ID", "TIME", "MMSE", "ADAS"])
        c2 = pd.DataFrame([("t1", 61.0, 0.55, 0.15), ("t1", 66.0, 0.45, 0.25), ("t2", 71.0, 0.35, 0.05)], columns=["ID", "TIME", "ADAS", "MMSE"])
        c3 = pd.DataFrame([("u1", 62.0, 0.5), ("u1", 63.0, 0.6)], columns=["ID", "TIME", "OTHER"])
        for kind in ("last", "last-known", "max", "mean"):
            reused = model_factory("constant")
            for cohort_df in (c1, c2, c3):
                evals += 1
                distinct.add(("reuse", kind, tuple(cohort_df.columns)))
                try:
                    with quiet():
                        ip_r = reused.personalize(Data.from_dataframe(cohort_df), "constant_prediction", prediction_type=kind)
                        fresh = model_factory("constant")
                        ip_f = fresh.personalize(Data.from_dataframe(cohort_df), "constant_prediction", prediction_type=kind)
                        sid = cohort_df["ID"].iloc[0]
                        e_r = np.asarray(reused.estimate({sid: [64.0, 80.0]}, ip_r)[sid], dtype=float)
                        e_f = np.asarray(fresh.estimate({sid: [64.0, 80.0]}, ip_f)[sid], dtype=float)
                    same = ip_r._individual_parameters == ip_f._individual_parameters and e_r.shape == e_f.shape and np.allclose(e_r, e_f, equal_nan=True) \
                        and list(reused.features) == list(fresh.features)
                except Exception as e:
                    same = False
                    ip_r = ip_f = f"{type(e).__name__}: {str(e)[:80]}"
                if not same:
                    violations.append(dict(key=f"constant model ({kind}): a model object re-used on a cohort with other feature columns {list(cohort_df.columns[2:])} does not answer like a fresh model",
                                           reused=str(ip_r if isinstance(ip_r, str) else ip_r._individual_parameters)[:200], fresh=str(ip_f if isinstance(ip_f, str) else ip_f._individual_parameters)[:200]))
                    break
            if violations:
                break
    samples.append(dict(visits=[[70.5, 0.1, "nan"], [61.25, 0.71, 0.41]], kinds=["last", "last_known", "max", "mean"]))
    return dict(evaluations=evals, distinct_nontrivial=len(distinct),
                rule="one evaluation = one (visit history, prediction type) through the real personalize + estimate; distinct = "
                     "(number of visits, missing-value pattern, prediction type); every row order is run",
                samples=samples, violations=violations[:60],
                bound=dict(space="<= 3 visits x 2 features x all NaN patterns x all row orders x 4 prediction types", exhaustive=True))


def standin_lme(tier, seed):
    import statsmodels.api as sm
    import statsmodels.formula.api as smf
    import leaspy.models  # noqa
    from leaspy.models import model_factory
    from leaspy.io.data import Data
    from leaspy.io.outputs import IndividualParameters
    violations, evals, distinct, samples = [], 0, set(), []
    rng = np.random.default_rng(seed)
    for slope in (False, True):
        rows = []
        for i in range(12 if tier == "quick" else 30):
            b0, b1 = rng.normal(0, 0.08), rng.normal(0, 0.01)
            nv = int(rng.integers(3, 7))
            ages = np.sort(rng.uniform(60, 85, nv)).round(2)
            for a in ages:
                y = 0.3 + b0 + (0.012 + (b1 if slope else 0.0)) * (a - 72) + rng.normal(0, 0.02)
                rows.append((f"s{i:02d}", float(a), float(y) if rng.uniform() > 0.1 else np.nan))
        df = pd.DataFrame(rows, columns=["ID", "TIME", "Y"])
        data = Data.from_dataframe(df)
        m = model_factory("lme", with_random_slope_age=slope)
        with quiet():
            m.fit(data, "lme_fit")
            ips = m.personalize(data, "lme_personalize")
        # reference: statsmodels on the same (NaN-dropped, age-normalised) table
        d2 = df.dropna(subset=["Y"]).copy()
        d2["T"] = (d2["TIME"] - m.parameters["ages_mean"]) / m.parameters["ages_std"]
        md = smf.mixedlm("Y ~ T", d2, groups=d2["ID"], re_formula="~T" if slope else None)
        with quiet():
            ref = md.fit(method=["lbfgs", "bfgs", "powell"])
        for sid, re_ in ref.random_effects.items():
            got = ips[sid]
            evals += 1
            distinct.add((slope, sid))
            vals_ref = list(np.asarray(re_, dtype=float))
            vals_got = [float(np.ravel(got["random_intercept"])[0])] + ([float(np.ravel(got["random_slope_age"])[0])] if slope else [])
            if not np.allclose(vals_got, vals_ref, rtol=5e-3, atol=5e-4):
                violations.append(dict(key=f"LME (random slope: {slope}): personalised random effects of {sid} = {vals_got}, statsmodels conditional means = {vals_ref}"))
                break
        if violations:
            break
        # straight lines in age
        sid = list(ref.random_effects)[0]
        ages = [50.0, 60.0, 70.0, 80.0, 100.0]
        with quiet():
            est = np.asarray(m.estimate({sid: ages}, ips)[sid], dtype=float).ravel()
        evals += 1
        d1 = np.diff(est) / np.diff(ages)
        if not np.allclose(d1, d1[0], rtol=1e-5, atol=1e-8):
            violations.append(dict(key=f"LME (random slope: {slope}): trajectory of {sid} is not a straight line in age", estimates=est.tolist()))
        # ... for EVERY individual, in one call and again afterwards: the documented line (fixed + own random effects), the same
        # answer when asked twice, and fixed effects untouched by the estimation
        fe_before = np.array(m.parameters["fe_params"], dtype=float).copy()
        sids = list(ref.random_effects)[:6]
        with quiet():
            est1 = m.estimate({sid_: ages for sid_ in sids}, ips)
            est2 = m.estimate({sid_: ages for sid_ in sids[::-1]}, ips)
        evals += 2
        if not np.array_equal(fe_before, np.array(m.parameters["fe_params"], dtype=float)):
            violations.append(dict(key=f"LME (random slope: {slope}): estimate() modifies the model's fixed effects",
                                   before=fe_before.tolist(), after=np.array(m.parameters["fe_params"], dtype=float).tolist()))
        for sid_ in sids:
            re_i = [float(np.ravel(ips[sid_]["random_intercept"])[0])] + ([float(np.ravel(ips[sid_]["random_slope_age"])[0])] if slope else [0.0])
            tn = (np.array(ages) - float(m.parameters["ages_mean"])) / float(m.parameters["ages_std"])
            want = (fe_before[0] + re_i[0]) + (fe_before[1] + re_i[1]) * tn
            a1, a2 = np.asarray(est1[sid_], dtype=float).ravel(), np.asarray(est2[sid_], dtype=float).ravel()
            if not np.allclose(a1, want, rtol=1e-5, atol=1e-6) or not np.allclose(a2, a1, rtol=0, atol=1e-9):
                violations.append(dict(key=f"LME (random slope: {slope}): estimates of several individuals are not each individual's own line, or change when asked again",
                                       individual=sid_, first=a1.tolist(), again=a2.tolist(), documented=want.tolist()))
                break
        # an unseen subject none of whose values is observed, kept in the cohort (drop_full_nan=False): given no data the conditional means of
        # its random effects are their prior means, 0 -- and its neighbour's estimate is what it is without it
        new = pd.DataFrame([("a", 61.0, 0.31), ("a", 63.0, 0.33), ("b", 70.0, np.nan), ("b", 72.0, np.nan)], columns=["ID", "TIME", "Y"])
        evals += 1
        distinct.add((slope, "no observation"))
        with quiet():
            alone = m.personalize(Data.from_dataframe(new[new["ID"] == "a"]), "lme_personalize")
        try:
            with quiet():
                both = m.personalize(Data.from_dataframe(new, drop_full_nan=False), "lme_personalize")
        except Exception as e:
            violations.append(dict(key=f"LME (random slope: {slope}): a subject without any observed value (kept with drop_full_nan=False) aborts the personalisation "
                                       f"with {type(e).__name__} instead of receiving the conditional means given no data (zero random effects)", error=str(e)[:120]))
            both = None
        if both is not None:
            names_re = ["random_intercept"] + (["random_slope_age"] if slope else [])
            if any(abs(float(np.ravel(both["b"][n_])[0])) > 1e-12 for n_ in names_re):
                violations.append(dict(key=f"LME (random slope: {slope}): a subject without any observed value does not get zero random effects", got=str(both["b"])))
            if any(abs(float(np.ravel(both["a"][n_])[0]) - float(np.ravel(alone["a"][n_])[0])) > 1e-9 for n_ in names_re):
                violations.append(dict(key=f"LME (random slope: {slope}): an individual's random effects change when a subject without observations is added to the cohort"))
        samples.append(dict(random_slope=slope, individuals=len(ref.random_effects)))
    return dict(evaluations=evals, distinct_nontrivial=len(distinct),
                rule="one evaluation = the personalised random effects of one training individual compared with statsmodels; "
                     "distinct = (random slope?, individual)",
                samples=samples, violations=violations[:60],
                bound=dict(space="2 seeded univariate cohorts (with / without random slope)", exhaustive=False, seed=seed))


STANDINS = [standin_constant_model, standin_lme]
