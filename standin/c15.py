"""C15 bounded stand-in: the REAL VariablesDAG constructor on *all* labelled digraphs with up to N nodes (self-loops,
dangling references and isolated nodes included), against a reference (Warshall closure + Kahn-free topological test),
plus seeded larger graphs and the graphs of every shipped model kind.  For every graph: accepted iff it is a DAG without
unknown / self / isolated nodes; the order lists every node after its dependencies; sorted_children / sorted_ancestors are
exactly the transitive closures, in that same order; the result is a deterministic function of the definitions (insertion
order of the dictionary shuffled).  Exhaustive within the stated scope, never counted as proved."""
import itertools
import multiprocessing as mp
import os
import random

ASSUMPTIONS = ["stand-in C15: exhaustive over all digraphs with <= 4 nodes (quick) / <= 5 nodes (thorough); larger graphs sampled"]


def _reference(nodes, anc):
    """anc: node -> set of direct ancestors (may mention unknown names).  returns ('error', kind) or ('ok', order-check data)"""
    known = set(nodes)
    pooled = set().union(*anc.values()) if anc else set()
    if pooled - known:
        return ("error", "unknown")
    if any(n in anc[n] for n in nodes):
        return ("error", "self")
    children = {n: {m for m in nodes if n in anc[m]} for n in nodes}
    if any(not children[n] and not anc[n] for n in nodes):
        return ("error", "isolated")
    # transitive closure (Warshall)
    reach = {n: set(children[n]) for n in nodes}
    for k in nodes:
        for i in nodes:
            if k in reach[i]:
                reach[i] |= reach[k]
    if any(n in reach[n] for n in nodes):
        return ("error", "cycle")
    return ("ok", reach)


def _check_graph(nodes, anc, shuffle_seed=None):
    from leaspy.variables.dag import VariablesDAG
    from leaspy.exceptions import LeaspyInputError

    class V:   # minimal variable objects: the constructor only stores them and reads their type
        pass

    class W(V):   # a second type, so that the per-type listings of the graph are proper sub-listings
        pass
    ref = _reference(nodes, anc)
    items = list(nodes)
    if shuffle_seed is not None:
        random.Random(shuffle_seed).shuffle(items)
    type_of = {n: (W if (sum(map(ord, n)) + len(anc[n])) % 2 else V) for n in nodes}
    variables = {n: type_of[n]() for n in items}
    direct = {n: frozenset(anc[n]) for n in items}
    import signal

    class _Timeout(Exception):
        pass

    def _alarm(signum, frame):
        raise _Timeout()
    old_handler = signal.signal(signal.SIGALRM, _alarm)
    signal.setitimer(signal.ITIMER_REAL, 5.0)       # the constructor is a handful of dictionary operations per edge
    try:
        dag = VariablesDAG(variables, direct_ancestors=direct)
    except _Timeout:
        return "the constructor does not terminate within 5 s (on a graph of at most 12 nodes)"
    except (LeaspyInputError, ValueError) as e:
        if ref[0] == "ok":
            return f"a valid definition set was refused ({type(e).__name__}: {str(e)[:60]})"
        return None
    except Exception as e:
        return f"unexpected {type(e).__name__}: {str(e)[:80]}"
    finally:
        signal.setitimer(signal.ITIMER_REAL, 0)
        signal.signal(signal.SIGALRM, old_handler)
    if ref[0] == "error":
        return f"an invalid definition set ({ref[1]}) was accepted"
    reach = ref[1]
    order = list(dag.sorted_variables_names)
    if sorted(order) != sorted(nodes):
        return f"order {order} is not a permutation of the nodes"
    pos = {n: i for i, n in enumerate(order)}
    for n in nodes:
        if any(pos[a] >= pos[n] for a in anc[n]):
            return f"{n} listed before one of its dependencies in {order}"
        ch = list(dag.sorted_children[n])
        an = list(dag.sorted_ancestors[n])
        if set(ch) != reach[n] or len(ch) != len(set(ch)):
            return f"sorted_children[{n}] = {ch}, transitive dependents are {sorted(reach[n])}"
        want_an = {m for m in nodes if n in reach[m]}
        if set(an) != want_an or len(an) != len(set(an)):
            return f"sorted_ancestors[{n}] = {an}, transitive dependencies are {sorted(want_an)}"
        if [pos[c] for c in ch] != sorted(pos[c] for c in ch) or [pos[c] for c in an] != sorted(pos[c] for c in an):
            return f"children / ancestors of {n} not in the global order"
    # the per-type listings the graph offers (`sorted_variables_by_type`) are sub-listings of the same order
    by_type = getattr(dag, "sorted_variables_by_type", None)
    if by_type is not None:
        for t in (V, W):
            want = [n for n in order if type_of[n] is t]
            got = list(by_type.get(t, {}))
            if got != want:
                return f"variables of one type are listed as {got}, the global order gives {want}"
    return ("order", tuple(order))


def _graph_from_bits(n, bits, extra=None):
    nodes = [chr(ord("a") + i) for i in range(n)]
    anc = {m: set() for m in nodes}
    k = 0
    for i in range(n):
        for j in range(n):
            if bits >> k & 1:
                anc[nodes[j]].add(nodes[i])     # i -> j  (i is an ancestor of j)
            k += 1
    if extra == "dangling":
        anc[nodes[0]].add("zz")
    return nodes, anc


def _work(arg):
    import leaspy.models  # noqa (import order)
    n, lo, hi, step = arg
    bad = []
    count = 0
    nontrivial = 0
    for bits in range(lo, hi, step):
        nodes, anc = _graph_from_bits(n, bits)
        r = _check_graph(nodes, anc)
        count += 1
        if isinstance(r, str):
            bad.append((n, bits, r))
            if len(bad) > 3:
                break
        elif r is not None:
            nontrivial += 1
            if bits % 7 == 0:     # determinism: a shuffled dictionary must give the same order
                r2 = _check_graph(nodes, anc, shuffle_seed=bits)
                if r2 != r:
                    bad.append((n, bits, f"order depends on the insertion order of the definitions: {r} vs {r2}"))
                # ... also for names that differ only by case (any tie-break other than the names themselves shows up here)
                ren = dict(zip(nodes, ["B", "b", "A", "a", "C"]))
                nodes_c = [ren[x] for x in nodes]
                anc_c = {ren[k_]: {ren[x] for x in v_} for k_, v_ in anc.items()}
                rc1 = _check_graph(nodes_c, anc_c)
                rc2 = _check_graph(nodes_c, anc_c, shuffle_seed=bits + 1)
                if rc1 != rc2:
                    bad.append((n, bits, f"order of names differing only by case depends on the insertion order of the definitions: {rc1} vs {rc2}"))
    return count, nontrivial, bad


def standin_all_small_graphs(tier, seed):
    import leaspy.models  # noqa
    max_n = 4 if tier == "quick" else 5
    jobs = []
    for n in range(1, max_n + 1):
        total = 1 << (n * n)
        chunks = min(64, max(1, total // 2048))
        for c in range(chunks):
            jobs.append((n, c, total, chunks))
    if tier == "quick":
        # a stride sample of the 5-node graphs
        jobs += [(5, c, 1 << 25, 2048 * 16) for c in range(16)]
    violations, evals, nontrivial = [], 0, 0
    with mp.get_context("fork").Pool(min(16, os.cpu_count() or 4)) as pool:
        for count, nt, bad in pool.imap_unordered(_work, jobs, chunksize=1):
            evals += count
            nontrivial += nt
            for n, bits, msg in bad:
                nodes, anc = _graph_from_bits(n, bits)
                violations.append(dict(key=f"graph on {n} nodes: {msg}", definitions={k_: sorted(v_) for k_, v_ in anc.items()}))
    # dangling references, larger sampled graphs, model graphs
    rng = random.Random(seed)
    for n in (2, 3, 4):
        nodes, anc = _graph_from_bits(n, rng.getrandbits(n * n), extra="dangling")
        r = _check_graph(nodes, anc)
        evals += 1
        if isinstance(r, str):
            violations.append(dict(key=f"dangling reference: {r}"))
    for _ in range(200 if tier == "quick" else 5000):
        n = rng.randint(6, 12)
        nodes = [f"v{i:02d}" for i in range(n)]
        perm = nodes[:]
        rng.shuffle(perm)
        anc = {m: set() for m in nodes}
        for i in range(n):
            for j in range(i + 1, n):
                if rng.random() < 0.25:
                    anc[perm[j]].add(perm[i])
        if rng.random() < 0.15:
            i, j = rng.sample(range(n), 2)
            anc[perm[min(i, j)]].add(perm[max(i, j)])      # possibly a cycle
        r = _check_graph(nodes, anc, shuffle_seed=rng.randint(0, 1 << 30))
        evals += 1
        if isinstance(r, str):
            violations.append(dict(key=f"sampled graph on {n} nodes: {r}", definitions={k_: sorted(v_) for k_, v_ in anc.items()}))
        elif r is not None:
            nontrivial += 1
    from .common import MODEL_KINDS
    from leaspy.models import model_factory
    from leaspy.variables.dag import VariablesDAG
    for kind, kw, n_ft in MODEL_KINDS:
        m = model_factory(kind, dimension=n_ft, **kw)
        specs = m.get_variables_specs()
        nodes = list(specs)
        anc = {n_: set(specs[n_].get_ancestors_names()) for n_ in nodes}
        r = _check_graph(nodes, anc)
        evals += 1
        nontrivial += 1
        if isinstance(r, str):
            violations.append(dict(key=f"graph of model kind {kind} {kw}: {r}"))
    return dict(evaluations=evals, distinct_nontrivial=nontrivial,
                rule="one evaluation = one set of definitions given to the real VariablesDAG constructor and compared with the "
                     "reference closure; non-trivial = accepted (acyclic, no unknown / self / isolated node); all graphs are distinct",
                samples=[dict(nodes=4, definitions={"a": [], "b": ["a"], "c": ["a", "b"], "d": ["c"]})],
                violations=violations[:60],
                bound=dict(space=f"all labelled digraphs with <= {max_n} nodes (2^(n^2) each)" + (" + stride sample of 5-node graphs" if tier == "quick" else ""),
                           exhaustive=True, larger_sampled=200 if tier == "quick" else 5000, seed=seed))


STANDINS = [standin_all_small_graphs]
