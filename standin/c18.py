"""C18 bounded stand-in: the full `simulate` on real fitted logistic models over a grid of designs and seeds
(run-time contract on the result: counts, identifiers, unique increasing ages, rounding, value range,
finiteness, one row of individual parameters per simulated individual).  Bounded: the grid below."""
import itertools

import numpy as np
import pandas as pd

from .common import fitted_model, quiet

ASSUMPTIONS = ["stand-in C18: design grid and seeds as listed under coverage.bounded; values are random draws"]


def documented_step(spacing):
    """ages are rounded to the coarsest of the steps 1, 0.1, 0.01, 0.001 that does not exceed the minimal spacing (the finest
    one when the spacing is below all of them); default spacing: one day = 1/365"""
    s = 1.0 / 365 if spacing == "absent" else float(spacing)
    for step in (1.0, 0.1, 0.01, 0.001):
        if step <= s:
            return step
    return 0.001


def check_result(res, features, expected_ids, key, violations, table=None, precision=3, step=None):
    df = res.data.to_dataframe()
    ids = list(dict.fromkeys(df["ID"].astype(str)))
    if sorted(ids) != sorted(map(str, expected_ids)):
        violations.append(dict(key=f"{key}: simulated individuals {ids} != requested {list(map(str, expected_ids))}"))
        return
    if list(df.columns) != ["ID", "TIME"] + features:
        violations.append(dict(key=f"{key}: columns {list(df.columns)}"))
        return
    for i, g in df.groupby("ID", sort=False):
        t = g["TIME"].to_numpy()
        if not (np.all(np.diff(t) > 0) and len(set(t)) == len(t)):
            violations.append(dict(key=f"{key}: ages of {i} not unique and increasing", ages=t.tolist()))
            return
        if step is not None and not np.allclose(t / step, np.round(t / step), atol=1e-4):
            violations.append(dict(key=f"{key}: ages of {i} are not rounded to the documented step {step}", ages=t.tolist()[:6]))
            return
        if table is not None:
            want = sorted(set(np.round(table.loc[table["ID"].astype(str) == str(i), "TIME"].astype(float), precision)))
            if not np.allclose(t, want, atol=1e-4):
                violations.append(dict(key=f"{key}: ages of {i} are not the table's ages rounded to {precision} digits",
                                       got=t.tolist(), want=want))
                return
    v = df[features].to_numpy(dtype=float)
    if not (np.isfinite(v).all() and (v >= 0).all() and (v <= 1).all()):
        violations.append(dict(key=f"{key}: values not finite within [0, 1]"))
        return
    ip = res.individual_parameters
    ip_ids = list(map(str, ip.index)) if hasattr(ip, "index") else list(map(str, ip._indices))
    if sorted(ip_ids) != sorted(map(str, expected_ids)):
        violations.append(dict(key=f"{key}: individual parameters reported for {ip_ids}"))


def standin_simulate_grid(tier, seed):
    violations, evals, distinct, samples = [], 0, set(), []
    models = [fitted_model("logistic", seed=seed, source_dimension=1, obs_models="gaussian-diagonal", dimension=3),
              fitted_model("logistic", seed=seed + 1, source_dimension=0, obs_models="gaussian-scalar", dimension=3)]
    # ... and the same two models as a user gets them back from a file (a saved scalar noise level comes back with shape (1,), the
    # fitted one is 0-d: both are valid models of the same kind)
    import os
    import shutil
    import tempfile
    from leaspy.models import BaseModel
    tmpd = tempfile.mkdtemp(prefix="c18_")
    try:
        reloaded = []
        for q, (m_, d_) in enumerate(models):
            pth = os.path.join(tmpd, f"m{q}.json")
            m_.save(pth)
            reloaded.append((BaseModel.load(pth), d_))
    finally:
        shutil.rmtree(tmpd, ignore_errors=True)
    feats = ["f0", "f1", "f2"]
    grid = list(itertools.product([1, 4], [0.5, 2.0], [0.0, 0.3], ["absent", 0, 0.0005, 0.01, 0.1, 1]))
    if tier == "quick":
        grid = grid[::3]
    seeds = [seed, seed + 7] if tier == "quick" else [seed + k for k in range(6)]
    grid = [(n, mean, std, spacing, 0.0, (4.0, 1.0)) for n, mean, std, spacing in grid] + [(3, 2.0, 0.3, "absent", 80.0, (4.0, 1.0)), (3, 2.0, 0.3, "absent", -60.0, (4.0, 1.0))]
    # cross-sectional and very short follow-ups (valid designs: every individual keeps its baseline visit)
    grid += [(1, 1.0, 0.0, "absent", 0.0, (0.0, 0.0)), (4, 1.0, 0.2, "absent", 0.0, (0.0, 0.0)), (3, 2.0, 0.0, "absent", 0.0, (0.3, 0.0)), (3, 1.0, 0.1, 0.1, 0.0, (0.5, 2.0))]
    for (m, _), (n, mean, std, spacing, first, (fu_mean, fu_std)), sd in itertools.product(models, grid, seeds):
        vp = dict(visit_type="random", patient_number=n, first_visit_mean=first, first_visit_std=0.4,
                  time_follow_up_mean=fu_mean, time_follow_up_std=fu_std, distance_visit_mean=mean, distance_visit_std=std)
        if spacing != "absent":
            vp["min_spacing_between_visits"] = spacing
        key = f"random design {vp} seed={sd} noise={m.parameters['noise_std'].numel()}"
        try:
            with quiet():
                res = m.simulate(algorithm="simulate", features=feats, visit_parameters=dict(vp), seed=sd)
        except Exception as e:
            violations.append(dict(key=f"{key}: an accepted design did not run to completion: {type(e).__name__}: {str(e)[:120]}"))
            break
        evals += 1
        distinct.add((n, mean, std, spacing, first, fu_mean, fu_std, sd))
        check_result(res, feats, range(n), key, violations, step=documented_step(spacing))
        if len(samples) < 2:
            samples.append(vp)
        if violations:
            break
    tables = {
        "sorted": pd.DataFrame({"ID": ["a", "a", "b"], "TIME": [70.0, 71.5, 65.0]}),
        "unsorted_dups": pd.DataFrame({"ID": ["b", "a", "b", "a", "b", "a"], "TIME": [72.12345, 71.5, 65.0, 71.5004, 80, 71.5]}),
        "int_ids": pd.DataFrame({"ID": [3, 3, 11], "TIME": [60.25, 61.75, 70.0]}),
        "single_visits": pd.DataFrame({"ID": ["x", "y", "z"], "TIME": [60.0, 61.0, 62.0]}),
        # ages far outside the fitted range: the logistic curves saturate at 0 / 1 (valid designs all the same)
        "extreme_ages": pd.DataFrame({"ID": ["a", "a", "a", "b", "b"], "TIME": [150.0, 300.0, 400.0, 1.0, 20.0]}),
    }
    for q_, (m, _) in enumerate(reloaded):
        if violations:
            break
        vp = dict(visit_type="random", patient_number=3, first_visit_mean=0.0, first_visit_std=0.4, time_follow_up_mean=4.0, time_follow_up_std=1.0,
                  distance_visit_mean=1.0, distance_visit_std=0.2)
        key = f"random design {vp} seed={seed} on a model re-loaded from its file (noise_std of shape {tuple(m.parameters['noise_std'].shape)})"
        try:
            with quiet():
                res = m.simulate(algorithm="simulate", features=feats, visit_parameters=dict(vp), seed=seed)
        except Exception as e:
            violations.append(dict(key=f"{key}: an accepted design did not run to completion: {type(e).__name__}: {str(e)[:120]}"))
            break
        evals += 1
        distinct.add(("reloaded", q_))
        check_result(res, feats, range(3), key, violations, step=documented_step("absent"))
    for (m, _), (tn, tab) in itertools.product(models + reloaded, tables.items()):
        if violations:
            break
        before = tab.copy(deep=True)
        key = f"table design {tn}" + (" on a re-loaded model" if any(m is r_[0] for r_ in reloaded) else "")
        try:
            with quiet():
                res = m.simulate(algorithm="simulate", features=feats, visit_parameters=dict(visit_type="dataframe", df_visits=tab), seed=seed)
        except Exception as e:
            violations.append(dict(key=f"{key}: an accepted design did not run to completion: {type(e).__name__}: {str(e)[:120]}"))
            break
        evals += 1
        distinct.add(("table", tn))
        if not tab.equals(before):
            violations.append(dict(key=f"{key}: the caller's table was modified"))
        check_result(res, feats, list(dict.fromkeys(tab["ID"])), key, violations, table=tab)
    return dict(evaluations=evals, distinct_nontrivial=len(distinct),
                rule="one evaluation = one complete simulate() run on a real fitted logistic model; distinct = design x seed",
                samples=samples, violations=violations[:60],
                bound=dict(space="design grid x seeds x 2 fitted logistic models + 5 visit tables (one with saturating ages), tables and one design also on the 2 models re-loaded from their files", designs=len(grid),
                           seeds=len(seeds), exhaustive=False, seed=seed))


STANDINS = [standin_simulate_grid]
