"""C07 bounded stand-in on real fitted models: (a) changing the observations of the *other* individuals leaves an
individual's attachment / regularity terms and its personalised parameters bit-identical; (b) a cohort of one
agrees with the batch up to rounding; (c) permuting individuals permutes individual outputs and keeps totals;
(d) the number of parallel workers does not change scipy_minimize results; plus the sampler monitor (per-individual
decisions from the individual's own terms).  Bounded: seeded cohorts as listed."""
import numpy as np
import pandas as pd
import torch

from .common import cohort, fitted_model, quiet
from .samplers_monitor import run as run_samplers

ASSUMPTIONS = ["stand-in C07: seeded cohorts of 6 individuals, 2 fitted model kinds (coverage.bounded)"]


def state_terms(model, df):
    from leaspy.io.data import Data, Dataset
    ds = Dataset(Data.from_dataframe(df))
    st = model.state.clone(disable_auto_fork=True)
    model.put_data_variables(st, ds)
    with quiet():
        model.put_individual_parameters(st, ds)
    # fixed, position-independent individual latent values (functions of the subject's own first age)
    first = torch.tensor(df.groupby("ID", sort=False)["TIME"].min().to_numpy(), dtype=torch.float32).reshape(-1, 1)
    st["tau"] = first + 1.5
    st["xi"] = (first - 70.0) / 50.0
    if "sources" in st.dag:
        st["sources"] = torch.cat([(first - 65.0) / 20.0] * st["sources"].shape[1], dim=1)
    names = ["nll_attach_ind", "nll_regul_tau_ind", "nll_regul_xi_ind", "nll_regul_ind_sum_ind"] + \
            (["nll_regul_sources_ind"] if "sources" in st.dag else [])
    return {n_: st.get_tensor_value(n_).clone() for n_ in names}, {t_: float(st.get_tensor_value(t_)) for t_ in ("nll_attach", "nll_regul_ind_sum")}, ds


def personalize(model, df, seed, algo="scipy_minimize", **kw):
    from leaspy.io.data import Data
    with quiet():
        ips = model.personalize(Data.from_dataframe(df), algo, seed=seed, progress_bar=False, **kw)
    return ips._indices, {i: ips[i] for i in ips._indices}


def standin_independence(tier, seed):
    violations, evals, distinct, samples = [], 0, set(), []
    kinds = [("logistic", dict(source_dimension=1, dimension=3)), ("linear", dict(source_dimension=0, dimension=3))]
    rng = np.random.default_rng(seed)
    for kind, kw in kinds:
        model, _ = fitted_model(kind, seed=seed, **kw)
        df = cohort(seed + 11, n_ind=6, n_ft=3)
        ids = list(dict.fromkeys(df["ID"]))
        ind, tot, ds = state_terms(model, df)
        # (a) modify the others
        df2 = df.copy()
        others = df2["ID"] != ids[0]
        df2.loc[others, ["f0", "f1", "f2"]] = np.clip(df2.loc[others, ["f0", "f1", "f2"]].to_numpy() * 0.5 + 0.2, 0.01, 0.99)
        ind2, _, _ = state_terms(model, df2)
        evals += 1
        distinct.add((kind, "others"))
        for n_ in ind:
            if not torch.equal(ind[n_][0], ind2[n_][0]):
                violations.append(dict(key=f"{kind}: {n_} of individual {ids[0]} changed when the other individuals' observations were modified",
                                       before=ind[n_][0].tolist(), after=ind2[n_][0].tolist()))
        # (b) cohort of one
        ind1, _, _ = state_terms(model, df[df["ID"] == ids[2]])
        evals += 1
        distinct.add((kind, "alone"))
        for n_ in ind:
            if not torch.allclose(ind[n_][2], ind1[n_][0], rtol=1e-5, atol=1e-6):
                violations.append(dict(key=f"{kind}: {n_} of an individual evaluated alone differs from its value in the batch",
                                       batch=ind[n_][2].tolist(), alone=ind1[n_][0].tolist()))
        # (c) permutation
        perm = list(rng.permutation(len(ids)))
        dfp = pd.concat([df[df["ID"] == ids[p]] for p in perm])
        indp, totp, _ = state_terms(model, dfp)
        evals += 1
        distinct.add((kind, "perm"))
        for n_ in ind:
            if not torch.allclose(indp[n_], ind[n_][perm], rtol=1e-6, atol=1e-6):
                violations.append(dict(key=f"{kind}: {n_} is not permuted with the individuals", perm=[int(p) for p in perm]))
        for t_ in tot:
            if abs(tot[t_] - totp[t_]) > 1e-3 * max(1.0, abs(tot[t_])):
                violations.append(dict(key=f"{kind}: total {t_} changed under a permutation of individuals", a=tot[t_], b=totp[t_]))
        s = float(ind["nll_attach_ind"].sum())
        if abs(s - tot["nll_attach"]) > 1e-3 * max(1.0, abs(s)):
            violations.append(dict(key=f"{kind}: nll_attach is not the sum of nll_attach_ind", total=tot["nll_attach"], sum=s))
        if violations:
            break
        # (d) personalisation: others modified, workers
        i1, p1 = personalize(model, df, seed)
        i2, p2 = personalize(model, df2, seed)
        evals += 2
        distinct.add((kind, "perso"))
        if i1 != ids:
            violations.append(dict(key=f"{kind}: personalisation keys {i1} are not the input identifiers in order"))
        if p1[ids[0]] != p2[ids[0]]:
            violations.append(dict(key=f"{kind}: personalised parameters of {ids[0]} changed when other individuals' data changed",
                                   before=str(p1[ids[0]]), after=str(p2[ids[0]])))
        # sampling-based personalisation: with the same seed the position-indexed draws are the same, so the first individual's
        # chain -- hence its posterior mean and its lowest-loss draw -- is bit-identical whatever the others' observations are
        variants = [df2]
        for transform in (lambda x: 1.0 - x, lambda x: x ** 3, lambda x: np.sqrt(x)):
            dfv = df.copy()
            dfv.loc[others, ["f0", "f1", "f2"]] = np.clip(transform(dfv.loc[others, ["f0", "f1", "f2"]].to_numpy()), 0.01, 0.99)
            variants.append(dfv)
        for algo in ("mode_posterior", "mean_posterior"):
            _, q1 = personalize(model, df, seed, algo=algo, n_iter=200, n_burn_in_iter=40)
            for v_i, dfv in enumerate(variants if algo == "mode_posterior" else variants[:1]):
                _, q2 = personalize(model, dfv, seed, algo=algo, n_iter=200, n_burn_in_iter=40)
                evals += 1
                distinct.add((kind, "perso-" + algo, v_i))
                if q1[ids[0]] != q2[ids[0]]:
                    violations.append(dict(key=f"{kind}: {algo} parameters of {ids[0]} changed when other individuals' data changed",
                                           before=str(q1[ids[0]]), after=str(q2[ids[0]])))
                    break
        # ... and the other way round: only the FIRST individual's observations change (same visits, same order, same seed);
        # every other individual is optimised from the same start on the same data and must come out bit-identical
        df4 = df.copy()
        first = df4["ID"] == ids[0]
        df4.loc[first, ["f0", "f1", "f2"]] = np.clip(df4.loc[first, ["f0", "f1", "f2"]].to_numpy() * 0.5 + 0.2, 0.01, 0.99)
        i4, p4 = personalize(model, df4, seed)
        evals += 1
        distinct.add((kind, "perso-first"))
        changed = [sid for sid in ids[1:] if p1[sid] != p4[sid]]
        if changed:
            violations.append(dict(key=f"{kind}: personalised parameters of the other individuals changed when only the first individual's data changed",
                                   individuals=changed, before=str(p1[changed[0]]), after=str(p4[changed[0]])))
        # order-equivariance of the personalisation: the same cohort listed in another (non-sorted) order gives every individual
        # the same parameters, up to the optimiser's sensitivity to its randomly drawn starting point (a few 1e-3 here);
        # a mix-up between individuals moves them by whole units
        order = [ids[k] for k in perm]
        if order == sorted(order):
            order = order[::-1]
        dfo = pd.concat([df[df["ID"] == sid] for sid in order])
        i5, p5 = personalize(model, dfo, seed)
        evals += 1
        distinct.add((kind, "perso-order"))
        if i5 != order:
            violations.append(dict(key=f"{kind}: personalisation keys {i5} are not the input identifiers in order {order}"))
        else:
            def far(a, b):
                fa = [x for v in a.values() for x in (v if isinstance(v, list) else [v])]
                fb = [x for v in b.values() for x in (v if isinstance(v, list) else [v])]
                return any(abs(x - y) > 0.05 + 0.01 * abs(x) for x, y in zip(fa, fb))
            moved = [sid for sid in ids if far(p1[sid], p5[sid])]
            if moved:
                violations.append(dict(key=f"{kind}: personalised parameters depend on the order in which the individuals are listed",
                                       individuals=moved, order=order, listed_first=str(p1[moved[0]]), reordered=str(p5[moved[0]])))
        if tier != "quick" or kind == "logistic":
            # workers finishing out of order must not shuffle the results: a cohort alternating long and one-visit histories,
            # run with two workers (up to three times: completion order is a matter of timing)
            dfa = cohort(seed + 23, n_ind=8, n_ft=3, min_visits=5, max_visits=5)
            ida = list(dict.fromkeys(dfa["ID"]))
            dfa = pd.concat([dfa[dfa["ID"] == sid] if k % 2 == 0 else dfa[dfa["ID"] == sid].iloc[:1] for k, sid in enumerate(ida)])
            ia1, pa1 = personalize(model, dfa, seed)
            for attempt in range(3):
                ia2, pa2 = personalize(model, dfa, seed, n_jobs=2)
                evals += 1
                swapped = [sid for sid in ida if ia2 != ia1 or any(abs(x - y) > 0.05 + 0.01 * abs(x) for v1, v2 in zip(pa1[sid].values(), pa2[sid].values())
                                                                   for x, y in zip(v1 if isinstance(v1, list) else [v1], v2 if isinstance(v2, list) else [v2]))]
                if swapped:
                    violations.append(dict(key=f"{kind}: with n_jobs=2 individuals receive parameters far from their n_jobs=1 result (another individual's?)",
                                           individuals=swapped, one_worker=str(pa1[swapped[0]]), two_workers=str(pa2[swapped[0]])))
                    break
            distinct.add((kind, "jobs-order"))
            i3, p3 = personalize(model, df, seed, n_jobs=2)
            evals += 1
            distinct.add((kind, "jobs"))
            if i3 != i1:
                violations.append(dict(key=f"{kind}: with n_jobs=2 the personalisation keys {i3} are not the input identifiers in order"))
            else:
                def far2(a, b):
                    fa = [x for v in a.values() for x in (v if isinstance(v, list) else [v])]
                    fb = [x for v in b.values() for x in (v if isinstance(v, list) else [v])]
                    return any(abs(x - y) > 0.05 + 0.01 * abs(x) for x, y in zip(fa, fb))
                moved = [sid for sid in ids if far2(p1[sid], p3[sid])]
                if moved:
                    violations.append(dict(key=f"{kind}: with n_jobs=2 individuals receive parameters far from their n_jobs=1 result (another individual's?)",
                                           individuals=moved, one_worker=str(p1[moved[0]]), two_workers=str(p3[moved[0]])))
                elif p3 != p1:
                    violations.append(dict(key=f"{kind}: scipy_minimize results differ between n_jobs=1 and n_jobs=2"))
        if violations:
            break
        samples.append(dict(kind=kind, ids=ids, perm=[int(p) for p in perm]))
    return dict(evaluations=evals, distinct_nontrivial=len(distinct),
                rule="one evaluation = one metamorphic comparison on a real fitted model (others modified / alone / permuted / "
                     "personalisation / workers); distinct = (model kind, relation)",
                samples=samples, violations=violations[:60],
                bound=dict(space="2 fitted model kinds x 1 seeded cohort of 6", exhaustive=False, seed=seed))


def standin_individual_sampler(tier, seed):
    return run_samplers(tier, seed, which=("ind",))


STANDINS = [standin_independence, standin_individual_sampler]
