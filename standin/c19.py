"""C19 bounded stand-in: the real annealing mixin (through AlgorithmSettings -> algorithm_factory -> the algorithm's own
_initialize_annealing / _update_temperature) over a grid of (iterations, annealing iterations or fraction, plateaus, initial
temperature): an accepted configuration starts at the initial temperature, never increases, never goes below 1, changes only
at multiples of the plateau length, is exactly 1 once the annealing iterations are over, and runs to completion; a refused
one is refused with LeaspyAlgoInputError at construction."""
import itertools
import warnings

from .common import quiet

ASSUMPTIONS = ["stand-in C19: grid as listed under coverage.bounded; the sampler-scale adaptation is decided deductively only"]


def standin_annealing_grid(tier, seed):
    import leaspy.models  # noqa
    from leaspy.algo import AlgorithmSettings, algorithm_factory
    from leaspy.exceptions import LeaspyAlgoInputError
    violations, evals, distinct, samples = [], 0, set(), []
    n_iters = [10, 37] if tier == "quick" else [10, 37, 100]
    ann = [1, 2, 5, 9, 10, 20, 0.3, 0.5, 1.0]
    plateaus = [1, 2, 3, 4, 7] if tier == "quick" else [1, 2, 3, 4, 5, 7, 10, 25]
    temps = [1, 1.5, 5, 10]
    for n_iter, a, P, T0 in itertools.product(n_iters, ann, plateaus, temps):
        conf = dict(do_annealing=True, initial_temperature=T0, n_plateau=P)
        if isinstance(a, float):
            conf["n_iter_frac"] = a
            conf["n_iter"] = None
        else:
            conf["n_iter"] = a
        label = f"n_iter={n_iter}, annealing={conf}"
        evals += 1
        try:
            with quiet(), warnings.catch_warnings():
                warnings.simplefilter("ignore")
                algo = algorithm_factory(AlgorithmSettings("mcmc_saem", n_iter=n_iter, annealing=dict(conf), progress_bar=False))
        except LeaspyAlgoInputError:
            continue
        except Exception as e:
            violations.append(dict(key=f"annealing configuration neither accepted nor refused as an input error: {type(e).__name__}: {str(e)[:80]}", config=label))
            continue
        distinct.add((n_iter, a, P, T0))
        try:
            try:
                algo._initialize_annealing()
            except LeaspyAlgoInputError:
                continue            # refused when the run starts, before anything is generated
            n_ann = algo.algo_parameters["annealing"]["n_iter"]
            period = getattr(algo, "_annealing_period", None)
            trace = [float(algo.temperature)]
            for k in range(1, n_iter + 1):
                algo.current_iteration = k
                algo._update_temperature()
                trace.append(float(algo.temperature))
                if abs(algo.temperature_inv * algo.temperature - 1.0) > 1e-12:
                    violations.append(dict(key="temperature_inv is not 1 / temperature", config=label))
                    break
        except Exception as e:
            violations.append(dict(key=f"an accepted annealing configuration does not run to completion: {type(e).__name__}: {str(e)[:80]}", config=label))
            continue
        bad = None
        if trace[0] != float(T0):
            bad = f"starts at {trace[0]} instead of the initial temperature"
        elif any(b > a_ for a_, b in zip(trace, trace[1:])):
            bad = "increases"
        elif min(trace) < 1.0:
            bad = f"goes below 1 ({min(trace)})"
        elif period and any(trace[k] != trace[k - 1] and k % period != 0 for k in range(1, n_iter + 1)):
            bad = "changes inside a plateau"
        elif n_ann is not None and int(n_ann) <= n_iter and any(t != 1.0 for t in trace[int(n_ann):]):
            bad = f"is {trace[int(n_ann)]} instead of exactly 1 after the {n_ann} annealing iterations" + (" (n_plateau=1)" if P == 1 else "")
        if bad:
            violations.append(dict(key=f"temperature {bad}", config=label, trace=trace[:25]))
        else:
            # the same algorithm object run a second time: the schedule starts again at the initial temperature
            try:
                algo._initialize_annealing()
                trace2 = [float(algo.temperature)]
                for k in range(1, n_iter + 1):
                    algo.current_iteration = k
                    algo._update_temperature()
                    trace2.append(float(algo.temperature))
                evals += 1
                if trace2 != trace:
                    violations.append(dict(key="a second run of the same algorithm object does not follow the same temperature schedule"
                                               + (f" (starts at {trace2[0]})" if trace2[0] != trace[0] else ""), config=label, first=trace[:12], second=trace2[:12]))
            except Exception as e:
                violations.append(dict(key=f"a second run of the same algorithm object fails: {type(e).__name__}: {str(e)[:80]}", config=label))
        if len(samples) < 2:
            samples.append(dict(config=label, trace=trace[:12]))
    # without annealing: always 1
    evals += 1
    with quiet():
        algo = algorithm_factory(AlgorithmSettings("mcmc_saem", n_iter=12, progress_bar=False))
    algo._initialize_annealing()
    for k in range(1, 13):
        algo.current_iteration = k
        algo._update_temperature()
        if algo.temperature != 1.0:
            violations.append(dict(key="without annealing the temperature is not 1"))
            break
    uniq = {}
    for v in violations:
        uniq.setdefault(v["key"].split(" instead of")[0] if "n_plateau=1" not in v["key"] else "temperature stays at the initial value with n_plateau=1", v)
    out = []
    for k, v in uniq.items():
        v = dict(v)
        v["key"] = k if "n_plateau=1" in k else v["key"]
        out.append(v)
    return dict(evaluations=evals, distinct_nontrivial=len(distinct), rule="one evaluation = one annealing configuration through the real constructor and the real temperature updates; distinct = accepted configurations",
                samples=samples, violations=out[:60],
                bound=dict(n_iter=n_iters, annealing_iterations_or_fraction=[str(x) for x in ann], plateaus=plateaus, initial_temperatures=temps, exhaustive=True))


STANDINS = [standin_annealing_grid]
