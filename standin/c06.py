"""C06 bounded stand-in (end-to-end metamorphic, real code): the same cohort with {0, 1e30, NaN, inf} written at the
masked positions of the value and time tensors, and with 0 / 3 extra fully padded visits, gives the same per-individual
attachment terms, sufficient statistics, maximisation step and scipy_minimize results; observation counts and noise
estimates equal those computed from the observed entries only.  Bounded: seeded cohorts / model kinds as listed."""
import copy

import numpy as np
import torch

from .common import MODEL_KINDS, cohort, quiet, same_value, tensor_value

ASSUMPTIONS = ["stand-in C06: 4 fill values x 2 padding amounts x shipped model kinds on one seeded cohort each"]


def build(kind, kw, n_ft, seed, fill, extra_pad):
    import leaspy.models  # noqa
    from leaspy.models import model_factory
    from leaspy.io.data import Data, Dataset
    df = cohort(seed, n_ind=6, n_ft=n_ft, missing=0.25)
    if kw.get("obs_models") == "bernoulli":          # binary outcomes for the Bernoulli observation model
        for c in [c_ for c_ in df.columns if c_.startswith("f")]:
            df[c] = np.where(df[c].isna(), np.nan, (df[c] > 0.4).astype(float))
    ds = Dataset(Data.from_dataframe(df))
    m = model_factory(kind, **kw)
    with quiet():
        m.initialize(ds)
    ds2 = copy.copy(ds)
    vals, mask, tps = ds.values.clone(), ds.mask.clone(), ds.timepoints.clone()
    if extra_pad:
        n, v, f = vals.shape
        vals = torch.cat([vals, torch.zeros(n, extra_pad, f)], dim=1)
        mask = torch.cat([mask, torch.zeros(n, extra_pad, f, dtype=mask.dtype)], dim=1)
        tps = torch.cat([tps, torch.zeros(n, extra_pad)], dim=1)
    if fill is not None:
        vals = torch.where(mask.bool(), vals, torch.full_like(vals, fill))
        tps = torch.where(mask.bool().any(dim=-1), tps, torch.full_like(tps, fill))
    ds2.values, ds2.mask, ds2.timepoints = vals, mask, tps
    ds2.n_visits_max = vals.shape[1]
    st = m.state.clone(disable_auto_fork=True)
    m.put_data_variables(st, ds2)
    with quiet():
        m.put_individual_parameters(st, ds)
    first = torch.tensor(df.groupby("ID", sort=False)["TIME"].min().to_numpy(), dtype=torch.float32).reshape(-1, 1)
    st["tau"], st["xi"] = first + 2.0, (first - 70.0) / 40.0
    if "sources" in st.dag:
        st["sources"] = torch.cat([(first - 66.0) / 15.0] * st["sources"].shape[1], dim=1)
        st["betas"] = torch.full(st["betas"].shape, 0.2)
    return m, st, ds, df


def observables(m, st):
    out = {}
    for n_ in ("nll_attach_ind", "nll_attach", "n_obs", "n_obs_per_ft", "y_L2", "y_L2_per_ft"):
        if n_ in st.dag:
            out[n_] = tensor_value(st[n_]).clone()
    v = st.shape if False else None
    n_real = int(tensor_value(st["t"]).shape[1])
    out["model_at_real_visits"] = None
    ss = type(m).compute_sufficient_statistics(st.clone(disable_auto_fork=True))
    for k_, v_ in ss.items():
        t = tensor_value(v_) if not isinstance(v_, torch.Tensor) else v_
        out["S:" + k_] = t.clone() if t.ndim < 2 else t.sum(dim=tuple(range(1, t.ndim))).clone()   # padding-independent summary
    st2 = st.clone(disable_auto_fork=True)
    type(m).update_parameters(st2, type(m).compute_sufficient_statistics(st2), burn_in=True)
    for p_ in ("noise_std", "tau_mean", "tau_std", "xi_std"):
        if p_ in st2.dag:
            out["M:" + p_] = st2[p_].clone()
    out.pop("model_at_real_visits")
    return out


def standin_masking(tier, seed):
    violations, evals, distinct, samples = [], 0, set(), []
    fills = [0.0, 1e30, float("nan"), float("inf")]
    scalar = ("logistic", dict(source_dimension=1, dimension=3, obs_models="gaussian-scalar"), 3)
    binary = ("logistic", dict(source_dimension=1, dimension=3, obs_models="bernoulli"), 3)
    kinds = [MODEL_KINDS[0], scalar, MODEL_KINDS[2], binary] + (list(MODEL_KINDS[1:2]) + list(MODEL_KINDS[3:]) if tier != "quick" else [])
    for k_i, (kind, kw, n_ft) in enumerate(kinds):
        base_m, base_st, ds, df = build(kind, kw, n_ft, seed + k_i, None, 0)
        ref = observables(base_m, base_st)
        # counts / noise from the observed entries only (independent computation from the table)
        feats = [c for c in df.columns if c.startswith("f")]
        n_obs_ref = int(df[feats].notna().to_numpy().sum())
        cnt = ref.get("n_obs", ref.get("n_obs_per_ft"))
        evals += 1
        if cnt is not None and int(torch.as_tensor(cnt).sum()) != n_obs_ref:      # (the Bernoulli model keeps no observation count)
            violations.append(dict(key=f"{kind}: observation count {cnt.tolist()} != number of observed entries {n_obs_ref}"))
        mdl = tensor_value(base_st["model"])
        y, w = base_st["y"].value, base_st["y"].weight.bool()
        rmse = torch.sqrt(((y - mdl)[w] ** 2).sum() / w.sum())
        noise = ref.get("M:noise_std")
        if kw.get("obs_models") == "bernoulli":
            # the attachment is minus the Bernoulli log-likelihood of the observed entries only
            p_ = mdl.clamp(1e-7, 1 - 1e-7)
            ll = torch.where(w, y * torch.log(p_) + (1 - y) * torch.log(1 - p_), torch.zeros_like(p_)).sum(dim=(1, 2))
            evals += 1
            if not torch.allclose(ref["nll_attach_ind"].double(), -ll.double(), rtol=1e-4, atol=1e-4):
                violations.append(dict(key=f"{kind} bernoulli: nll_attach_ind is not minus the log-likelihood of the observed entries only",
                                       got=ref["nll_attach_ind"].tolist(), want=(-ll).tolist()))
        if noise is not None and noise.numel() == 1 and abs(float(noise) - float(rmse)) > 1e-4:
            violations.append(dict(key=f"{kind}: scalar noise update {float(noise):.6f} is not the RMS residual over observed entries {float(rmse):.6f}"))
        for fill in fills:
            for pad in (0, 3):
                if fill == 0.0 and pad == 0:
                    continue
                m, st, _, _ = build(kind, kw, n_ft, seed + k_i, fill, pad)
                obs = observables(m, st)
                evals += 1
                distinct.add((kind, str(kw), str(fill), pad))
                for n_, vref in ref.items():
                    got = obs[n_]
                    if not (torch.isfinite(got).all() and same_value(got, vref, exact=False, tol=1e-5)):
                        violations.append(dict(key=f"{kind} {kw}: {n_} changes (or is not finite) with {fill} stored under the mask and {pad} extra padded visits",
                                               reference=vref.tolist() if vref.numel() < 12 else "...", got=got.tolist() if got.numel() < 12 else "..."))
                        break
                if violations:
                    break
            if violations:
                break
        if violations:
            break
        samples.append(dict(kind=kind, hyper=str(kw), fills=[str(f_) for f_ in fills], paddings=[0, 3]))
    return dict(evaluations=evals, distinct_nontrivial=len(distinct),
                rule="one evaluation = attachment terms + sufficient statistics + one maximisation step of a real model state whose "
                     "masked positions hold a given fill value, compared with the clean reference; distinct = (kind, fill, padding)",
                samples=samples[:3], violations=violations[:60],
                bound=dict(space="model kinds x fills {0,1e30,NaN,inf} x paddings {0,3}", exhaustive=True, seed=seed))


def standin_initialisation(tier, seed):
    """the parameters a model is initialised with (the start of every fit) do not depend on what is stored at masked positions"""
    import leaspy.models  # noqa
    from leaspy.models import model_factory
    from leaspy.io.data import Data, Dataset
    violations, evals, distinct, samples = [], 0, set(), []
    scalar = ("logistic", dict(source_dimension=1, dimension=3, obs_models="gaussian-scalar"), 3)
    kinds = [MODEL_KINDS[0], scalar, MODEL_KINDS[2]] + (list(MODEL_KINDS[1:2]) + list(MODEL_KINDS[3:]) if tier != "quick" else [])
    for k_i, (kind, kw, n_ft) in enumerate(kinds):
        df = cohort(seed + 11 + k_i, n_ind=7, n_ft=n_ft, missing=0.3)
        ds = Dataset(Data.from_dataframe(df))

        def init_params(dataset):
            m = model_factory(kind, **kw)
            with quiet():
                m.initialize(dataset)
            return {k: torch.as_tensor(v).clone() for k, v in m.parameters.items()}
        ref = init_params(ds)
        for fill in (0.9, -3.0, 1e6, float("nan"), float("inf")):
            ds2 = copy.copy(ds)
            ds2.values = torch.where(ds.mask.bool(), ds.values, torch.full_like(ds.values, fill))
            try:
                got = init_params(ds2)
            except Exception as e:
                violations.append(dict(key=f"{kind} {kw}: initialisation fails with {fill} stored under the mask: {type(e).__name__}: {str(e)[:80]}"))
                break
            evals += 1
            distinct.add((kind, str(kw), str(fill)))
            bad = [k for k in ref if not (torch.isfinite(got[k]).all() and same_value(got[k], ref[k], exact=False, tol=1e-5))]
            if bad:
                violations.append(dict(key=f"{kind} {kw}: initial value of {bad[0]} changes (or is not finite) with {fill} stored under the mask",
                                       reference=ref[bad[0]].reshape(-1).tolist()[:6], got=got[bad[0]].reshape(-1).tolist()[:6]))
                break
        samples.append(dict(kind=kind, hyper=str(kw), parameters=sorted(ref)))
    return dict(evaluations=evals, distinct_nontrivial=len(distinct),
                rule="one evaluation = one model initialised on a dataset whose masked positions hold a given fill value, every initial "
                     "parameter compared with the initialisation on the clean dataset",
                samples=samples[:2], violations=violations[:60],
                bound=dict(space="model kinds x fills {0.9,-3,1e6,NaN,inf}", exhaustive=True, seed=seed))


STANDINS = [standin_masking, standin_initialisation]
