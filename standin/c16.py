"""C16 bounded stand-in: the real IndividualParameters conversions on an exhaustive small scope of identifiers
(plain, numeric-looking, with leading zeros), parameter namings (plain, with an underscore, 'sources'-like) and shapes
(scalar, length-1, length-n): dictionary -> table -> dictionary, -> tensors -> dictionary, -> CSV / JSON files -> dictionary,
and the refusal of invalid additions.  Values are compared to single precision where tensors are involved."""
import itertools
import json
import math
import os
import tempfile

import numpy as np
import torch

from .common import quiet

ASSUMPTIONS = ["stand-in C16: identifiers x namings x shapes enumerated as listed; values are fixed non-trivial floats"]


def flat(v):
    return [float(x) for x in (v if isinstance(v, (list, tuple, np.ndarray)) else [v])]


def same_ip(a, b, violations, what, shapes_as_1d=False, single=False, names_unordered=False):
    """a, b: IndividualParameters"""
    if a._indices != b._indices:
        violations.append(dict(key=f"{what}: identifiers {b._indices} instead of {a._indices} (as strings, in order)"))
        return
    if any(not isinstance(i, str) for i in b._indices):
        violations.append(dict(key=f"{what}: identifiers are not strings: {[type(i).__name__ for i in b._indices]}"))
        return
    # the order in which ONE individual's dictionary lists its parameters is not something the container keeps (dictionaries with the
    # same names in another order are accepted and are equal as dictionaries); the shared order is the first individual's
    first = a._indices[0] if a._indices else None
    for i in a._indices:
        pa, pb = a[i], b[i]
        if (sorted(pa) != sorted(pb)) if (names_unordered or list(pa) != list(a[first])) else (list(pa) != list(pb)):
            violations.append(dict(key=f"{what}: parameter names {list(pb)} instead of {list(pa)}"))
            return
        for k in pa:
            va, vb = flat(pa[k]), flat(pb[k])
            if single:
                # single precision: the two values are the same float32 number (not merely close)
                differ = len(va) != len(vb) or any(np.float32(x) != np.float32(y) for x, y in zip(va, vb))
            else:
                differ = len(va) != len(vb) or any(abs(x - y) > 1e-12 * max(1, abs(x)) for x, y in zip(va, vb))
            if differ:
                violations.append(dict(key=f"{what}: values of {k} for {i}: {vb} instead of {va}"))
                return
            if not shapes_as_1d and (isinstance(pa[k], list) != isinstance(pb[k], list)):
                violations.append(dict(key=f"{what}: shape of {k} changed (scalar <-> vector)"))
                return


# "*_full": values that need every digit of their type (17 significant digits for a double, 9 for a single-precision number)
VALUE_KINDS = ["float", "int", "np.float32", "np.float64", "np.int64", "ndarray", "float_full", "np.float32_full"]


def cast(x, kind):
    if kind == "float_full":
        return float(x) * math.pi / 3.0
    if kind == "np.float32_full":
        return np.float32(float(x) * math.pi / 3.0)
    if kind == "float":
        return float(x)
    if kind == "int":
        return int(round(8 * x))
    if kind == "ndarray":
        return float(x)
    return getattr(np, kind[3:])(x if "float" in kind else round(8 * x))


def build(ids, naming, kind="float", mixed_key_order=False):
    from leaspy.io.outputs import IndividualParameters
    ip = IndividualParameters()
    for q, sid in enumerate(ids):
        d = {}
        # (mixed_key_order: every other individual's dictionary lists the same parameters in the reverse order -- accepted by the container)
        for name, shape in (list(naming)[::-1] if (mixed_key_order and q % 2 == 1) else naming):
            base = 0.125 * (q + 1) + 0.015625 * len(name)
            d[name] = cast(base, kind) if shape == () else [cast(base + 0.5 * j, kind) for j in range(shape[0])]
            if kind == "ndarray":
                d[name] = np.array(d[name])
        ip.add_individual_parameters(sid, d)
    return ip


def standin_conversions(tier, seed):
    from leaspy.io.outputs import IndividualParameters
    from leaspy.exceptions import LeaspyIndividualParamsInputError
    violations, evals, distinct, samples = [], 0, set(), []
    id_sets = [["a", "b"], ["007", "12"], ["1.0", "1e3", "x y"], ["subj-1"], ["NA", "null", "nan"], ["b", "a", "c"]]
    namings = [
        [("xi", ()), ("tau", ())],
        [("xi", (1,)), ("tau", (1,))],
        [("xi", (1,)), ("tau", (1,)), ("sources", (2,))],
        [("xi", ()), ("sources", (3,))],
        [("xi", (1,)), ("sources", (1,))],
        [("tau", (1,)), ("w", (2,))],
        [("tau_mean", (1,)), ("xi", (1,))],
        [("tau_mean", (2,)), ("xi_std", ())],
        [("x_1", (1,)), ("xi", (1,))],
        [("tau", (1,)), ("sources", (12,))],      # more than ten components: sources_10, sources_11 must not be read before sources_2
    ]
    tmp = tempfile.mkdtemp(prefix="c16_")
    try:
        combos = [(i_, n_, k_, m_) for i_, n_, k_ in itertools.product(id_sets, namings, VALUE_KINDS)
                  for m_ in ((False, True) if (k_ == VALUE_KINDS[0] and len(i_) > 1) else (False,))]
        for ids, naming, kind, mixed in combos:
            ip = build(ids, naming, kind, mixed)
            distinct.add((tuple(ids), str(naming), kind, mixed))
            # table round trip
            evals += 1
            try:
                df = ip.to_dataframe()
            except Exception as e:
                violations.append(dict(key=f"to_dataframe raises {type(e).__name__} for shapes {[s for _, s in naming]}: {str(e)[:80]}", naming=str(naming)))
                continue
            if list(df.index.astype(str)) != ids or len(df) != len(ids):
                violations.append(dict(key=f"to_dataframe: rows {list(df.index)} for ids {ids}"))
            try:
                back = IndividualParameters.from_dataframe(df)
                same_ip(ip, back, violations, f"dict -> table -> dict ({[n for n, _ in naming]})", shapes_as_1d=True)
            except Exception as e:
                violations.append(dict(key=f"from_dataframe(to_dataframe(.)) raises {type(e).__name__} for names {[n for n, _ in naming]}: {str(e)[:80]}"))
            # tensors
            evals += 1
            try:
                idx, d_t = ip.to_pytorch()
                if idx != ids or any(v.dtype != torch.float32 or v.ndim != 2 or v.shape[0] != len(ids) for v in d_t.values()):
                    violations.append(dict(key=f"to_pytorch: layout {[tuple(v.shape) for v in d_t.values()]} / ids {idx}"))
                back = IndividualParameters.from_pytorch(idx, d_t)
                same_ip(ip, back, violations, "dict -> tensors -> dict", shapes_as_1d=True, single=True)
            except Exception as e:
                violations.append(dict(key=f"to_pytorch / from_pytorch raises {type(e).__name__}: {str(e)[:80]}", naming=str(naming)))
            # files
            for ext in ("json", "csv"):
                evals += 1
                path = os.path.join(tmp, f"ip.{ext}")
                try:
                    with quiet():
                        ip.save(path)
                        back = IndividualParameters.load(path)
                    same_ip(ip, back, violations, f"dict -> {ext} file -> dict ({[n for n, _ in naming]})",
                            shapes_as_1d=(ext == "csv"), single=kind.startswith("np.float32"))     # single-precision inputs: compared as such
                except Exception as e:
                    violations.append(dict(key=f"save / load {ext} raises {type(e).__name__} for shapes {[s for _, s in naming]}, values {kind}: {str(e)[:80]}"))
            # writer options the save method documents (forwarded to json.dump / DataFrame.to_csv) must not change what is read back:
            # a JSON file written with its keys sorted still lists the individuals in their own order
            evals += 1
            path = os.path.join(tmp, "ip_sorted_keys.json")
            try:
                with quiet():
                    ip.save(path, sort_keys=True, indent=None)
                    back = IndividualParameters.load(path)
                same_ip(ip, back, violations, f"dict -> json file written with sort_keys=True -> dict ({[n for n, _ in naming]})",
                        single=kind.startswith("np.float32"), names_unordered=True)     # (the caller asked for sorted keys: the order of the names is theirs)
            except Exception as e:
                violations.append(dict(key=f"save(json, sort_keys=True) / load raises {type(e).__name__}: {str(e)[:80]}"))
            if len(samples) < 2:
                samples.append(dict(ids=ids, naming=str(naming)))
        # refusals
        ip = build(["a"], [("xi", (1,)), ("tau", (1,))])
        bad = [("a", {"xi": [0.1], "tau": [70.0]}, "duplicate identifier"), (3, {"xi": [0.1], "tau": [70.0]}, "non-string identifier"),
               ("b", {"xi": ["x"], "tau": [70.0]}, "unsupported value type"), ("b", {"xi": [0.1, 0.2], "tau": [70.0]}, "inconsistent shape"),
               ("b", {"xi": [0.1]}, "missing parameter"), ("b", [("xi", 0.1)], "not a dictionary"), ("b", {"xi": None, "tau": [1.0]}, "None value")]
        for sid, d, what in bad:
            evals += 1
            distinct.add(("refusal", what))
            try:
                ip.add_individual_parameters(sid, d)
                violations.append(dict(key=f"add_individual_parameters accepted an addition with {what}"))
            except LeaspyIndividualParamsInputError:
                pass
            except Exception as e:
                violations.append(dict(key=f"add_individual_parameters: {type(e).__name__} instead of an input error for {what}"))
        if ip._indices != ["a"]:
            violations.append(dict(key="a refused addition left a trace in the container"))
    finally:
        import shutil
        shutil.rmtree(tmp, ignore_errors=True)
    # de-duplicate by key
    uniq = {}
    for v in violations:
        uniq.setdefault(v["key"], v)
    return dict(evaluations=evals, distinct_nontrivial=len(distinct),
                rule="one evaluation = one conversion round trip of a container (identifiers x naming x shapes); distinct = (ids, naming)",
                samples=samples, violations=list(uniq.values())[:60],
                bound=dict(space="6 identifier sets x 10 namings/shapes x 8 value types (two needing every digit of their precision) x 4 conversion paths + 7 invalid additions", exhaustive=True))


STANDINS = [standin_conversions]
