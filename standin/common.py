"""shared helpers of the bounded stand-ins: seeded cohorts, real models and states (the real code, natively)"""
import contextlib
import io
import warnings

import numpy as np
import pandas as pd
import torch

warnings.filterwarnings("ignore")


def cohort(seed=0, n_ind=6, n_ft=3, min_visits=2, max_visits=5, missing=0.1, lo=0.05, hi=0.95):
    rng = np.random.default_rng(seed)
    rows = []
    for i in range(n_ind):
        nv = int(rng.integers(min_visits, max_visits + 1))
        ages = np.sort(rng.uniform(60, 85, nv)).round(3)
        base = rng.uniform(0.2, 0.6, n_ft)
        for k, a in enumerate(ages):
            vals = np.clip(base + 0.04 * k + rng.normal(0, 0.03, n_ft), lo, hi)
            vals = [float(v) if rng.uniform() > missing else np.nan for v in vals]
            if all(np.isnan(v) for v in vals):
                vals[0] = float(base[0])
            rows.append((f"s{i:02d}", float(a), *vals))
    return pd.DataFrame(rows, columns=["ID", "TIME"] + [f"f{k}" for k in range(n_ft)])


MODEL_KINDS = [
    ("logistic", dict(source_dimension=2), 3),
    ("logistic", dict(source_dimension=0), 3),
    ("linear", dict(source_dimension=1), 3),
    ("shared_speed_logistic", dict(source_dimension=1), 3),
    ("logistic", dict(), 1),
]


def quiet():
    return contextlib.redirect_stdout(io.StringIO())


def make_model_state(kind, kw, n_ft, seed=0, n_ind=6, obs_models=None):
    """a real model of the given kind, initialised on a seeded cohort, with data and individual variables in
    its state (as at the start of a fit)"""
    import leaspy.models  # noqa
    from leaspy.models import model_factory
    from leaspy.io.data import Data, Dataset
    torch.manual_seed(seed)
    df = cohort(seed, n_ind=n_ind, n_ft=n_ft)
    ds = Dataset(Data.from_dataframe(df))
    extra = dict(obs_models=obs_models) if obs_models else {}
    m = model_factory(kind, **kw, **extra)
    with quiet():
        m.initialize(ds)
    st = m.state
    with st.auto_fork(None):
        m.put_data_variables(st, ds)
    m.put_individual_parameters(st, ds)
    return m, st, ds, df


def tensor_value(v):
    from leaspy.utils.weighted_tensor import WeightedTensor
    if isinstance(v, WeightedTensor):
        return v.weighted_value if v.weight is not None else v.value
    return v


def same_value(a, b, exact=True, tol=1e-6):
    """compare two variable values (tensor / WeightedTensor / None)"""
    from leaspy.utils.weighted_tensor import WeightedTensor
    if a is None or b is None:
        return a is None and b is None
    if isinstance(a, WeightedTensor) != isinstance(b, WeightedTensor):
        return False
    if isinstance(a, WeightedTensor):
        if (a.weight is None) != (b.weight is None):
            return False
        if a.weight is not None and not torch.equal(a.weight, b.weight):
            return False
        if a.weight is not None:
            w = a.weight != 0
            a, b = torch.where(w, a.value, torch.zeros_like(a.value)), torch.where(w, b.value, torch.zeros_like(b.value))
        else:
            a, b = a.value, b.value
    a, b = torch.as_tensor(a), torch.as_tensor(b)
    if a.shape != b.shape:
        return False
    if exact:
        return bool(torch.equal(torch.nan_to_num(a.double(), nan=123456.789), torch.nan_to_num(b.double(), nan=123456.789)))
    return bool(torch.allclose(a.double(), b.double(), rtol=tol, atol=tol, equal_nan=True))


def from_scratch(state, name):
    """value of `name` obtained by evaluating its definition from scratch on the current independent values:
    a brand-new State on the same graph, given only the independent values"""
    from leaspy.variables.state import State
    from leaspy.variables.specs import IndepVariable
    fresh = State(state.dag)
    for n in state.dag:
        var = state.dag[n]
        if isinstance(var, IndepVariable) and var.is_settable:
            v = state._values[n]
            if v is not None:
                fresh._values[n] = v
    return fresh[name]


_FITTED = {}


def fitted_model(kind="logistic", seed=0, n_iter=40, n_ind=8, n_ft=3, **kw):
    """a real model fitted for a few iterations on a seeded cohort (cached per process)"""
    import leaspy.models  # noqa
    from leaspy.models import model_factory
    from leaspy.io.data import Data
    key = (kind, seed, n_iter, n_ind, n_ft, tuple(sorted(kw.items())))
    if key not in _FITTED:
        df = cohort(seed, n_ind=n_ind, n_ft=n_ft)
        m = model_factory(kind, **kw)
        with quiet():
            m.fit(Data.from_dataframe(df), "mcmc_saem", seed=seed, n_iter=n_iter, progress_bar=False)
        _FITTED[key] = (m, df)
    return _FITTED[key]
