"""C01 bounded stand-in: run-time monitor of the State class invariant on the REAL State with the REAL
dependency graphs of the shipped model kinds (and toy graphs), over seeded random histories of
set / put / read / revert / partial revert / clone / fork-mode switches.  Oracle: every value read equals the
definition evaluated from scratch (a brand-new State fed with the current independent values only).
Bounded: the histories are sampled (bound stated in the evidence); never counted as proved."""
import random

import torch

from .common import MODEL_KINDS, make_model_state, same_value, from_scratch

ASSUMPTIONS = ["stand-in C01: histories are sampled (seeded), lengths and counts as stated under coverage.bounded"]


def toy_state():
    from leaspy.variables.dag import VariablesDAG
    from leaspy.variables.specs import DataVariable, Hyperparameter, LinkedVariable, NamedVariables, PopulationLatentVariable, IndividualLatentVariable
    from leaspy.variables.distributions import Normal
    from leaspy.variables.state import State, StateForkType
    nv = NamedVariables({
        "mean": Hyperparameter(0.0), "scale": Hyperparameter(1.0),
        "x": PopulationLatentVariable(Normal("mean", "scale")),
        "u": IndividualLatentVariable(Normal("mean", "scale")),
        "t": DataVariable(),
        "a": LinkedVariable(lambda *, x, t: x * t),
        "b": LinkedVariable(lambda *, a, u: torch.exp(a + u)),
        "c": LinkedVariable(lambda *, b, x: (b * x).sum()),
        "d": LinkedVariable(lambda *, a, b: a - b),
    })
    st = State(VariablesDAG.from_dict(nv), auto_fork_type=StateForkType.REF)
    st["x"] = torch.tensor(0.5)
    # individual-level values carry the individual axis first and a component axis second, as in every shipped model
    # (with a 1-D value the library's `sum_dim(but_dim=LVL_IND)` would reduce the individual axis away)
    st["t"] = torch.tensor([[1.0], [2.0], [3.0]])
    st["u"] = torch.tensor([[0.1], [-0.2], [0.3]])
    return st, {"ind_vars": ["u"], "n_ind": 3, "ind_reads": ["b", "d", "nll_regul_u_ind", "nll_regul_ind_sum_ind"]}


def chain_state(depth):
    """a long thin graph: x0 -> x1 -> ... -> x_depth (x_{k+1} = x_k + 1), the shape on which an incomplete transitive closure shows"""
    from leaspy.variables.dag import VariablesDAG
    from leaspy.variables.specs import Hyperparameter, LinkedVariable, NamedVariables, PopulationLatentVariable
    from leaspy.variables.distributions import Normal
    from leaspy.variables.state import State, StateForkType
    d = {"mean": Hyperparameter(0.0), "scale": Hyperparameter(1.0), "x0": PopulationLatentVariable(Normal("mean", "scale"))}
    for k in range(depth):
        d[f"x{k + 1}"] = eval(f"LinkedVariable(lambda *, x{k}: x{k} + 1.0)", {"LinkedVariable": LinkedVariable})
    st = State(VariablesDAG.from_dict(NamedVariables(d)), auto_fork_type=StateForkType.REF)
    st["x0"] = torch.tensor(0.5)
    return st, {"ind_vars": [], "n_ind": 0, "ind_reads": []}


def run_histories(state, info, rng, n_hist, length, log):
    from leaspy.exceptions import LeaspyInputError
    from leaspy.variables.state import StateForkType
    from leaspy.variables.specs import IndepVariable, LatentVariable, ModelParameter
    dag = state.dag
    names = list(dag)
    settable = [n for n in names if isinstance(dag[n], (LatentVariable, ModelParameter)) and state._values[n] is not None]
    violations = []
    evals = 0
    distinct = set()
    samples = []
    for h in range(n_hist):
        st = state.clone()
        st.auto_fork_type = StateForkType.REF
        hist = []
        pending_partial = None   # name of an individual variable assigned since the last (partial) revert
        for step in range(length):
            op = rng.choice(["read", "read", "put", "put_idx", "revert", "partial", "clone", "fork", "set_none", "unset_individuals"])
            try:
                if op == "read":
                    if pending_partial:
                        n = rng.choice(info["ind_reads"])
                    else:
                        n = rng.choice(names)
                    hist.append(("read", n))
                    unset = [a for a in tuple(dag.sorted_ancestors[n]) + (n,) if isinstance(dag[a], IndepVariable) and st._values[a] is None]
                    try:
                        got = st[n]
                    except LeaspyInputError:
                        # must be because an independent value is unset
                        try:
                            from_scratch(st, n)
                            violations.append(dict(key=f"read {n}: input error although every needed value is set", history=hist[:]))
                        except LeaspyInputError:
                            pass
                        continue
                    except Exception as e:       # anything else escaping a read is the library's failure, not the monitor's
                        violations.append(dict(key=f"read of {n} crashed with {type(e).__name__}: {str(e)[:80]}", history=hist[:]))
                        return violations, evals, distinct, samples
                    evals += 1
                    distinct.add((n, len(hist)))
                    # decided from the graph alone (not through the library's own evaluation, which a fresh State shares): an
                    # independent variable that holds no value makes every read that needs it an input error
                    if unset:        # (as it was BEFORE the read)
                        violations.append(dict(key=f"read of {n} answered although the independent value {unset[0]} it needs is unset (a default or an old value was served)",
                                               history=hist[:], got=str(got)[:200]))
                        return violations, evals, distinct, samples
                    try:
                        want = from_scratch(st, n)
                    except LeaspyInputError:
                        # an independent value it depends on is unset: the read had to be refused, not answered from the cache
                        violations.append(dict(key=f"stale read of {n}: a value is returned although an independent value it depends on is unset",
                                               history=hist[:], got=str(got)[:200]))
                        return violations, evals, distinct, samples
                    if not same_value(got, want, exact=True):
                        violations.append(dict(key=f"stale read of {n}", history=hist[:], got=str(got)[:300], want=str(want)[:300]))
                        return violations, evals, distinct, samples
                elif op in ("put", "put_idx"):
                    n = rng.choice(settable)
                    cur = st._values[n]
                    if cur is None:
                        continue
                    if op == "put" or cur.ndim == 0 or cur.shape[0] == 0:
                        delta = torch.randn(cur.shape, generator=None) * 0.05
                        hist.append(("put", n, "accumulate"))
                        st.put(n, delta, accumulate=True)
                    else:
                        idx = tuple(rng.randrange(s) for s in cur.shape[:1])
                        delta = torch.randn(cur.shape[1:]) * 0.05
                        acc = rng.random() < 0.5
                        hist.append(("put", n, idx, acc))
                        st.put(n, delta, indices=idx, accumulate=acc)
                    pending_partial = n if (n in info["ind_vars"] and st.auto_fork_type is not None) else None
                    if pending_partial is None:
                        pass
                elif op == "revert":
                    hist.append(("revert",))
                    try:
                        st.revert()      # allowed at any time: either restores the last assignment or is refused
                    except LeaspyInputError:
                        hist[-1] = ("revert (refused: no fork)",)
                    pending_partial = None
                elif op == "partial":
                    if st._last_fork is not None and pending_partial:
                        mask = torch.rand(info["n_ind"]) < 0.5
                        hist.append(("revert", mask.tolist()))
                        st.revert(mask)
                        pending_partial = None
                elif op == "clone":
                    hist.append(("clone",))
                    st = st.clone(keep_last_fork=rng.random() < 0.5)
                    if st._last_fork is None:
                        pending_partial = None
                elif op == "fork":
                    if not pending_partial:
                        t = rng.choice([None, StateForkType.REF, StateForkType.COPY])
                        hist.append(("fork_mode", str(t)))
                        st.auto_fork_type = t
                elif op == "unset_individuals":
                    # what every personalisation does when it is done: all individual latent variables un-set at once
                    if not pending_partial and info["ind_vars"] and rng.random() < 0.5:
                        hist.append(("put_individual_latent_variables", None))
                        st.put_individual_latent_variables(None)
                elif op == "set_none":
                    if not pending_partial and rng.random() < 0.3:
                        n = rng.choice(settable)
                        hist.append(("set", n, None))
                        st[n] = None
            except LeaspyInputError:
                continue
        if len(samples) < 2:
            samples.append([str(x) for x in hist[:12]])
    return violations, evals, distinct, samples


def standin_state_histories(tier, seed):
    rng = random.Random(seed)
    torch.manual_seed(seed)
    n_hist, length = (60, 20) if tier == "quick" else (600, 40)
    violations, evals, distinct, samples = [], 0, set(), []
    graphs = 0
    st, info = toy_state()
    v, e, d, s = run_histories(st, info, rng, n_hist * 2, length, None)
    violations += v
    evals += e
    distinct |= {("toy",) + x for x in d}
    samples += s
    graphs += 1
    for depth in range(2, 22 if tier == "quick" else 70):
        st, info = chain_state(depth)
        v, e, d, s = run_histories(st, info, rng, 4, 12, None)
        violations += v
        evals += e
        distinct |= {("chain", depth) + x for x in d}
        graphs += 1
        if violations:
            break
    for kind, kw, n_ft in MODEL_KINDS:
        m, st, ds, df = make_model_state(kind, kw, n_ft, seed=seed)
        ind_vars = list(st.dag.individual_variable_names)
        info = {"ind_vars": ind_vars, "n_ind": ds.n_individuals,
                "ind_reads": ["nll_attach_ind", "nll_regul_ind_sum_ind", "rt", "model"] + [f"nll_regul_{v_}_ind" for v_ in ind_vars]}
        v, e, d, s = run_histories(st, info, rng, n_hist, length, None)
        violations += v
        evals += e
        distinct |= {(kind, str(kw)) + x for x in d}
        samples += s[:1]
        graphs += 1
        if violations:
            break
    return dict(evaluations=evals, distinct_nontrivial=len(distinct),
                rule="each evaluation = one read of a variable of the real State compared bit-for-bit with its definition "
                     "evaluated from scratch; distinct = (graph, variable, position in history)",
                samples=samples[:3], violations=violations[:60],
                bound=dict(space="seeded random histories over real model graphs + one toy graph + chains x0 -> ... -> x_d for every depth d up to 21 (quick) / 69 (thorough)", graphs=graphs,
                           histories_per_graph=n_hist, history_length=length, exhaustive=False, seed=seed))


def standin_mixture_fit(tier, seed):
    """the mixture model is outside the graphs of the history monitor (its variables carry a cluster axis); a short real fit
    exercises the partial revert on weighted tensors without weights, and every derived variable read afterwards must equal
    its definition evaluated from scratch"""
    import leaspy.models  # noqa
    from leaspy.models import model_factory
    from leaspy.io.data import Data, Dataset
    from .common import cohort, quiet
    violations, evals = [], 0
    df = cohort(seed, n_ind=12, n_ft=3)
    try:
        m = model_factory("mixture_logistic", n_clusters=2, source_dimension=1, dimension=3)
        with quiet():
            m.fit(Data.from_dataframe(df), "mcmc_saem", seed=seed, n_iter=12 if tier == "quick" else 40, progress_bar=False)
    except Exception as e:
        return dict(evaluations=1, distinct_nontrivial=1, rule="one evaluation = one short fit of the mixture model", samples=[],
                    violations=[dict(key=f"a short fit of the mixture model aborts: {type(e).__name__}: {str(e)[:100]}")], bound=dict(exhaustive=False))
    st = m.state
    for n in st.dag:
        try:
            got = st[n]
            want = from_scratch(st, n)
        except Exception:
            continue
        evals += 1
        if not same_value(got, want, exact=False, tol=1e-5):
            violations.append(dict(key=f"mixture model: stale read of {n} after a fit"))
    return dict(evaluations=evals + 1, distinct_nontrivial=evals, rule="one evaluation = one variable of the fitted mixture model compared with its from-scratch value (+ the fit itself)",
                samples=[dict(model="mixture_logistic, 2 clusters")], violations=violations[:60], bound=dict(n_iter=12 if tier == "quick" else 40, exhaustive=False))


STANDINS = [standin_state_histories, standin_mixture_fit]
