"""C08 bounded stand-in: the real likelihood functions against an independent reference (scipy.stats
log-densities / closed forms) on seeded grids: Normal, Bernoulli (delegates to torch.distributions: outside the
contracts), right-censored Weibull with and without sources, incl. events before the reference time."""
import math

import numpy as np
import torch

ASSUMPTIONS = ["stand-in C08: grids of parameter values as listed under coverage.bounded; reference = scipy.stats"]


def standin_densities(tier, seed):
    from scipy import stats
    import leaspy.models  # noqa
    from leaspy.variables.distributions import (NormalFamily, BernoulliFamily, WeibullRightCensoredFamily,
                                                WeibullRightCensoredWithSourcesFamily)
    from leaspy.utils.weighted_tensor import WeightedTensor
    rng = np.random.default_rng(seed)
    violations, evals, samples = [], 0, []
    reps = 40 if tier == "quick" else 600
    for r in range(reps):
        nn, kk = int(rng.integers(1, 5)), int(rng.integers(1, 4))
        x = torch.tensor(rng.normal(0, 3, (nn, kk)))
        loc = torch.tensor(rng.normal(0, 2, (kk,)))
        scale = torch.tensor(rng.uniform(0.05, 4, (kk,)))
        got = NormalFamily._nll(WeightedTensor(x), loc, scale).value.numpy()
        want = -stats.norm.logpdf(x.numpy(), loc.numpy(), scale.numpy())
        evals += 1
        if not np.allclose(got, want, rtol=1e-6, atol=1e-6):
            violations.append(dict(key="NormalFamily._nll differs from -log N(x; loc, scale)", x=x.tolist(), loc=loc.tolist(), scale=scale.tolist()))
            break
        p = torch.tensor(rng.uniform(0.01, 0.99, (nn, kk)))
        xb = torch.tensor(rng.integers(0, 2, (nn, kk))).double()
        gotb = BernoulliFamily._nll(WeightedTensor(xb), p).value.numpy()
        wantb = -(xb.numpy() * np.log(p.numpy()) + (1 - xb.numpy()) * np.log(1 - p.numpy()))
        evals += 1
        if not np.allclose(gotb, wantb, rtol=1e-6, atol=1e-6):
            violations.append(dict(key="BernoulliFamily._nll differs from -(x log p + (1-x) log(1-p))", x=xb.tolist(), p=p.tolist()))
            break
        # saturated probabilities (a float32 logistic value is exactly 0 or 1 far from onset), outcome agreeing: the density is 1,
        # its negative log 0 -- finite and (up to the library's clamping of p, ~1e-6 in single precision) zero, never NaN
        for dt in (torch.float32, torch.float64):
            ps = torch.tensor([1.0, 0.0, 1.0, 0.0], dtype=dt)
            xs = torch.tensor([1.0, 0.0, 1.0, 0.0], dtype=dt)
            gots = BernoulliFamily._nll(WeightedTensor(xs), ps).value.double().numpy()
            evals += 1
            if not (np.all(np.isfinite(gots)) and np.all(np.abs(gots) < 1e-5)):
                violations.append(dict(key="BernoulliFamily._nll is not (close to) 0 and finite for a certain outcome (p = 0 or 1 exactly, outcome agreeing)",
                                       p=ps.tolist(), x=xs.tolist(), got=gots.tolist()))
        if violations:
            break
        # Weibull
        n_ev = int(rng.integers(1, 3))
        t = torch.tensor(rng.uniform(60, 90, (nn, n_ev)))
        d = torch.tensor(rng.integers(0, 2, (nn, n_ev))).bool()
        tau = torch.tensor(rng.uniform(58, 80, (nn, 1)))
        xi = torch.tensor(rng.normal(0, 0.5, (nn, 1)))
        nu = torch.tensor(rng.uniform(2, 20, (n_ev,)))
        rho = torch.tensor(rng.uniform(0.5, 4, (n_ev,)))
        shift = torch.tensor(rng.normal(0, 0.5, (nn, n_ev)))
        for fam, extra in ((WeibullRightCensoredFamily, ()), (WeibullRightCensoredWithSourcesFamily, (shift,))):
            got = fam._nll(WeightedTensor(t, d), nu, rho, xi, tau, *extra).value.numpy()
            nup = (nu * torch.exp(-xi)).numpy() if not extra else (nu * torch.exp(-(xi + shift / rho))).numpy()
            s = (t - tau).numpy()
            logS = stats.weibull_min.logsf(np.maximum(s, 0), rho.numpy(), scale=nup)
            with np.errstate(all="ignore"):
                logf = stats.weibull_min.logpdf(np.where(s > 0, s, 1.0), rho.numpy(), scale=nup)
            want = np.where(d.numpy(), np.where(s > 0, -logf, 1e307 - logS), -logS)
            evals += 1
            if not (np.isfinite(got).all() and np.allclose(got, want, rtol=1e-6, atol=1e-6)):
                violations.append(dict(key=f"{fam.__name__}._nll differs from the right-censored Weibull negative log-likelihood "
                                           "(or is not finite)", t=t.tolist(), event=d.tolist(), tau=tau.tolist(), xi=xi.tolist(),
                                       nu=nu.tolist(), rho=rho.tolist(), got=got.tolist(), want=want.tolist()))
                break
        if violations:
            break
        if len(samples) < 2:
            samples.append(dict(x=x.tolist(), loc=loc.tolist(), scale=scale.tolist()))
    return dict(evaluations=evals, distinct_nontrivial=evals,
                rule="one evaluation = one call of a real *_nll on a seeded random tensor layout compared entry-wise with scipy.stats; "
                     "all draws are distinct",
                samples=samples, violations=violations[:60],
                bound=dict(space="seeded random values and shapes", repetitions=reps, exhaustive=False, seed=seed))


STANDINS = [standin_densities]


def standin_joint_wiring(tier, seed):
    """the joint model's event attachment, through the model's own variable graph: per individual, minus the log-density of a
    right-censored Weibull with the documented re-parametrisation -- scale nu exp(-(xi_i + shift_i / rho)), time T_i - tau_i, the
    hazard term only for observed events -- recomputed here in numpy from the state's own nu, rho, xi, tau, survival shifts and events."""
    import numpy as np
    from .c10 import joint_state
    from .common import tensor_value
    violations, evals, distinct, samples = [], 0, set(), []
    for rep in range(2 if tier == "quick" else 10):
        m, st, ds = joint_state(seed + rep)
        st = st.clone(disable_auto_fork=True)
        g = torch.Generator().manual_seed(seed + rep)
        ev = st["event"]
        T, obs = ev.value[:, 0].double(), ev.weight[:, 0].bool()
        # reference times strictly before every event age, so that every individual is at risk (no penalty branch)
        st["tau"] = (T - 2.0 - 5.0 * torch.rand(T.shape, generator=g, dtype=torch.float64)).reshape(-1, 1).to(st["tau"].dtype)
        st["xi"] = (0.4 * torch.randn(T.shape, generator=g, dtype=torch.float64)).reshape(-1, 1).to(st["xi"].dtype)
        if "sources" in st.dag:
            st["sources"] = torch.randn(st["sources"].shape, generator=g).to(st["sources"].dtype)
        nu, rho = float(st["nu"].reshape(-1)[0]), float(st["rho"].reshape(-1)[0])
        xi, tau = st["xi"][:, 0].double().numpy(), st["tau"][:, 0].double().numpy()
        shift = tensor_value(st["survival_shifts"])[:, 0].double().numpy() if "survival_shifts" in st.dag else np.zeros_like(xi)
        s = T.numpy() - tau
        nup = nu * np.exp(-(xi + shift / rho))
        log_s = -np.power(np.maximum(s, 0.0) / nup, rho)
        log_h = np.log(rho / nup) + (rho - 1.0) * np.log(s / nup)
        want = -(log_s + np.where(obs.numpy(), log_h, 0.0))
        got = tensor_value(st["nll_attach_event_ind"]).double().numpy().reshape(-1)
        evals += 1
        distinct.add(rep)
        if not np.allclose(got, want, rtol=2e-4, atol=1e-5):
            k = int(np.argmax(np.abs(got - want)))
            violations.append(dict(key="joint model: nll_attach_event_ind is not minus the right-censored Weibull log-density with the documented re-parametrisation",
                                   individual=k, observed=bool(obs[k]), got=float(got[k]), want=float(want[k])))
            break
        samples.append(dict(nu=nu, rho=rho, n_observed=int(obs.sum()), n_censored=int((~obs).sum())))
    return dict(evaluations=evals, distinct_nontrivial=len(distinct),
                rule="one evaluation = the event attachment of every individual of one real joint-model state against a numpy reference",
                samples=samples[:2], violations=violations[:60], bound=dict(states=2 if tier == "quick" else 10, exhaustive=False, seed=seed))


STANDINS = STANDINS + [standin_joint_wiring]
