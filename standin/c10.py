"""C10 bounded stand-in: on real model states, the re-centring step leaves every derived quantity that does not
carry the gauge (trajectories, attachment terms, event likelihood, mixing matrix, space shifts) numerically
unchanged and makes xi zero-mean; every row of the mixing matrix is orthogonal, in the model's metric, to the
direction of progression.  Bounded: seeded states of the shipped model kinds."""
import numpy as np
import pandas as pd
import itertools

import torch

from .common import MODEL_KINDS, make_model_state, cohort, quiet, tensor_value

ASSUMPTIONS = ["stand-in C10: seeded model states (coverage.bounded); comparisons to float32 rounding (rtol 1e-4)"]

GAUGE_FREE = ["model", "nll_attach_ind", "nll_attach", "mixing_matrix", "space_shifts", "orthonormal_basis",
              "nll_attach_y_ind", "nll_attach_event_ind", "nll_attach_y", "nll_attach_event", "rt_times_v0"]


def joint_state(seed):
    import leaspy.models  # noqa
    from leaspy.models import model_factory
    from leaspy.io.data import Data, Dataset
    df = cohort(seed, n_ind=8, n_ft=2)
    rng = np.random.default_rng(seed)
    last = df.groupby("ID")["TIME"].max()
    df["EVENT_TIME"] = df["ID"].map(last + rng.uniform(0.5, 3.0, len(last)))
    ev = pd.Series(rng.integers(0, 2, len(last)), index=last.index)
    ev.iloc[0], ev.iloc[1] = 0, 1
    df["EVENT_BOOL"] = df["ID"].map(ev).astype(bool)
    data = Data.from_dataframe(df, data_type="joint")
    ds = Dataset(data)
    m = model_factory("joint", source_dimension=1, dimension=2, nb_events=1)
    with quiet():
        m.initialize(ds)
    st = m.state
    with st.auto_fork(None):
        m.put_data_variables(st, ds)
    m.put_individual_parameters(st, ds)
    return m, st, ds


def standin_gauge(tier, seed):
    violations, evals, distinct, samples = [], 0, set(), []
    states = []
    for k, (kind, kw, n_ft) in enumerate(MODEL_KINDS):
        if kind == "shared_speed_logistic":
            continue        # no re-centring step in that model
        states.append((kind + str(kw),) + make_model_state(kind, kw, n_ft, seed=seed + k)[:2])
    try:
        m, st, ds = joint_state(seed)
        states.append(("joint", m, st))
    except Exception as e:     # the joint model needs event data; report if it cannot be built
        violations.append(dict(key=f"stand-in could not build a joint model state: {type(e).__name__}: {str(e)[:150]}"))
    reps = 3 if tier == "quick" else 25
    g = torch.Generator().manual_seed(seed)
    for label, model, state in states:
        for r in range(reps):
            st = state.clone(disable_auto_fork=True)
            xi = st["xi"]
            st["xi"] = xi + torch.randn(xi.shape, generator=g) * 0.3 + float(torch.randn((), generator=g))
            if r == 1 and xi.shape[0] >= 2:
                # the far ends of the pace range: an individual 250 times faster with its onset a week before a visit, another
                # one 250 times slower (the gauge identity holds for EVERY log-acceleration, not only plausible ones)
                x2 = st["xi"].clone()
                x2[0, 0], x2[1, 0] = 5.5, -5.5
                st["xi"] = x2
                t_all = tensor_value(st["t"])
                tau2 = st["tau"].clone()
                tau2[0, 0] = float(t_all[0, 0]) - 0.02
                st["tau"] = tau2
            if "sources" in st.dag:
                st["betas"] = torch.randn(st["betas"].shape, generator=g) * 0.5      # a non-trivial mixing matrix
                st["sources"] = st["sources"] + torch.randn(st["sources"].shape, generator=g) * 0.5
            names = [n for n in GAUGE_FREE if n in st.dag]
            before = {n: tensor_value(st[n]).clone() for n in names}
            type(model)._center_xi_realizations(st)
            evals += 1
            distinct.add((label, r))
            if abs(float(st["xi"].mean())) > 1e-5:
                violations.append(dict(key=f"{label}: xi is not zero-mean after re-centring", mean=float(st["xi"].mean())))
                break
            for n in names:
                after = tensor_value(st[n])
                if not torch.allclose(after, before[n], rtol=2e-4, atol=2e-5):
                    violations.append(dict(key=f"{label}: re-centring changed {n}", max_abs_diff=float((after - before[n]).abs().max())))
                    break
            if violations:
                break
            if "mixing_matrix" in st.dag:
                A = st["mixing_matrix"]                       # (n_sources, n_features)
                if "metric_sqr" in st.dag:
                    w = st["metric_sqr"] * st["v0"]
                else:
                    w = st["g_metric"] * st["collin_to_d_gamma_t0"]
                dots = (A * w).sum(dim=1) / (A.norm(dim=1) * w.norm() + 1e-12)
                evals += 1
                if float(dots.abs().max()) > 1e-4:
                    violations.append(dict(key=f"{label}: a row of the mixing matrix is not orthogonal to the direction of progression",
                                           cosines=dots.tolist()))
                    break
        if violations:
            break
        samples.append(label)
    # shared-speed model: orthogonality only
    m, st, _, _ = make_model_state("shared_speed_logistic", dict(source_dimension=1), 3, seed=seed)
    st = st.clone(disable_auto_fork=True)
    st["betas"] = torch.randn(st["betas"].shape, generator=g) * 0.5
    st["deltas"] = torch.randn(st["deltas"].shape, generator=g) * 0.3
    A, w = st["mixing_matrix"], st["g_metric"] * st["collin_to_d_gamma_t0"]
    dots = (A * w).sum(dim=1) / (A.norm(dim=1) * w.norm() + 1e-12)
    evals += 1
    if float(dots.abs().max()) > 1e-4 and float(A.abs().max()) > 0:
        violations.append(dict(key="shared_speed_logistic: mixing matrix row not orthogonal", cosines=dots.tolist()))
    return dict(evaluations=evals, distinct_nontrivial=len(distinct),
                rule="one evaluation = one re-centring of a perturbed real model state with all gauge-free derived variables "
                     "compared before / after (or one orthogonality check); distinct = (model kind, repetition)",
                samples=samples[:3], violations=violations[:60],
                bound=dict(space="seeded states of logistic / linear / joint models", repetitions=reps, exhaustive=False, seed=seed))


def standin_trajectory_orthogonality(tier, seed):
    """orthogonality measured on the trajectories themselves (not on the model's own intermediate vectors): at the reference time
    of the average individual, the derivative of the real trajectory with respect to each source is orthogonal, in the model's
    metric, to its derivative with respect to time -- for models loaded from hand-written parameters with clearly non-zero
    positions, deltas and mixing coefficients."""
    import leaspy.models  # noqa
    from leaspy.models import BaseModel
    violations, evals, distinct, samples = [], 0, set(), []
    rng = np.random.default_rng(seed)

    def settings(kind, dim, n_src):
        par = {"betas_mean": rng.normal(0, 0.5, (dim - 1, n_src)).tolist(), "noise_std": 0.1, "tau_mean": [70.0], "tau_std": [8.0],
               "xi_std": [0.5]}
        if kind == "shared_speed_logistic":
            par.update(deltas_mean=rng.normal(0, 1.0, (dim - 1,)).tolist(), log_g_mean=[float(rng.normal(0.5, 0.5))], xi_mean=[-2.0])
        else:
            par.update(log_g_mean=rng.normal(0.3, 0.8, (dim,)).tolist(), log_v0_mean=rng.normal(-3.0, 0.5, (dim,)).tolist())
        return {"leaspy_version": "2.0.0", "name": kind, "features": [f"Y{k}" for k in range(dim)], "dimension": dim,
                "obs_models": {"y": "gaussian-scalar"}, "hyperparameters": {}, "parameters": par, "source_dimension": n_src}
    cases = [("shared_speed_logistic", 3, 1), ("shared_speed_logistic", 4, 2), ("logistic", 3, 2), ("logistic", 4, 1)]
    reps = 2 if tier == "quick" else 8
    for (kind, dim, n_src), rep in itertools.product(cases, range(reps)):
        try:
            with quiet():
                model = BaseModel.load(settings(kind, dim, n_src))
        except Exception as e:
            violations.append(dict(key=f"{kind}: hand-written parameters cannot be loaded: {type(e).__name__}: {str(e)[:80]}"))
            break
        xi = float(model.parameters["xi_mean"]) if "xi_mean" in model.parameters else 0.0
        tau = 70.0

        def traj(t, src):
            out = model.compute_individual_trajectory([t], {"xi": xi, "tau": tau, "sources": list(src)})
            return out.reshape(-1).to(torch.float64)
        zero = [0.0] * n_src
        h_t, h_s = 0.5, 0.1
        d_time = (traj(tau + h_t, zero) - traj(tau - h_t, zero)) / (2 * h_t)
        G = model.state["metric"].to(torch.float64).reshape(-1) ** 2
        worst = 0.0
        for j in range(n_src):
            sp, sm = list(zero), list(zero)
            sp[j], sm[j] = h_s, -h_s
            d_src = (traj(tau, sp) - traj(tau, sm)) / (2 * h_s)
            cos = (d_src * G * d_time).sum() / ((d_src * G * d_src).sum().sqrt() * (d_time * G * d_time).sum().sqrt() + 1e-30)
            worst = max(worst, abs(float(cos)))
        evals += 1
        distinct.add((kind, dim, n_src, rep))
        if worst > 2e-2:            # finite differences in single precision: ~1e-4 when the property holds
            violations.append(dict(key=f"{kind}: a space shift is not orthogonal (model's metric) to the direction of progression of the real trajectories",
                                   cosine=worst, dimension=dim, sources=n_src))
            break
        if len(samples) < 2:
            samples.append(dict(kind=kind, dimension=dim, sources=n_src, worst_cosine=worst))
    return dict(evaluations=evals, distinct_nontrivial=len(distinct),
                rule="one evaluation = one hand-parametrised model whose trajectory derivatives (time vs each source) are compared in the model's metric",
                samples=samples, violations=violations[:60], bound=dict(cases=len(cases), repetitions=reps, exhaustive=False, seed=seed))


STANDINS = [standin_gauge, standin_trajectory_orthogonality]
