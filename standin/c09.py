"""C09 bounded stand-in: estimates of real models against an independent numpy implementation of the documented
closed form, and the re-indexing of BaseModel.estimate (dict and MultiIndex inputs; unsorted, repeated, single,
far-extrapolated ages).  Bounded: seeded models / individuals / age lists as listed in the evidence."""
import numpy as np
import pandas as pd
import torch

from .common import fitted_model, quiet

ASSUMPTIONS = ["stand-in C09: fitted models of 5 kinds, seeded individual parameters and age lists (coverage.bounded)"]


def sigmoid(x):
    return 1.0 / (1.0 + np.exp(-x))


def closed_form(model, kind, ip, ages):
    """documented formula, from the saved parameters only (numpy, float64)"""
    P = {k: np.asarray(v, dtype=float) for k, v in model.parameters.items()}
    xi, tau = float(np.ravel(ip["xi"])[0]), float(np.ravel(ip["tau"])[0])
    rt = np.exp(xi) * (np.asarray(ages, dtype=float) - tau)
    if model.source_dimension:
        mix = np.asarray(model.state["mixing_matrix"], dtype=float)
        w = np.asarray(ip["sources"], dtype=float).reshape(1, -1) @ mix       # (1, n_ft)
    else:
        w = np.zeros((1, model.dimension))
    if kind == "logistic":
        g, v0 = np.exp(P["log_g_mean"]), np.exp(P["log_v0_mean"])
        m = (g + 1) ** 2 / g
        return sigmoid(m * (v0 * rt[:, None] + w) - np.log(g))
    if kind == "linear":
        g, v0 = P["g_mean"], np.exp(P["log_v0_mean"])
        return g + v0 * rt[:, None] + w
    if kind == "shared_speed_logistic":
        g = np.exp(P["log_g_mean"])
        d = np.concatenate([[0.0], np.ravel(P["deltas_mean"])]) if model.dimension > 1 else np.zeros(1)
        gd = g * np.exp(-d)
        m = (gd + 1) ** 2 / gd
        return sigmoid(m * w + rt[:, None] + d - np.log(g))
    raise KeyError(kind)


def standin_estimates(tier, seed):
    from leaspy.io.outputs import IndividualParameters
    rng = np.random.default_rng(seed)
    violations, evals, distinct, samples = [], 0, set(), []
    kinds = [("logistic", dict(source_dimension=2, dimension=3)), ("logistic", dict(source_dimension=0, dimension=3)),
             ("linear", dict(source_dimension=1, dimension=3)), ("shared_speed_logistic", dict(source_dimension=1, dimension=3)),
             ("logistic", dict(dimension=1, source_dimension=0, n_ft=1)), ("shared_speed_logistic", dict(source_dimension=0, dimension=3))]
    n_rep = 4 if tier == "quick" else 40
    for kind, kw in kinds:
        kw = dict(kw)
        n_ft = kw.pop("n_ft", 3)
        model, _ = fitted_model(kind, seed=seed, n_ft=n_ft, **kw)
        tau_m = float(np.ravel(model.parameters["tau_mean"])[0])
        for r in range(n_rep):
            ips = IndividualParameters()
            ids = [f"p{j}" for j in range(3)]
            raw = {}
            for sid in ids:
                d = {"xi": float(rng.normal(0, 0.5)), "tau": float(tau_m + rng.normal(0, 5))}
                if model.source_dimension:
                    d["sources"] = [float(x) for x in rng.normal(0, 1, model.source_dimension)]
                raw[sid] = d
                ips.add_individual_parameters(sid, d)
            age_lists = {
                ids[0]: [float(a) for a in rng.uniform(50, 95, int(rng.integers(1, 6)))],                  # unsorted
                ids[1]: [70.5, 70.5, 60.0, 70.5] if r % 2 == 0 else [float(rng.uniform(60, 80))],          # repeated / single
                ids[2]: [-50.0, 20.0, 150.0, 400.0],                                                       # far extrapolation
            }
            with quiet():
                est = model.estimate(age_lists, ips)
            evals += 1
            distinct.add((kind, str(kw), r))
            if list(est.keys()) != list(age_lists.keys()):
                violations.append(dict(key=f"{kind}: estimate(dict) returned individuals {list(est.keys())} for {list(age_lists.keys())}"))
                break
            for sid, ages in age_lists.items():
                got = np.asarray(est[sid], dtype=float)
                want = closed_form(model, kind, raw[sid], ages)
                if got.shape != (len(ages), model.dimension):
                    violations.append(dict(key=f"{kind}: estimate for {len(ages)} ages has shape {got.shape}", ages=ages))
                    break
                if not np.allclose(got, want, rtol=2e-4, atol=2e-5):
                    violations.append(dict(key=f"{kind} {kw}: estimate differs from the documented closed form", ages=ages,
                                           ip=raw[sid], got=got.tolist(), want=want.tolist()))
                    break
                if kind != "linear":
                    if not ((got >= 0).all() and (got <= 1).all()):
                        violations.append(dict(key=f"{kind}: logistic output outside [0, 1]", ages=ages, got=got.tolist()))
                        break
                    o = np.argsort(ages, kind="stable")
                    if not (np.diff(got[o], axis=0) >= -1e-7).all():
                        violations.append(dict(key=f"{kind}: logistic output decreasing with age", ages=ages, got=got.tolist()))
                        break
            if violations:
                break
            # dict input returned as a table: one row per requested (individual, age), in the requested order
            with quiet():
                tab = model.estimate(age_lists, ips, to_dataframe=True)
            evals += 1
            want_rows = [(sid, a) for sid, ages in age_lists.items() for a in ages]
            got_rows = [(i_, float(t_)) for i_, t_ in tab.index]
            if got_rows != [(i_, float(t_)) for i_, t_ in want_rows]:
                violations.append(dict(key=f"{kind}: estimate(dict, to_dataframe=True) does not list the requested (individual, age) pairs in the requested order",
                                       requested=[list(map(str, x)) for x in want_rows], returned=[list(map(str, x)) for x in got_rows]))
                break
            for (sid, a), vals in zip(want_rows, tab.to_numpy(dtype=float)):
                if not np.allclose(vals, closed_form(model, kind, raw[sid], [a])[0], rtol=2e-4, atol=2e-5):
                    violations.append(dict(key=f"{kind}: estimate(dict, to_dataframe=True) row ({sid}, {a}) does not hold that individual's value at that age"))
                    break
            if violations:
                break
            # MultiIndex input: exactly the requested rows, in the requested order
            rows = [(sid, a) for sid in (ids[2], ids[0], ids[1]) for a in age_lists[sid]]
            rng.shuffle(rows)
            ix = pd.MultiIndex.from_tuples(rows, names=["ID", "TIME"])
            with quiet():
                df = model.estimate(ix, ips)
            evals += 1
            has_dup = len(set(rows)) != len(rows)
            if len(df) != len(rows) or list(df.index) != rows:
                violations.append(dict(key=f"estimate(MultiIndex): {len(rows)} rows requested, {len(df)} returned / order changed"
                                           + (" (index with a repeated age)" if has_dup else ""),
                                       requested=[list(map(str, x)) for x in rows], returned=[list(map(str, x)) for x in df.index]))
                break
            for (sid, a), vals in zip(rows, df.to_numpy(dtype=float)):
                want = closed_form(model, kind, raw[sid], [a])[0]
                if not np.allclose(vals, want, rtol=2e-4, atol=2e-5):
                    violations.append(dict(key=f"{kind}: estimate(MultiIndex) row ({sid}, {a}) does not hold that individual's value at that age"))
                    break
            if violations:
                break
            if len(samples) < 2:
                samples.append(dict(kind=kind, ages={k_: v_ for k_, v_ in age_lists.items()}))
        if violations:
            break
        # "for any parameters": the same model object, after estimates were already asked, with its parameters replaced by hand
        new_par = {}
        for k_, v_ in model.parameters.items():
            t_ = torch.as_tensor(v_).clone().float()
            if k_.endswith("_std") or k_ == "noise_std":
                new_par[k_] = t_
            elif k_ == "tau_mean":
                new_par[k_] = t_ + 3.0
            else:
                new_par[k_] = t_ + torch.as_tensor(rng.normal(0.25, 0.1, tuple(t_.shape)), dtype=torch.float32)
        with quiet():
            model.load_parameters(new_par)
            est = model.estimate(age_lists, ips)
        evals += 1
        distinct.add((kind, str(kw), "parameters replaced"))
        for sid, ages in age_lists.items():
            got = np.asarray(est[sid], dtype=float)
            want = closed_form(model, kind, raw[sid], ages)
            if not np.allclose(got, want, rtol=2e-4, atol=2e-5):
                violations.append(dict(key=f"{kind} {kw}: after the model's parameters were replaced, estimate does not follow the closed form of the NEW parameters",
                                       ages=ages, got=got.tolist(), want=want.tolist()))
                break
        if violations:
            break
    return dict(evaluations=evals, distinct_nontrivial=len(distinct),
                rule="one evaluation = one estimate() call (3 individuals, unsorted / repeated / extrapolated ages) compared with a "
                     "numpy implementation of the documented formula; distinct = (model kind, hyper-parameters, repetition)",
                samples=samples, violations=violations[:60],
                bound=dict(space="5 fitted model kinds x seeded individual parameters x age lists", repetitions=n_rep,
                           exhaustive=False, seed=seed))


STANDINS = [standin_estimates]
