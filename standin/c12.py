"""C12 bounded stand-in, on the real library:
  * after a fit, every population latent variable of the model's state equals the mode of its prior under the final
    parameters, and every derived variable equals its definition evaluated from scratch on the saved parameters;
  * save -> load -> save: same parameters, hyperparameters, features and trajectories to single precision, identical second
    file -- over model kinds x numbers of sources x noise structures x feature namings x instance names, for parameters
    produced by a fit and for parameters written by hand into the file."""
import copy
import json
import os
import shutil
import tempfile

import numpy as np
import torch

from .common import cohort, quiet, from_scratch, same_value

ASSUMPTIONS = ["stand-in C12: fits of 25 iterations on seeded cohorts of 8; configurations as enumerated"]

CONFIGS = [
    ("logistic", dict(source_dimension=2), 3, "gaussian-scalar", None),
    ("logistic", dict(source_dimension=0), 3, "gaussian-diagonal", None),
    ("logistic", dict(source_dimension=1), 2, "gaussian-diagonal", ["MMSE (total)", "adas-cog_13"]),
    ("linear", dict(source_dimension=1), 3, "gaussian-scalar", None),
    ("shared_speed_logistic", dict(source_dimension=1), 3, "gaussian-scalar", ["a", "b b", "ç"]),
    ("logistic", dict(), 1, "gaussian-scalar", ["y"]),
]


def make(kind, kw, n_ft, noise, feats, seed, instance_name=None):
    from leaspy.models import model_factory
    from leaspy.models.obs_models import observation_model_factory
    from leaspy.io.data import Data
    df = cohort(seed, n_ind=8, n_ft=n_ft)
    if feats:
        df = df.rename(columns={f"f{k}": feats[k] for k in range(n_ft)})
    extra = {}
    if noise == "bernoulli":
        cols = [c for c in df.columns if c not in ("ID", "TIME")]
        df[cols] = (df[cols] > 0.5).astype(float).where(df[cols].notna())      # binary observations (missing ones stay missing)
        extra["obs_models"] = "bernoulli"
    elif noise == "model-default":
        pass          # the model kind fixes its own observation model (mixture)
    elif noise == "gaussian-diagonal":
        extra["obs_models"] = observation_model_factory(noise, dimension=n_ft)
    elif noise != "gaussian-scalar":
        extra["obs_models"] = observation_model_factory(noise)
    m = model_factory(kind, instance_name, **kw, **extra) if instance_name else model_factory(kind, **kw, **extra)
    with quiet():
        m.fit(Data.from_dataframe(df), "mcmc_saem", seed=seed, n_iter=25, progress_bar=False)
    return m, df


def close32(a, b):
    a, b = torch.as_tensor(a, dtype=torch.float64), torch.as_tensor(b, dtype=torch.float64)
    return a.shape == b.shape and bool(torch.allclose(a, b, rtol=2e-6, atol=1e-7))


def trajectories(model, n_src):
    ts = np.array([61.5, 70.0, 78.25, 90.0])
    ip = {"xi": [0.3], "tau": [72.5]}
    if n_src:
        ip["sources"] = [0.4 * (-1) ** k for k in range(n_src)]
    return model.compute_individual_trajectory(ts, ip)


def standin_self_consistent(tier, seed):
    from leaspy.variables.specs import PopulationLatentVariable, LinkedVariable
    violations, evals, distinct, samples = [], 0, set(), []
    for kind, kw, n_ft, noise, feats in (CONFIGS if tier == "thorough" else CONFIGS[:3] + CONFIGS[5:]):
        m, _ = make(kind, kw, n_ft, noise, feats, seed)
        what = f"{kind}{kw or ''} {noise}"
        st = m.state
        for name, var in st.dag.sorted_variables_by_type[PopulationLatentVariable].items():
            evals += 1
            distinct.add((what, name))
            mode = var.prior.mode.call(st)
            if not same_value(st[name], mode.expand(st[name].shape) if mode.shape != st[name].shape else mode):
                violations.append(dict(key=f"after fit ({what}): population variable {name} is not at the mode of its prior under the final parameters",
                                       value=str(st[name].flatten()[:3].tolist()), mode=str(mode.flatten()[:3].tolist())))
        # derived quantities agree with the saved parameters: reload and compare every derived population-level variable
        d = tempfile.mkdtemp(prefix="c12_")
        try:
            p = os.path.join(d, "m.json")
            m.save(p)
            from leaspy.models import BaseModel
            try:
                m2 = BaseModel.load(p)
            except Exception as e:
                violations.append(dict(key=f"load of a fitted {what} model raises {type(e).__name__}: {str(e)[:80]}"))
                continue
        finally:
            shutil.rmtree(d, ignore_errors=True)
        for name in ("v0", "g", "mixing_matrix", "metric", "orthonormal_basis", "log_v0", "betas"):
            if name in st.dag and name in m2.state.dag:
                evals += 1
                try:
                    a, b = st[name], m2.state[name]
                except Exception:
                    continue
                if not same_value(a, b, exact=False, tol=2e-6):
                    violations.append(dict(key=f"after fit ({what}): derived quantity {name} of the fitted model disagrees with the saved parameters",
                                           fitted=str(torch.as_tensor(a).flatten()[:3].tolist()), from_saved=str(torch.as_tensor(b).flatten()[:3].tolist())))
        if len(samples) < 2:
            samples.append(dict(model=what, checked=sorted(st.dag.sorted_variables_by_type[PopulationLatentVariable])))
    uniq = {v["key"]: v for v in violations}
    return dict(evaluations=evals, distinct_nontrivial=len(distinct), rule="one evaluation = one variable of one fitted model compared with its prior mode / its value from the saved parameters",
                samples=samples, violations=list(uniq.values())[:60], bound=dict(configurations=len(CONFIGS if tier == 'thorough' else CONFIGS[:3] + CONFIGS[5:]), exhaustive=False))


def standin_save_load(tier, seed):
    from leaspy.models import BaseModel
    violations, evals, distinct, samples = [], 0, set(), []
    tmp = tempfile.mkdtemp(prefix="c12_")
    try:
        cases = []
        for q, (kind, kw, n_ft, noise, feats) in enumerate(CONFIGS if tier == "thorough" else CONFIGS[:4] + CONFIGS[5:]):
            cases.append((kind, kw, n_ft, noise, feats, None, "fit"))
        cases.append(("mixture_logistic", dict(source_dimension=2, n_clusters=2, dimension=3), 3, "model-default", None, None, "fit"))
        # a noise model other than the Gaussian ones: the observation model is part of what is saved and restored
        cases.append(("logistic", dict(source_dimension=1), 3, "bernoulli", None, None, "fit"))
        cases.append(("logistic", dict(), 1, "bernoulli", ["y"], None, "fit"))
        cases.append(("logistic", dict(source_dimension=1), 2, "gaussian-scalar", None, "my_model", "fit"))
        cases.append(("linear", dict(source_dimension=1), 3, "gaussian-scalar", None, "Linear study #2", "fit"))
        cases.append(("logistic", dict(source_dimension=2), 3, "gaussian-scalar", None, None, "hand"))
        cases.append(("logistic", dict(source_dimension=2), 3, "gaussian-diagonal", None, None, "live"))
        cases.append(("linear", dict(source_dimension=1), 3, "gaussian-scalar", None, None, "live"))
        kept_models = []
        for q, (kind, kw, n_ft, noise, feats, inst, origin) in enumerate(cases):
            what = f"{kind}{kw or ''} {noise}" + (f" features {feats}" if feats else "") + (f" instance name {inst!r}" if inst else "") + (" hand-written parameters" if origin == "hand" else "")
            evals += 1
            distinct.add(what)
            try:
                m, _ = make(kind, kw, n_ft, noise, feats, seed, inst)
            except Exception as e:
                violations.append(dict(key=f"{what}: cannot be fitted: {type(e).__name__}: {str(e)[:80]}"))
                continue
            p1, p2 = os.path.join(tmp, f"a{q}.json"), os.path.join(tmp, f"b{q}.json")
            if origin == "live":
                # parameters written by hand on the LIVE model object (it already has a state): the population variables must follow
                from leaspy.variables.specs import PopulationLatentVariable
                newp = {}
                for k_, v_ in m.parameters.items():
                    t_ = torch.as_tensor(v_).clone().float()
                    newp[k_] = t_ if (k_.endswith("_std") or k_ == "noise_std") else t_ + 0.2 + 0.05 * torch.arange(t_.numel(), dtype=torch.float32).reshape(t_.shape)
                try:
                    with quiet():
                        m.load_parameters(newp)
                except Exception as e:
                    violations.append(dict(key=f"{what}: load_parameters on a fitted model raises {type(e).__name__}: {str(e)[:80]}"))
                    continue
                for name, var in m.state.dag.sorted_variables_by_type[PopulationLatentVariable].items():
                    mode = var.prior.mode.call(m.state)
                    cur = m.state[name]
                    if not same_value(cur, mode.expand(cur.shape) if mode.shape != cur.shape else mode):
                        violations.append(dict(key=f"{what}: after parameters were written by hand on the live model, population variable {name} is not at the mode of its prior",
                                               value=str(cur.flatten()[:3].tolist()), mode=str(mode.flatten()[:3].tolist())))
                        break
                what += " parameters written on the live model"
            try:
                m.save(p1)
                if origin == "hand":
                    d = json.load(open(p1))
                    d["parameters"]["tau_mean"] = 71.123456789
                    d["parameters"]["xi_std"] = 0.6180339887
                    d["parameters"]["log_g_mean"] = [0.1, -0.25, 1.0 / 3.0]
                    d["parameters"].pop("mixing_matrix", None)
                    json.dump(d, open(p1, "w"))
                    m = BaseModel.load(p1)
                    m.save(p1)
                m2 = BaseModel.load(p1)
                m2.save(p2)
            except Exception as e:
                violations.append(dict(key=f"save / load of a model with {'a custom instance name' if inst else 'configuration ' + what} raises {type(e).__name__}: {str(e)[:90]}", model=what))
                continue
            a, b = m.parameters, m2.parameters
            if set(a) != set(b) or any(not close32(a[k], b[k]) for k in a):
                bad = [k for k in a if k not in b or not close32(a[k], b[k])]
                violations.append(dict(key=f"{what}: parameters differ after save / load", parameters=bad))
            ha, hb = m.hyperparameters, m2.hyperparameters
            if set(ha) != set(hb) or any(not close32(ha[k], hb[k]) for k in ha):
                violations.append(dict(key=f"{what}: hyperparameters differ after save / load"))
            if list(m.features) != list(m2.features) or m.dimension != m2.dimension or m.name != m2.name:
                violations.append(dict(key=f"{what}: features / dimension / name differ after save / load ({m.features}, {m.name} -> {m2.features}, {m2.name})"))
            try:
                ta, tb = trajectories(m, kw.get("source_dimension", 0)), trajectories(m2, kw.get("source_dimension", 0))
                if not close32(ta, tb):
                    violations.append(dict(key=f"{what}: trajectories differ after save / load"))
            except Exception as e:
                violations.append(dict(key=f"{what}: trajectory of the reloaded model raises {type(e).__name__}: {str(e)[:80]}"))
            f1, f2 = json.load(open(p1)), json.load(open(p2))
            if f1 != f2:
                diff = [k for k in set(f1) | set(f2) if f1.get(k) != f2.get(k)]

                def as32(x):
                    if isinstance(x, float):
                        return float(np.float32(x))
                    if isinstance(x, list):
                        return [as32(y) for y in x]
                    if isinstance(x, dict):
                        return {k_: as32(v_) for k_, v_ in x.items()}
                    return x
                if as32(f1) == as32(f2):
                    violations.append(dict(key=f"{what}: the file written by the reloaded model differs from the first one in the digits beyond single precision only (keys {sorted(diff)})"))
                else:
                    violations.append(dict(key=f"{what}: saving the reloaded model does not reproduce the file (keys {sorted(diff)})"))
            if len(samples) < 2:
                samples.append(dict(model=what, keys=sorted(f1)))
            kept_models.append((what, m))
        # a file that is overwritten: loading a path gives what the file holds NOW, whatever was loaded from that path before
        if len(kept_models) >= 2:
            shared = os.path.join(tmp, "shared.json")
            for what, m in (kept_models[0], kept_models[-1], kept_models[0]):
                evals += 1
                distinct.add(("shared path", what))
                try:
                    m.save(shared)
                    back = BaseModel.load(shared)
                except Exception as e:
                    violations.append(dict(key=f"{what}: save / load through a path used before raises {type(e).__name__}: {str(e)[:80]}"))
                    break
                a, b = m.parameters, back.parameters
                def flat_close(x, y):      # (values only: the 0-d / (1,) shape of a scalar noise level is the recorded finding, not this clause)
                    x, y = torch.as_tensor(x, dtype=torch.float64).reshape(-1), torch.as_tensor(y, dtype=torch.float64).reshape(-1)
                    return x.shape == y.shape and bool(torch.allclose(x, y, rtol=2e-6, atol=1e-7))
                if set(a) != set(b) or any(not flat_close(a[k], b[k]) for k in a) or m.dimension != back.dimension or list(m.features) != list(back.features):
                    violations.append(dict(key="loading a path that was written again returns what was loaded from it before, not the file's current content",
                                           model=what))
                    break
    finally:
        shutil.rmtree(tmp, ignore_errors=True)
    uniq = {v["key"]: v for v in violations}
    return dict(evaluations=evals, distinct_nontrivial=len(distinct), rule="one evaluation = one model saved, loaded, compared and saved again",
                samples=samples, violations=list(uniq.values())[:60], bound=dict(cases=len(cases), exhaustive=False))


STANDINS = [standin_self_consistent, standin_save_load]
