"""C02 bounded stand-ins:
  * samplers_monitor: rejected rows / blocks restored exactly, later reads consistent (recorded sampler steps);
  * rejection histories on the real State over real model graphs: whatever was (not) read before the proposal and between
    the proposal and the decision, after a full rejection -- and after a partial one that rejects every individual -- every
    variable reads exactly as if the proposal had never been made."""
import itertools

import torch

from .samplers_monitor import run
from .common import MODEL_KINDS, make_model_state, same_value

ASSUMPTIONS = ["stand-in C02: seeded sampler sweeps, bounds under coverage.bounded"]


def standin_sampler_steps(tier, seed):
    return run(tier, seed)


def standin_rejection_histories(tier, seed):
    from leaspy.variables.specs import IndividualLatentVariable, PopulationLatentVariable
    from leaspy.variables.state import StateForkType
    violations, evals, distinct, samples = [], 0, set(), []
    kinds = MODEL_KINDS if tier == "thorough" else MODEL_KINDS[:2]
    for kind, kw, n_ft in kinds:
        m, base, ds, df = make_model_state(kind, kw, n_ft, seed=seed, n_ind=5)
        dag = base.dag
        latents = [n for n in dag if isinstance(dag[n], (PopulationLatentVariable, IndividualLatentVariable))]
        for name in latents:
            children = list(dag.sorted_children[name])
            picks = [(), tuple(children[:1]), tuple(children[-1:]), tuple(children)]
            # documented precondition of a per-individual rejection: only variables carrying the individual axis are read
            # between the proposal and the decision
            ind_axis = [k for k in children if k in ("rt", "model", "alpha", "nll_attach_ind", "nll_regul_ind_sum_ind") or k.endswith("_ind")]
            picks_ind = [(), tuple(ind_axis[:1]), tuple(ind_axis[-1:]), tuple(ind_axis)]
            for before, between, partial in [(b, w, False) for b, w in itertools.product(picks, picks)] + \
                    ([(b, w, True) for b, w in itertools.product(picks, picks_ind)] if isinstance(dag[name], IndividualLatentVariable) else []):
                if True:
                    def prepared():
                        st = base.clone()
                        st.auto_fork_type = None
                        st[name] = st[name].clone()          # the derived values of `name` become unset
                        st.auto_fork_type = StateForkType.REF
                        for k in before:
                            st[k]
                        return st
                    ref, st = prepared(), prepared()
                    torch.manual_seed(seed)
                    st[name] = st[name] + 0.05 * torch.randn(st[name].shape)     # the proposal
                    for k in between:
                        st[k]
                    if partial:
                        st.revert(torch.ones(ds.n_individuals, dtype=torch.bool))
                    else:
                        st.revert()
                    evals += 1
                    distinct.add((kind, str(kw), name, before, between, partial))
                    for k in [name] + children:
                        if not same_value(st[k], ref[k], exact=True):
                            violations.append(dict(key=f"after a {'partial (all individuals) ' if partial else ''}rejection of a proposal on {name}, {k} does not read as if the proposal had never been made",
                                                   model=f"{kind}{kw}", read_before=list(before), read_between=list(between)))
                            break
        # the COPY fork type ("independent of the originals"): the caller may update the old value in place after the proposal
        for name in latents:
            children = list(dag.sorted_children[name])
            for partial in ([False, True] if isinstance(dag[name], IndividualLatentVariable) else [False]):
                def prepared_copy():
                    st = base.clone()
                    st.auto_fork_type = None
                    st[name] = st[name].clone()
                    st.auto_fork_type = StateForkType.COPY
                    for k in children:
                        st[k]
                    return st
                ref, st = prepared_copy(), prepared_copy()
                old = st[name]
                torch.manual_seed(seed)
                st[name] = old + 0.05 * torch.randn(old.shape)
                ind_axis = [k for k in children if k in ("rt", "model", "alpha", "nll_attach_ind", "nll_regul_ind_sum_ind") or k.endswith("_ind")]
                for k in (ind_axis[:2] if partial else children[:2]):      # documented precondition of a per-individual rejection
                    st[k]
                old.mul_(1.5).add_(0.25)                  # in-place update of the caller's old tensor
                if partial:
                    st.revert(torch.ones(ds.n_individuals, dtype=torch.bool))
                else:
                    st.revert()
                evals += 1
                distinct.add((kind, str(kw), name, "COPY", partial))
                for k in [name] + children:
                    if not same_value(st[k], ref[k], exact=True):
                        violations.append(dict(key=f"COPY fork: after the old tensor of {name} was updated in place and the proposal rejected, {k} does not read as before the proposal",
                                               model=f"{kind}{kw}", partial=partial))
                        break
        if len(samples) < 2:
            samples.append(dict(model=f"{kind}{kw}", latents=latents))
    uniq = {v["key"]: v for v in violations}
    return dict(evaluations=evals, distinct_nontrivial=len(distinct),
                rule="one evaluation = one (reads before, proposal, reads between, rejection) history on a real model state compared variable by variable with the same history without the proposal",
                samples=samples, violations=list(uniq.values())[:60],
                bound=dict(model_kinds=len(kinds), read_sets=4, exhaustive=True))


STANDINS = [standin_sampler_steps, standin_rejection_histories]
