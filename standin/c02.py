"""C02 bounded stand-in: see samplers_monitor (rejected rows / blocks restored exactly, later reads consistent)."""
from .samplers_monitor import run

ASSUMPTIONS = ["stand-in C02: seeded sampler sweeps, bounds under coverage.bounded"]


def standin_sampler_steps(tier, seed):
    return run(tier, seed)


STANDINS = [standin_sampler_steps]
