"""pyvc.interp -- AST interpreter for the real functions of /repo over symbolic values.

Name resolution uses the *real* objects: a function under verification is a real function
object imported from /repo/src; its globals are its real module globals; its source is
re-read from disk (inspect) and parsed on every run.  What the extraction drops: docstrings,
comments, type annotations (AnnAssign targets without value), and decorators (only
@staticmethod/@classmethod/@property/@contextmanager/@abstractmethod/@dataclass are interpreted).
"""
from __future__ import annotations

import ast
import builtins
import os
import hashlib
import inspect
import operator
import sys
import types

import z3

from .core import (SV, BoundMethod, CheckerError, Closure, Ctx, ExcValue, OutOfSubset,
                   PathInfeasible, SuperProxy, Symbolic, SymObj, SymRaise, deep_has_sym,
                   is_sym)
from . import ops

REPO_PREFIX = "leaspy"

_file_cache = {}
_func_cache = {}


def _parse_file(path):
    if path not in _file_cache:
        src = open(path).read()
        tree = ast.parse(src)
        index = {}
        for node in ast.walk(tree):
            if isinstance(node, (ast.FunctionDef, ast.Lambda)):
                first = node.lineno
                if isinstance(node, ast.FunctionDef) and node.decorator_list:
                    first = min(first, min(d.lineno for d in node.decorator_list))
                index.setdefault((getattr(node, "name", "<lambda>"), first), node)
                index.setdefault((getattr(node, "name", "<lambda>"), node.lineno), node)
        _file_cache[path] = (src, tree, index)
    return _file_cache[path]


def func_ast(func):
    """real function object -> (FunctionDef node, file, source segment)"""
    key = getattr(func, "__code__", None)
    if key is None:
        raise OutOfSubset(f"no python source for {func!r}")
    if key in _func_cache:
        return _func_cache[key]
    path = inspect.getsourcefile(func)
    if path is None:
        raise OutOfSubset(f"no source file for {func!r}")
    src, tree, index = _parse_file(path)
    node = index.get((func.__code__.co_name, func.__code__.co_firstlineno))
    if node is None:
        raise OutOfSubset(f"cannot locate source of {func.__qualname__} in {path}")
    seg = ast.get_source_segment(src, node) or ""
    res = (node, path, seg)
    _func_cache[key] = res
    return res


def source_hash(func):
    node, path, seg = func_ast(func)
    return hashlib.sha256(seg.encode()).hexdigest()[:16]


def is_repo_function(f):
    """a python function whose code lives in the repository (also when functools.wraps disguised its module)"""
    if not isinstance(f, types.FunctionType):
        return False
    fn = f.__code__.co_filename
    if fn.startswith("<"):
        return False
    return (f.__module__ or "").startswith(REPO_PREFIX) or (os.sep + "src" + os.sep + "leaspy" + os.sep) in fn


def is_repo_class(c):
    return inspect.isclass(c) and (c.__module__ or "").startswith(REPO_PREFIX)


def defining_class(func):
    """class object in whose body `func` was defined (by qualname)"""
    qn = func.__qualname__.split(".")
    if len(qn) < 2 or "<locals>" in qn:
        return None
    mod = sys.modules.get(func.__module__)
    obj = mod
    for part in qn[:-1]:
        obj = getattr(obj, part, None)
        if obj is None:
            return None
    return obj if inspect.isclass(obj) else None


class _Return(Exception):
    def __init__(self, value):
        self.value = value


class _Break(Exception):
    pass


class _Continue(Exception):
    pass


class Frame:
    def __init__(self, func, env, globs, self_cls=None, name=""):
        self.func = func
        self.env = env
        self.globs = globs
        self.self_cls = self_cls   # class where the function is defined (for super())
        self.name = name
        self.loop_ordinal = 0
        self.yield_body = None     # callback for contextmanager generators


class Interp:
    MAX_DEPTH = 12

    def __init__(self, cx: Ctx, engine):
        self.cx = cx
        self.engine = engine
        self.frames = []
        self.covered = set()       # (path, lineno) statements executed (for evidence)

    # ------------------------------------------------------------------ calls
    def call(self, f, args=(), kwargs=None, node=None):
        kwargs = kwargs or {}
        cx = self.cx
        from . import models
        if isinstance(f, Closure):
            return self._call_closure(f, args, kwargs)
        if isinstance(f, BoundMethod):
            return self.call(f.func, (f.self_obj,) + tuple(args), kwargs, node)
        if isinstance(f, models.SymCallable):
            return f(self, *args, **kwargs)
        if isinstance(f, types.MethodType) and is_repo_function(f.__func__):
            return self.call(f.__func__, (f.__self__,) + tuple(args), kwargs, node)
        if isinstance(f, (staticmethod, classmethod)):
            f = f.__func__
        # contracts
        spec = self.engine.spec_for(f)
        if spec is not None and spec.can_apply() and not self.engine.is_current_target(f, self):
            return self.engine.apply_spec(self, spec, args, kwargs, node)
        # library models
        m = models.lookup(f)
        if m is not None:
            return m(self, *args, **kwargs)
        if inspect.isclass(f):
            return self._construct(f, args, kwargs, node)
        if is_repo_function(f):
            wrapped = getattr(f, "__wrapped__", None)
            if wrapped is not None and inspect.isgeneratorfunction(wrapped):
                raise OutOfSubset(f"generator-based context manager {f.__qualname__} called outside `with`")
            return self.call_function(f, args, kwargs)
        if not isinstance(f, (types.FunctionType, types.BuiltinFunctionType, types.MethodType, type)) and not is_sym(f):
            # a native instance of a repository class that defines __call__ (e.g. NamedInputFunction)
            call_m = inspect.getattr_static(type(f), "__call__", None)
            if is_repo_function(call_m):
                return self.call_function(call_m, (f,) + tuple(args), kwargs)
        if isinstance(f, types.MethodType):
            # bound method of a native object
            m = models.lookup_method(f)
            if m is not None:
                return m(self, f.__self__, *args, **kwargs)
        if isinstance(f, types.BuiltinMethodType) and isinstance(
                getattr(f, "__self__", None), (dict, list, set)) and not (
                isinstance(f.__self__, (dict, set)) and args and is_sym(args[0])):
            # method of a native container whose *values* may be symbolic (opaque to the container)
            try:
                return f(*args, **kwargs)
            except Exception as e:
                raise SymRaise(ExcValue(type(e), e.args), node)
        if not deep_has_sym(args) and not deep_has_sym(kwargs) and callable(f):
            if models.native_ok(f):
                try:
                    return f(*args, **kwargs)
                except Exception as e:  # native exception becomes a path outcome
                    raise SymRaise(ExcValue(type(e), e.args), node)
        if isinstance(f, types.FunctionType) and os.path.dirname(os.path.dirname(os.path.abspath(__file__))) in os.path.abspath(f.__code__.co_filename):
            # harness code of the contract files (probes, stub rules): plain python
            return f(*args, **kwargs)
        raise OutOfSubset(f"call to unmodelled {getattr(f, '__qualname__', f)!r} "
                          f"with symbolic arguments", node)

    def _construct(self, cls, args, kwargs, node):
        from . import models
        if issubclass(cls, BaseException):
            return ExcValue(cls, tuple(args))
        import enum
        if issubclass(cls, enum.Enum) and not deep_has_sym(args) and not kwargs:
            # Enum lookup by value: the member itself (identity matters for `is` tests)
            try:
                return cls(*args)
            except Exception as e:
                raise SymRaise(ExcValue(type(e), e.args), node)
        if is_repo_class(cls):
            import dataclasses
            obj = SymObj(cls)
            if dataclasses.is_dataclass(cls) and not is_repo_function(inspect.getattr_static(cls, "__init__", None)):
                flds = [fl for fl in dataclasses.fields(cls) if fl.init]
                vals = {}
                for fl, a in zip(flds, args):
                    vals[fl.name] = a
                for k, v in kwargs.items():
                    vals[k] = v
                for fl in dataclasses.fields(cls):
                    if fl.name not in vals and fl.init:
                        if fl.default is not dataclasses.MISSING:
                            vals[fl.name] = fl.default
                        elif fl.default_factory is not dataclasses.MISSING:
                            vals[fl.name] = fl.default_factory()
                        else:
                            raise SymRaise(ExcValue(TypeError, (f"missing {fl.name}",)), node)
                obj.f.update(vals)
                post = inspect.getattr_static(cls, "__post_init__", None)
                if post is not None:
                    self.call(post, (obj,), {})
                return obj
            init = inspect.getattr_static(cls, "__init__", None)
            if is_repo_function(init):
                self.call(init, (obj,) + tuple(args), kwargs)
                return obj
            # walk MRO for a repo __init__
            for k in cls.__mro__:
                i = k.__dict__.get("__init__")
                if i is not None:
                    if is_repo_function(i):
                        self.call(i, (obj,) + tuple(args), kwargs)
                    return obj
            return obj
        if not deep_has_sym(args) and not deep_has_sym(kwargs):
            try:
                return cls(*args, **kwargs)
            except Exception as e:
                raise SymRaise(ExcValue(type(e), e.args), node)
        raise OutOfSubset(f"construction of {cls!r} with symbolic arguments", node)

    def call_function(self, func, args, kwargs, yield_body=None):
        node, path, seg = func_ast(func)
        if len(self.frames) >= self.MAX_DEPTH:
            raise OutOfSubset(f"inlining depth exceeded at {func.__qualname__}")
        self.engine.note_function(func, inlined=len(self.frames) > 0)
        env = self._bind(func, node, args, kwargs)
        # closure cells of the real function
        if func.__closure__:
            for name, cell in zip(func.__code__.co_freevars, func.__closure__):
                if name == "__class__":
                    continue
                try:
                    env.setdefault(name, cell.cell_contents)
                except ValueError:
                    pass
        fr = Frame(func, env, func.__globals__, defining_class(func), func.__qualname__)
        fr.yield_body = yield_body
        fr.path = path
        self.frames.append(fr)
        try:
            try:
                self.exec_block(node.body, fr)
            except _Return as r:
                return r.value
            return None
        finally:
            self.frames.pop()

    def _call_closure(self, clo: Closure, args, kwargs):
        node = clo.node
        env = dict()
        parent_env = clo.env
        fr0 = clo.frame_info
        if isinstance(node, ast.Lambda):
            bound = self._bind_args(node.args, args, kwargs, defaults_eval=lambda e: self.eval(e, fr0), name="<lambda>")
        else:
            bound = self._bind_args(node.args, args, kwargs, defaults_eval=lambda e: self.eval(e, fr0), name=node.name)
        env = _ChainEnv(bound, parent_env)
        fr = Frame(fr0.func, env, fr0.globs, fr0.self_cls, fr0.name + ".<locals>." + clo.__name__)
        fr.path = getattr(fr0, "path", None)
        self.frames.append(fr)
        try:
            if isinstance(node, ast.Lambda):
                return self.eval(node.body, fr)
            try:
                self.exec_block(node.body, fr)
            except _Return as r:
                return r.value
            return None
        finally:
            self.frames.pop()

    def _bind(self, func, node, args, kwargs):
        # defaults come from the real function object (already evaluated natively)
        a = node.args
        pos = [x.arg for x in a.posonlyargs + a.args]
        env = {}
        args = list(args)
        if len(args) > len(pos) and a.vararg is None:
            raise SymRaise(ExcValue(TypeError, (f"{func.__qualname__}: too many positional arguments",)))
        for name, v in zip(pos, args):
            env[name] = v
        if a.vararg is not None:
            env[a.vararg.arg] = tuple(args[len(pos):])
        kwonly = [x.arg for x in a.kwonlyargs]
        extra = {}
        for k, v in kwargs.items():
            if k in pos or k in kwonly:
                if k in env:
                    raise SymRaise(ExcValue(TypeError, (f"{func.__qualname__}: multiple values for {k}",)))
                env[k] = v
            elif a.kwarg is not None:
                extra[k] = v
            else:
                raise SymRaise(ExcValue(TypeError, (f"{func.__qualname__}: unexpected keyword {k}",)))
        if a.kwarg is not None:
            env[a.kwarg.arg] = extra
        defaults = func.__defaults__ or ()
        for name, d in zip(pos[len(pos) - len(defaults):], defaults):
            env.setdefault(name, d)
        for name, d in (func.__kwdefaults__ or {}).items():
            env.setdefault(name, d)
        for name in pos + kwonly:
            if name not in env:
                raise SymRaise(ExcValue(TypeError, (f"{func.__qualname__}: missing argument {name}",)))
        return env

    def _bind_args(self, a, args, kwargs, defaults_eval, name):
        pos = [x.arg for x in a.posonlyargs + a.args]
        env = {}
        args = list(args)
        for n, v in zip(pos, args):
            env[n] = v
        if a.vararg is not None:
            env[a.vararg.arg] = tuple(args[len(pos):])
        elif len(args) > len(pos):
            raise SymRaise(ExcValue(TypeError, (f"{name}: too many positional arguments",)))
        kwonly = [x.arg for x in a.kwonlyargs]
        extra = {}
        for k, v in kwargs.items():
            if k in pos or k in kwonly:
                env[k] = v
            elif a.kwarg is not None:
                extra[k] = v
            else:
                raise SymRaise(ExcValue(TypeError, (f"{name}: unexpected keyword {k}",)))
        if a.kwarg is not None:
            env[a.kwarg.arg] = extra
        for n, d in zip(pos[len(pos) - len(a.defaults):], a.defaults):
            if n not in env:
                env[n] = defaults_eval(d)
        for n, d in zip(kwonly, a.kw_defaults):
            if n not in env and d is not None:
                env[n] = defaults_eval(d)
        for n in pos + kwonly:
            if n not in env:
                raise SymRaise(ExcValue(TypeError, (f"{name}: missing argument {n}",)))
        return env

    # ------------------------------------------------------------------ statements
    def exec_block(self, stmts, fr):
        for s in stmts:
            self.exec_stmt(s, fr)

    def exec_stmt(self, s, fr):
        self.covered.add((getattr(fr, "path", None), s.lineno))
        m = getattr(self, "st_" + type(s).__name__, None)
        if m is None:
            raise OutOfSubset(f"statement {type(s).__name__}", s, fr.name)
        try:
            return m(s, fr)
        except OutOfSubset as e:
            if e.where is None:
                e.where = f"{fr.name}:{getattr(s, 'lineno', '?')}"
            raise

    def st_Expr(self, s, fr):
        if isinstance(s.value, ast.Constant):
            return  # docstring / bare constant
        if isinstance(s.value, ast.Yield):
            if fr.yield_body is None:
                raise OutOfSubset("yield outside an interpreted context manager", s)
            body = fr.yield_body
            fr.yield_body = None
            yv = self.eval(s.value.value, fr) if s.value.value is not None else None
            body(yv)
            return
        self.eval(s.value, fr)

    def st_Pass(self, s, fr):
        return

    def st_Return(self, s, fr):
        raise _Return(self.eval(s.value, fr) if s.value is not None else None)

    def st_Break(self, s, fr):
        raise _Break()

    def st_Continue(self, s, fr):
        raise _Continue()

    def st_Import(self, s, fr):
        for al in s.names:
            mod = __import__(al.name)
            if al.asname:
                for part in al.name.split(".")[1:]:
                    mod = getattr(mod, part)
                fr.env[al.asname] = mod
            else:
                fr.env[al.name.split(".")[0]] = mod

    def st_ImportFrom(self, s, fr):
        import importlib
        pkg = fr.globs.get("__package__")
        name = ("." * s.level) + (s.module or "")
        mod = importlib.import_module(name, pkg) if s.level else importlib.import_module(s.module)
        for al in s.names:
            fr.env[al.asname or al.name] = getattr(mod, al.name)

    def st_Global(self, s, fr):
        raise OutOfSubset("global statement", s)

    def st_Assert(self, s, fr):
        if isinstance(s.test, ast.Tuple) and s.test.elts:
            self.engine.note_vacuous_assert(fr, s)
            return
        v = self.eval(s.test, fr)
        if not ops.truth(self, v, s):
            msg = self.eval(s.msg, fr) if s.msg is not None else None
            raise SymRaise(ExcValue(AssertionError, (msg,)), s)

    def st_Raise(self, s, fr):
        if s.exc is None:
            cur = getattr(fr, "current_exc", None)
            if cur is None:
                raise OutOfSubset("bare raise outside handler", s)
            raise SymRaise(cur, s)
        e = self.eval(s.exc, fr)
        if inspect.isclass(e) and issubclass(e, BaseException):
            e = ExcValue(e, ())
        if isinstance(e, BaseException):
            e = ExcValue(type(e), e.args)
        if not isinstance(e, ExcValue):
            raise OutOfSubset("raise of a non-exception value", s)
        raise SymRaise(e, s)

    def st_Assign(self, s, fr):
        v = self.eval(s.value, fr)
        for t in s.targets:
            self.assign(t, v, fr)

    def st_AnnAssign(self, s, fr):
        if s.value is None:
            return
        self.assign(s.target, self.eval(s.value, fr), fr)

    def st_AugAssign(self, s, fr):
        t = s.target
        if isinstance(t, ast.Name):
            cur = self.load_name(t.id, fr, t)
            new = ops.binop(self, type(s.op), cur, self.eval(s.value, fr), s, inplace=True)
            self.assign(t, new, fr)
        elif isinstance(t, ast.Attribute):
            obj = self.eval(t.value, fr)
            cur = ops.getattr_(self, obj, t.attr, t)
            new = ops.binop(self, type(s.op), cur, self.eval(s.value, fr), s, inplace=True)
            ops.setattr_(self, obj, t.attr, new, t)
        elif isinstance(t, ast.Subscript):
            obj = self.eval(t.value, fr)
            idx = self.eval_index(t.slice, fr)
            cur = ops.getitem(self, obj, idx, t)
            new = ops.binop(self, type(s.op), cur, self.eval(s.value, fr), s, inplace=True)
            ops.setitem(self, obj, idx, new, t)
        else:
            raise OutOfSubset("augmented assignment target", s)

    def assign(self, t, v, fr):
        if isinstance(t, ast.Name):
            fr.env[t.id] = v
            self.cx.log_write(("local", id(fr.env), t.id))
        elif isinstance(t, (ast.Tuple, ast.List)):
            vals = ops.unpack(self, v, len(t.elts), t)
            for tt, vv in zip(t.elts, vals):
                self.assign(tt, vv, fr)
        elif isinstance(t, ast.Attribute):
            obj = self.eval(t.value, fr)
            ops.setattr_(self, obj, t.attr, v, t)
        elif isinstance(t, ast.Subscript):
            obj = self.eval(t.value, fr)
            idx = self.eval_index(t.slice, fr)
            ops.setitem(self, obj, idx, v, t)
        elif isinstance(t, ast.Starred):
            raise OutOfSubset("starred assignment", t)
        else:
            raise OutOfSubset(f"assignment target {type(t).__name__}", t)

    def st_If(self, s, fr):
        c = self.eval(s.test, fr)
        if ops.truth(self, c, s.test):
            self.exec_block(s.body, fr)
        else:
            self.exec_block(s.orelse, fr)

    def st_FunctionDef(self, s, fr):
        fr.env[s.name] = Closure(s, fr.env, fr, s.name)

    def st_Delete(self, s, fr):
        for t in s.targets:
            if isinstance(t, ast.Name):
                fr.env.pop(t.id, None)
            elif isinstance(t, ast.Subscript):
                obj = self.eval(t.value, fr)
                idx = self.eval_index(t.slice, fr)
                ops.delitem(self, obj, idx, t)
            else:
                raise OutOfSubset("del target", s)

    def st_Try(self, s, fr):
        try:
            try:
                self.exec_block(s.body, fr)
            except SymRaise as r:
                for h in s.handlers:
                    if self._handler_matches(h, r.exc, fr):
                        if h.name:
                            fr.env[h.name] = r.exc
                        prev = getattr(fr, "current_exc", None)
                        fr.current_exc = r.exc
                        try:
                            self.exec_block(h.body, fr)
                        finally:
                            fr.current_exc = prev
                        break
                else:
                    raise
            else:
                self.exec_block(s.orelse, fr)
        except (_Return, _Break, _Continue, SymRaise):
            # python semantics: finally runs on every exit, incl. return/break/raise
            if s.finalbody:
                self.exec_block(s.finalbody, fr)
            raise
        else:
            if s.finalbody:
                self.exec_block(s.finalbody, fr)

    def _handler_matches(self, h, exc: ExcValue, fr):
        if h.type is None:
            return True
        t = self.eval(h.type, fr)
        ts = t if isinstance(t, tuple) else (t,)
        return any(inspect.isclass(k) and issubclass(exc.cls, k) for k in ts)

    def st_With(self, s, fr):
        self._with_items(s.items, s.body, fr, s)

    def _with_items(self, items, body, fr, s):
        if not items:
            return self.exec_block(body, fr)
        item, rest = items[0], items[1:]
        ce = item.context_expr
        from . import models

        def run_rest(value=None):
            if item.optional_vars is not None:
                self.assign(item.optional_vars, value, fr)
            self._with_items(rest, body, fr, s)

        if isinstance(ce, ast.Call):
            f = self.eval(ce.func, fr)
            args, kwargs = self.eval_args(ce, fr)
            target = f
            self_args = ()
            if isinstance(f, BoundMethod):
                target, self_args = f.func, (f.self_obj,)
            elif isinstance(f, types.MethodType):
                target, self_args = f.__func__, (f.__self__,)
            spec = self.engine.spec_for(target)
            if spec is not None and hasattr(spec, "apply_with") and not self.engine.is_current_target(target, self):
                return spec.apply_with(self, self_args + tuple(args), kwargs, run_rest)
            wm = models.lookup_with(target)
            if wm is not None:
                return wm(self, self_args + tuple(args), kwargs, run_rest)
            wrapped = getattr(target, "__wrapped__", None)
            if wrapped is not None and inspect.isgeneratorfunction(wrapped) and is_repo_function(wrapped):
                return self.call_function(wrapped, self_args + tuple(args), kwargs, yield_body=run_rest)
        raise OutOfSubset("unsupported context manager", s)

    # ---- loops
    def st_For(self, s, fr):
        from . import loops
        ordinal = self._loop_ordinal(s, fr)
        it = self.eval(s.iter, fr)
        if isinstance(it, Symbolic) and loops.is_symbolic_iterable(it):
            return loops.symbolic_for(self, s, fr, it, ordinal)
        seq = ops.native_iter(self, it, s)
        broke = False
        for x in seq:
            self.assign(s.target, x, fr)
            try:
                self.exec_block(s.body, fr)
            except _Break:
                broke = True
                break
            except _Continue:
                continue
        if not broke:
            self.exec_block(s.orelse, fr)

    def st_While(self, s, fr):
        from . import loops
        ordinal = self._loop_ordinal(s, fr)
        spec = self.engine.loop_spec(fr, ordinal)
        if spec is not None:
            return loops.symbolic_while(self, s, fr, spec, ordinal)
        n = 0
        while True:
            c = self.eval(s.test, fr)
            if is_sym(c) and not isinstance(c, SV):
                raise OutOfSubset("while condition", s)
            if isinstance(c, SV):
                # a symbolic while without an invariant: refuse (no silent unrolling)
                raise OutOfSubset(f"while loop #{ordinal} of {fr.name} needs an invariant", s)
            if not c:
                break
            n += 1
            if n > 10000:
                raise CheckerError("concrete while loop does not terminate")
            try:
                self.exec_block(s.body, fr)
            except _Break:
                return
            except _Continue:
                continue
        self.exec_block(s.orelse, fr)

    def _loop_ordinal(self, s, fr):
        """ordinal of this loop statement among the loops of its function, in source order"""
        node = func_ast(fr.func)[0] if isinstance(fr.func, types.FunctionType) else None
        if node is None:
            return -1
        key = ("loops", id(node))
        table = _func_cache.get(key)
        if table is None:
            table = {}
            k = 0
            for n in ast.walk(node):
                pass
            order = sorted((n for n in ast.walk(node) if isinstance(n, (ast.For, ast.While))),
                           key=lambda n: (n.lineno, n.col_offset))
            for k, n in enumerate(order):
                table[(n.lineno, n.col_offset)] = k
            _func_cache[key] = table
        return table.get((s.lineno, s.col_offset), -1)

    # ------------------------------------------------------------------ expressions
    def eval(self, e, fr):
        m = getattr(self, "ex_" + type(e).__name__, None)
        if m is None:
            raise OutOfSubset(f"expression {type(e).__name__}", e, fr.name)
        try:
            return m(e, fr)
        except OutOfSubset as ex:
            if ex.where is None:
                ex.where = f"{fr.name}:{getattr(e, 'lineno', '?')}"
            raise

    def ex_Constant(self, e, fr):
        return e.value

    def load_name(self, name, fr, node=None):
        env = fr.env
        try:
            return env[name]
        except KeyError:
            pass
        if name in fr.globs:
            return fr.globs[name]
        if hasattr(builtins, name):
            return getattr(builtins, name)
        raise SymRaise(ExcValue(NameError, (name,)), node)

    def ex_Name(self, e, fr):
        return self.load_name(e.id, fr, e)

    def ex_NamedExpr(self, e, fr):
        v = self.eval(e.value, fr)
        self.assign(e.target, v, fr)
        return v

    def ex_Attribute(self, e, fr):
        obj = self.eval(e.value, fr)
        return ops.getattr_(self, obj, e.attr, e)

    def eval_index(self, sl, fr):
        if isinstance(sl, ast.Slice):
            return slice(self.eval(sl.lower, fr) if sl.lower else None,
                         self.eval(sl.upper, fr) if sl.upper else None,
                         self.eval(sl.step, fr) if sl.step else None)
        if isinstance(sl, ast.Tuple):
            return tuple(self.eval_index(x, fr) for x in sl.elts)
        return self.eval(sl, fr)

    def ex_Subscript(self, e, fr):
        obj = self.eval(e.value, fr)
        idx = self.eval_index(e.slice, fr)
        return ops.getitem(self, obj, idx, e)

    def ex_Slice(self, e, fr):
        return self.eval_index(e, fr)

    def ex_Tuple(self, e, fr):
        return tuple(self._elts(e.elts, fr))

    def ex_List(self, e, fr):
        return list(self._elts(e.elts, fr))

    def ex_Set(self, e, fr):
        vals = self._elts(e.elts, fr)
        if deep_has_sym(vals):
            # {x, y}: a set given by its characteristic array, when all elements are scalars of one sort
            from .coll import SSet
            if all(isinstance(v, SV) for v in vals) and len({v.e.sort() for v in vals}) == 1:
                ec = self.engine.codec_for(vals[0])
                chi = z3.K(ec.sort, z3.BoolVal(False))
                for v in vals:
                    chi = z3.Store(chi, ec.unwrap(v), z3.BoolVal(True))
                return SSet(ec, chi)
            raise OutOfSubset("set display with symbolic elements", e)
        return set(vals)

    def _elts(self, elts, fr):
        out = []
        for x in elts:
            if isinstance(x, ast.Starred):
                out.extend(ops.native_iter(self, self.eval(x.value, fr), x))
            else:
                out.append(self.eval(x, fr))
        return out

    def ex_Dict(self, e, fr):
        d = {}
        for k, v in zip(e.keys, e.values):
            if k is None:
                vv = self.eval(v, fr)
                if not isinstance(vv, dict):
                    raise OutOfSubset("** of symbolic mapping in dict display", e)
                d.update(vv)
            else:
                kk = self.eval(k, fr)
                if is_sym(kk):
                    raise OutOfSubset("dict display with symbolic key", e)
                d[kk] = self.eval(v, fr)
        return d

    def ex_JoinedStr(self, e, fr):
        parts = []
        for v in e.values:
            if isinstance(v, ast.Constant):
                parts.append(v.value)
            else:
                val = self.eval(v.value, fr)
                spec = None
                if v.format_spec is not None:
                    spec = self.eval(v.format_spec, fr)
                parts.append(ops.FormatPart(val, v.conversion, spec))
        return ops.fstring(self, parts, e)

    def ex_FormattedValue(self, e, fr):
        return ops.fstring(self, [ops.FormatPart(self.eval(e.value, fr), e.conversion, None)], e)

    def ex_UnaryOp(self, e, fr):
        v = self.eval(e.operand, fr)
        return ops.unop(self, type(e.op), v, e)

    def ex_BinOp(self, e, fr):
        a = self.eval(e.left, fr)
        b = self.eval(e.right, fr)
        return ops.binop(self, type(e.op), a, b, e)

    def ex_BoolOp(self, e, fr):
        is_and = isinstance(e.op, ast.And)
        v = None
        for i, x in enumerate(e.values):
            v = self.eval(x, fr)
            if i == len(e.values) - 1:
                return v
            t = ops.truth(self, v, x)
            if is_and and not t:
                return v
            if (not is_and) and t:
                return v
        return v

    def ex_Compare(self, e, fr):
        left = self.eval(e.left, fr)
        result = True
        for op, rhs in zip(e.ops, e.comparators):
            right = self.eval(rhs, fr)
            r = ops.compare(self, type(op), left, right, e)
            if len(e.ops) == 1:
                return r
            if not ops.truth(self, r, e):
                return False
            result = r
            left = right
        return result

    def ex_IfExp(self, e, fr):
        c = self.eval(e.test, fr)
        if self.cx.generic and isinstance(c, SV) and c.kind == "bool":
            from .core import mentions
            if mentions(c.e, self.cx.generic[-1].names):
                # element-dependent choice inside a generalised comprehension: merge the two values
                a = self.eval(e.body, fr)
                b = self.eval(e.orelse, fr)
                return ops.ite_merge(self, c.e, a, b, e)
        if ops.truth(self, c, e.test):
            return self.eval(e.body, fr)
        return self.eval(e.orelse, fr)

    def ex_Lambda(self, e, fr):
        return Closure(e, fr.env, fr, "<lambda>")

    def eval_args(self, call, fr):
        args = []
        for a in call.args:
            if isinstance(a, ast.Starred):
                args.extend(ops.native_iter(self, self.eval(a.value, fr), a))
            else:
                args.append(self.eval(a, fr))
        kwargs = {}
        for k in call.keywords:
            if k.arg is None:
                d = self.eval(k.value, fr)
                if d is None:
                    d = {}
                if not isinstance(d, dict):
                    raise OutOfSubset("** of a symbolic mapping", call)
                kwargs.update(d)
            else:
                kwargs[k.arg] = self.eval(k.value, fr)
        return args, kwargs

    def ex_Call(self, e, fr):
        # zero-argument super()
        if isinstance(e.func, ast.Name) and e.func.id == "super" and not e.args and "super" not in fr.env:
            self_name = None
            node = func_ast(fr.func)[0]
            if node.args.args:
                self_name = node.args.args[0].arg
            if self_name is None or fr.self_cls is None:
                raise OutOfSubset("super() outside a method", e)
            return SuperProxy(fr.env[self_name], fr.self_cls)
        f = self.eval(e.func, fr)
        args, kwargs = self.eval_args(e, fr)
        self.cx.call_depth += 1
        try:
            return self.call(f, args, kwargs, e)
        finally:
            self.cx.call_depth -= 1

    # comprehensions
    def _comp(self, gens, fr, emit):
        from . import loops

        def rec(i, env_fr):
            if i == len(gens):
                emit(env_fr)
                return
            g = gens[i]
            it = self.eval(g.iter, env_fr)
            if isinstance(it, Symbolic) and loops.is_symbolic_iterable(it):
                raise loops.SymbolicComprehension(it, g)
            for x in ops.native_iter(self, it, g):
                self.assign(g.target, x, env_fr)
                if all(ops.truth(self, self.eval(c, env_fr), c) for c in g.ifs):
                    rec(i + 1, env_fr)
        sub = Frame(fr.func, _ChainEnv({}, fr.env), fr.globs, fr.self_cls, fr.name)
        sub.path = getattr(fr, "path", None)
        rec(0, sub)

    def ex_ListComp(self, e, fr):
        from . import loops
        out = []
        try:
            self._comp(e.generators, fr, lambda f2: out.append(self.eval(e.elt, f2)))
        except loops.SymbolicComprehension as sc:
            return loops.symbolic_comprehension(self, e, fr, sc, "list")
        return out

    def ex_GeneratorExp(self, e, fr):
        from . import loops
        out = []
        try:
            self._comp(e.generators, fr, lambda f2: out.append(self.eval(e.elt, f2)))
        except loops.SymbolicComprehension as sc:
            return loops.symbolic_comprehension(self, e, fr, sc, "gen")
        return out

    def ex_SetComp(self, e, fr):
        from . import loops
        out = []
        try:
            self._comp(e.generators, fr, lambda f2: out.append(self.eval(e.elt, f2)))
        except loops.SymbolicComprehension as sc:
            return loops.symbolic_comprehension(self, e, fr, sc, "set")
        if deep_has_sym(out):
            raise OutOfSubset("set comprehension with symbolic elements", e)
        return set(out)

    def ex_DictComp(self, e, fr):
        from . import loops
        out = {}

        def emit(f2):
            k = self.eval(e.key, f2)
            if is_sym(k):
                raise OutOfSubset("dict comprehension with symbolic key over native iterable", e)
            out[k] = self.eval(e.value, f2)
        try:
            self._comp(e.generators, fr, emit)
        except loops.SymbolicComprehension as sc:
            return loops.symbolic_comprehension(self, e, fr, sc, "dict")
        return out

    def ex_Starred(self, e, fr):
        raise OutOfSubset("starred expression", e)


class _ChainEnv(dict):
    """locals of a nested scope: reads fall through to the parent env, writes stay local"""

    def __init__(self, own, parent):
        super().__init__(own)
        self.parent = parent

    def __missing__(self, k):
        return self.parent[k]

    def __contains__(self, k):
        return dict.__contains__(self, k) or k in self.parent

    def setdefault(self, k, d=None):
        if k in self:
            return self[k]
        dict.__setitem__(self, k, d)
        return d

    def pop(self, k, *d):
        if dict.__contains__(self, k):
            return dict.pop(self, k)
        return d[0] if d else None
