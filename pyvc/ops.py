"""pyvc.ops -- primitive operations of the interpreter over native and symbolic values."""
from __future__ import annotations

import ast
import inspect
import operator
import types

import z3

from .core import (SV, BoundMethod, CheckerError, Closure, ExcValue, OutOfSubset, SuperProxy,
                   Symbolic, SymObj, SymRaise, deep_has_sym, is_sym, kind_of, to_z3)


class FormatPart:
    def __init__(self, value, conversion, spec):
        self.value = value
        self.conversion = conversion
        self.spec = spec


def raise_(cls, *args, node=None):
    import os
    if os.environ.get("PYVC_TRACE_RAISE"):
        import traceback
        print("RAISE", cls.__name__, args, "".join(traceback.format_stack(limit=14)[-12:-1])[-1800:])
    raise SymRaise(ExcValue(cls, tuple(args)), node)


# ---------------------------------------------------------------------------------------------
# truth


def truth(it, v, node=None) -> bool:
    """python truthiness; symbolic conditions fork the path"""
    if isinstance(v, SV):
        if v.kind == "bool":
            return it.cx.branch(v.e, node)
        if v.kind in ("int", "real"):
            return it.cx.branch(v.e != 0, node)
        if v.kind == "str":
            return it.cx.branch(z3.Length(v.e) != 0, node)
        nn = it.engine.none_const(v.e.sort())
        if nn is not None:
            return it.cx.branch(v.e != nn, node)
        raise OutOfSubset(f"truth value of {v!r}", node)
    if isinstance(v, Symbolic):
        t = getattr(v, "_truth", None)
        if t is not None:
            return truth(it, t(it), node)
        if isinstance(v, (SymObj, ExcValue)):
            return True
        raise OutOfSubset(f"truth value of {type(v).__name__}", node)
    try:
        return bool(v)
    except Exception as e:
        raise SymRaise(ExcValue(type(e), e.args), node)


def is_none(it, v):
    """returns python bool or SV bool"""
    if v is None:
        return True
    if isinstance(v, SV):
        if v.kind.startswith("u:"):
            nn = it.engine.none_const(v.e.sort())
            if nn is not None:
                return SV(v.e == nn, "bool")
        return False
    h = getattr(v, "_is_none", None)
    if h is not None:
        return h(it)
    return False


# ---------------------------------------------------------------------------------------------
# arithmetic on scalars

_ARITH = {
    ast.Add: operator.add, ast.Sub: operator.sub, ast.Mult: operator.mul,
    ast.Div: operator.truediv, ast.FloorDiv: operator.floordiv, ast.Mod: operator.mod,
    ast.Pow: operator.pow, ast.BitAnd: operator.and_, ast.BitOr: operator.or_,
    ast.BitXor: operator.xor, ast.MatMult: operator.matmul, ast.LShift: operator.lshift,
    ast.RShift: operator.rshift,
}
_IARITH = {
    ast.Add: operator.iadd, ast.Sub: operator.isub, ast.Mult: operator.imul,
    ast.Div: operator.itruediv, ast.FloorDiv: operator.ifloordiv, ast.Mod: operator.imod,
    ast.Pow: operator.ipow, ast.BitAnd: operator.iand, ast.BitOr: operator.ior,
    ast.BitXor: operator.ixor, ast.MatMult: operator.imatmul,
}
_OPNAME = {ast.Add: "add", ast.Sub: "sub", ast.Mult: "mul", ast.Div: "truediv",
           ast.FloorDiv: "floordiv", ast.Mod: "mod", ast.Pow: "pow", ast.BitAnd: "and",
           ast.BitOr: "or", ast.BitXor: "xor", ast.MatMult: "matmul"}


def rpow(it, base, expo):
    """real power as an uninterpreted function (axioms from lemmas/axioms are added on demand)"""
    f = z3.Function("rpow", z3.RealSort(), z3.RealSort(), z3.RealSort())
    it.cx.axioms_used.add("rpow")
    return f(base, expo)


def py_floordiv_int(a, b):
    # python floor division on mathematical integers; z3 div is Euclidean (= floor for b > 0)
    return z3.If(b > 0, a / b, (-a) / (-b))


def py_mod_int(a, b):
    return a - b * py_floordiv_int(a, b)


def _num_kind(ka, kb):
    if "real" in (ka, kb):
        return "real"
    return "int"


def sv_binop(it, op, a, b, node):
    ka, kb = kind_of(a), kind_of(b)
    if ka is None or kb is None:
        raise OutOfSubset(f"binary {op.__name__} on {type(a).__name__},{type(b).__name__}", node)
    # strings
    if ka == "str" and kb == "str":
        if op is ast.Add:
            return SV(z3.Concat(to_z3(a), to_z3(b)), "str")
        raise OutOfSubset("string operator", node)
    if ka == "str" or kb == "str":
        if op is ast.Mod and ka == "str":
            return SV(it.cx.fresh("fmt", z3.StringSort()), "str")
        raise_(TypeError, "unsupported operand types", node=node)
    if ka.startswith("u:") or kb.startswith("u:") or ka == "fp" or kb == "fp":
        h = it.engine.sort_binop(op, a, b)
        if h is not None:
            return h
        raise OutOfSubset(f"arithmetic on uninterpreted value ({ka},{kb})", node)
    if op in (ast.BitAnd, ast.BitOr, ast.BitXor) and ka == "bool" and kb == "bool":
        x, y = to_z3(a), to_z3(b)
        return SV({ast.BitAnd: z3.And, ast.BitOr: z3.Or, ast.BitXor: z3.Xor}[op](x, y), "bool")
    k = _num_kind(ka, kb)
    if op is ast.Div:
        k = "real"
    x, y = to_z3(a, k), to_z3(b, k)
    cx = it.cx
    if op is ast.Add:
        return SV(x + y, k)
    if op is ast.Sub:
        return SV(x - y, k)
    if op is ast.Mult:
        return SV(x * y, k)
    if op is ast.Div:
        if cx.branch(y == 0, node):
            raise_(ZeroDivisionError, "division by zero", node=node)
        return SV(x / y, "real")
    if op is ast.FloorDiv:
        if cx.branch(y == 0, node):
            raise_(ZeroDivisionError, "integer division or modulo by zero", node=node)
        if k == "int":
            return SV(py_floordiv_int(x, y), "int")
        return SV(z3.ToReal(z3.ToInt(x / y)), "real")
    if op is ast.Mod:
        if cx.branch(y == 0, node):
            raise_(ZeroDivisionError, "integer division or modulo by zero", node=node)
        if k == "int":
            return SV(py_mod_int(x, y), "int")
        q = z3.ToReal(z3.ToInt(x / y))
        return SV(x - y * q, "real")
    if op is ast.Pow:
        if isinstance(b, int) and not isinstance(b, bool) and 0 <= b <= 8:
            r = to_z3(1, k)
            for _ in range(b):
                r = r * x
            return SV(r, k)
        return SV(rpow(it, to_z3(a, "real"), to_z3(b, "real")), "real")
    raise OutOfSubset(f"operator {op.__name__} on scalars", node)


def binop(it, op, a, b, node=None, inplace=False):
    if not is_sym(a) and not is_sym(b):
        if deep_has_sym(a) or deep_has_sym(b):
            # native containers holding symbolic values: only concatenation / repetition
            if op is ast.Add and type(a) in (tuple, list) and type(a) is type(b):
                return a + b
            if op is ast.Mult and type(a) in (tuple, list) and isinstance(b, int):
                return a * b
            if op is ast.BitOr and isinstance(a, dict) and isinstance(b, dict):
                return {**a, **b}
            raise OutOfSubset(f"operator {op.__name__} on containers of symbolic values", node)
        try:
            f = (_IARITH if inplace else _ARITH)[op]
            return f(a, b)
        except KeyError:
            raise OutOfSubset(f"operator {op.__name__}", node)
        except Exception as e:
            raise SymRaise(ExcValue(type(e), e.args), node)
    # symbolic dispatch: objects with _binop get the first chance
    name = _OPNAME.get(op)
    for x, rev in ((a, False), (b, True)):
        h = getattr(x, "_binop", None)
        if h is not None:
            r = h(it, name, b if not rev else a, rev, node, inplace)
            if r is not NotImplemented:
                return r
    # SymObj of a repo class defining the dunder
    for x, other, rev in ((a, b, False), (b, a, True)):
        if isinstance(x, SymObj):
            dunder = f"__{'r' if rev else ''}{name}__"
            m = inspect.getattr_static(x.cls, dunder, None)
            if m is not None and isinstance(m, types.FunctionType):
                return it.call(m, (x, other), {}, node)
    if isinstance(a, (SV, int, float, bool, str)) and isinstance(b, (SV, int, float, bool, str)):
        return sv_binop(it, op, a, b, node)
    raise OutOfSubset(f"operator {op.__name__} on {type(a).__name__},{type(b).__name__}", node)


def unop(it, op, v, node=None):
    if not is_sym(v):
        try:
            if op is ast.Not:
                return not v
            if op is ast.USub:
                return -v
            if op is ast.UAdd:
                return +v
            if op is ast.Invert:
                return ~v
        except Exception as e:
            raise SymRaise(ExcValue(type(e), e.args), node)
    if op is ast.Not:
        return not truth(it, v, node)
    h = getattr(v, "_unop", None)
    if h is not None:
        return h(it, {ast.USub: "neg", ast.UAdd: "pos", ast.Invert: "invert"}[op], node)
    if isinstance(v, SymObj):
        dunder = {ast.USub: "__neg__", ast.UAdd: "__pos__", ast.Invert: "__invert__"}[op]
        m = inspect.getattr_static(v.cls, dunder, None)
        if m is not None:
            return it.call(m, (v,), {}, node)
    if isinstance(v, SV):
        if op is ast.USub and v.kind in ("int", "real"):
            return SV(-v.e, v.kind)
        if op is ast.UAdd:
            return v
        if op is ast.Invert and v.kind == "bool":
            return SV(z3.Not(v.e), "bool")
        if op is ast.USub and v.kind == "bool":
            return SV(-to_z3(v, "int"), "int")
    raise OutOfSubset(f"unary {op.__name__} on {type(v).__name__}", node)


_CMP = {ast.Eq: operator.eq, ast.NotEq: operator.ne, ast.Lt: operator.lt, ast.LtE: operator.le,
        ast.Gt: operator.gt, ast.GtE: operator.ge}
_CMPNAME = {ast.Eq: "eq", ast.NotEq: "ne", ast.Lt: "lt", ast.LtE: "le", ast.Gt: "gt", ast.GtE: "ge"}


def compare(it, op, a, b, node=None):
    if op is ast.Is or op is ast.IsNot:
        if b is None or a is None:
            r = is_none(it, a if b is None else b)
        elif is_sym(a) or is_sym(b):
            if isinstance(a, SV) and isinstance(b, SV) and a.e.sort() == b.e.sort():
                r = SV(a.e == b.e, "bool")
            else:
                h = getattr(a, "_is", None) or getattr(b, "_is", None)
                if h is not None:
                    r = h(it, b if getattr(a, "_is", None) else a)
                else:
                    r = a is b
        else:
            r = a is b
        if op is ast.IsNot:
            return negate(r)
        return r
    if op is ast.In or op is ast.NotIn:
        r = contains(it, b, a, node)
        if op is ast.NotIn:
            return negate(r)
        return r
    if not is_sym(a) and not is_sym(b):
        if deep_has_sym(a) or deep_has_sym(b):
            return seq_compare(it, op, a, b, node)
        try:
            return _CMP[op](a, b)
        except Exception as e:
            raise SymRaise(ExcValue(type(e), e.args), node)
    name = _CMPNAME[op]
    for x, rev in ((a, False), (b, True)):
        h = getattr(x, "_compare", None)
        if h is not None:
            r = h(it, name, b if not rev else a, rev, node)
            if r is not NotImplemented:
                return r
    for x, other, rev in ((a, b, False), (b, a, True)):
        if isinstance(x, SymObj):
            nm = name if not rev else {"lt": "gt", "gt": "lt", "le": "ge", "ge": "le"}.get(name, name)
            m = inspect.getattr_static(x.cls, f"__{nm}__", None)
            if isinstance(m, types.FunctionType):
                return it.call(m, (x, other), {}, node)
            if name in ("eq", "ne"):
                return (x is other) if name == "eq" else (x is not other)
    return sv_compare(it, op, a, b, node)


def negate(r):
    if isinstance(r, SV):
        return SV(z3.Not(r.e), "bool")
    return not r


def sv_compare(it, op, a, b, node):
    ka, kb = kind_of(a), kind_of(b)
    if a is None or b is None:
        other = b if a is None else a
        r = is_none(it, other)
        if op is ast.Eq:
            return r
        if op is ast.NotEq:
            return negate(r)
        raise_(TypeError, "ordering comparison with None", node=node)
    if ka is None or kb is None:
        if op is ast.Eq:
            return False
        if op is ast.NotEq:
            return True
        raise OutOfSubset(f"comparison of {type(a).__name__} and {type(b).__name__}", node)
    if ka == "str" or kb == "str":
        if ka != kb:
            if op is ast.Eq:
                return False
            if op is ast.NotEq:
                return True
            raise_(TypeError, "ordering str/non-str", node=node)
        x, y = to_z3(a), to_z3(b)
        if op is ast.Eq:
            return SV(x == y, "bool")
        if op is ast.NotEq:
            return SV(x != y, "bool")
        if op is ast.Lt:
            return SV(z3.And(x != y, z3.StrLE(x, y)), "bool") if hasattr(z3, "StrLE") else SV(x < y, "bool")
        if op is ast.LtE:
            return SV(x <= y, "bool")
        if op is ast.Gt:
            return SV(y < x, "bool")
        if op is ast.GtE:
            return SV(y <= x, "bool")
    if ka.startswith("u:") or kb.startswith("u:"):
        if ka != kb:
            if op is ast.Eq:
                return False
            if op is ast.NotEq:
                return True
        x, y = to_z3(a), to_z3(b)
        if op is ast.Eq:
            return SV(x == y, "bool")
        if op is ast.NotEq:
            return SV(x != y, "bool")
        raise OutOfSubset("ordering on uninterpreted values", node)
    if ka == "bool" and kb == "bool" and op in (ast.Eq, ast.NotEq):
        x, y = to_z3(a), to_z3(b)
        return SV(x == y if op is ast.Eq else x != y, "bool")
    k = _num_kind(ka, kb)
    x, y = to_z3(a, k), to_z3(b, k)
    f = {ast.Eq: lambda: x == y, ast.NotEq: lambda: x != y, ast.Lt: lambda: x < y,
         ast.LtE: lambda: x <= y, ast.Gt: lambda: x > y, ast.GtE: lambda: x >= y}[op]
    return SV(f(), "bool")


def seq_compare(it, op, a, b, node):
    """== / != on native tuples/lists that contain symbolic values"""
    if op not in (ast.Eq, ast.NotEq):
        raise OutOfSubset("ordering of containers with symbolic values", node)
    if type(a) is not type(b) and not (isinstance(a, (tuple, list)) and isinstance(b, (tuple, list))):
        return op is ast.NotEq
    if isinstance(a, dict):
        if any(is_sym(k) for k in a) or any(is_sym(k) for k in b):
            raise OutOfSubset("comparison of dicts with symbolic keys", node)
        if set(a) != set(b):
            return op is ast.NotEq
        conj = []
        for k in a:
            r = compare(it, ast.Eq, a[k], b[k], node)
            if isinstance(r, SV):
                conj.append(r.e)
            elif not r:
                return op is ast.NotEq
        e = z3.And(*conj) if conj else z3.BoolVal(True)
        return SV(e if op is ast.Eq else z3.Not(e), "bool")
    if isinstance(a, (tuple, list)):
        if type(a) is not type(b):
            return op is ast.NotEq
        if len(a) != len(b):
            return op is ast.NotEq
        conj = []
        for x, y in zip(a, b):
            r = compare(it, ast.Eq, x, y, node)
            if isinstance(r, SV):
                conj.append(r.e)
            elif not r:
                return op is ast.NotEq
        e = z3.And(*conj) if conj else z3.BoolVal(True)
        return SV(e if op is ast.Eq else z3.Not(e), "bool")
    raise OutOfSubset("comparison of containers with symbolic values", node)


def contains(it, container, item, node=None):
    if isinstance(container, Symbolic):
        h = getattr(container, "_contains", None)
        if h is None:
            if isinstance(container, SymObj):
                m = inspect.getattr_static(container.cls, "__contains__", None)
                if isinstance(m, types.FunctionType):
                    return it.call(m, (container, item), {}, node)
            raise OutOfSubset(f"`in` on {type(container).__name__}", node)
        return h(it, item, node)
    if is_sym(item) or deep_has_sym(container):
        if isinstance(container, dict):
            container = list(container.keys())
        if isinstance(container, (tuple, list, set, frozenset)):
            disj = []
            for x in container:
                r = compare(it, ast.Eq, item, x, node)
                if isinstance(r, SV):
                    disj.append(r.e)
                elif r:
                    return True
            if not disj:
                return False
            return SV(z3.Or(*disj), "bool")
        raise OutOfSubset("`in` with symbolic item", node)
    try:
        return item in container
    except Exception as e:
        raise SymRaise(ExcValue(type(e), e.args), node)


# ---------------------------------------------------------------------------------------------
# attributes


def _class_lookup(it, obj, cls, name, node, after=None):
    mro = cls.__mro__
    if after is not None:
        mro = mro[mro.index(after) + 1:] if after in mro else ()
    for k in mro:
        if name in k.__dict__:
            raw = k.__dict__[name]
            if isinstance(raw, types.FunctionType):
                return BoundMethod(raw, obj, k)
            if isinstance(raw, staticmethod):
                return raw.__func__
            if isinstance(raw, classmethod):
                return BoundMethod(raw.__func__, cls, k)
            if isinstance(raw, property):
                return it.call(raw.fget, (obj,), {}, node)
            if hasattr(raw, "__get__") and not inspect.isclass(raw) and \
                    type(raw).__name__ in ("member_descriptor", "getset_descriptor", "wrapper_descriptor",
                                           "method_descriptor", "cached_property"):
                if type(raw).__name__ == "cached_property":
                    return it.call(raw.func, (obj,), {}, node)
                # builtin slot wrappers (object.__setattr__ ...) -> leave to models
                return BoundMethod(raw, obj, k)
            return raw
    return _MISSING


_MISSING = object()


def getattr_(it, obj, name, node=None):
    if isinstance(obj, SymObj):
        if name in obj.f:
            return obj.f[name]
        if name == "__class__":
            return obj.cls
        if name == "__dict__":
            return obj.f
        r = _class_lookup(it, obj, obj.cls, name, node)
        if r is not _MISSING:
            return r
        ga = getattr(obj, "_getattr_hook", None)
        raise_(AttributeError, f"'{obj.cls.__name__}' object has no attribute '{name}'", node=node)
    if isinstance(obj, SuperProxy):
        target = obj.obj
        if isinstance(target, type):
            # super() inside a classmethod: look the name up in the class's own MRO after the defining class, bound to the class
            mro = target.__mro__
            start = mro.index(obj.after_cls) + 1 if obj.after_cls in mro else 0
            for k in mro[start:]:
                if name in k.__dict__:
                    raw = k.__dict__[name]
                    if isinstance(raw, classmethod):
                        return BoundMethod(raw.__func__, target, owner=k)
                    if isinstance(raw, staticmethod):
                        return raw.__func__
                    return raw
            raise_(AttributeError, f"super object has no attribute '{name}'", node=node)
        cls = target.cls if isinstance(target, SymObj) else type(target)
        r = _class_lookup(it, target, cls, name, node, after=obj.after_cls)
        if r is _MISSING:
            raise_(AttributeError, f"super object has no attribute '{name}'", node=node)
        return r
    if isinstance(obj, ExcValue):
        if name == "args":
            return obj.args
        raise OutOfSubset(f"attribute {name} of exception value", node)
    if isinstance(obj, Symbolic):
        h = getattr(obj, "_getattr", None)
        if h is not None:
            return h(it, name, node)
        for hk in getattr(it.engine, "attr_hooks", ()):
            m = hk(it, obj, name)
            if m is not None:
                return m
        raise OutOfSubset(f"attribute {name} of {type(obj).__name__}", node)
    try:
        return getattr(obj, name)
    except AttributeError as e:
        raise SymRaise(ExcValue(AttributeError, e.args), node)


def setattr_(it, obj, name, v, node=None):
    if isinstance(obj, SymObj):
        import dataclasses
        if dataclasses.is_dataclass(obj.cls) and getattr(obj.cls, "__dataclass_params__").frozen:
            raise_(dataclasses.FrozenInstanceError, f"cannot assign to field '{name}'", node=node)
        raw = inspect.getattr_static(obj.cls, name, None)
        if isinstance(raw, property):
            if raw.fset is None:
                raise_(AttributeError, f"can't set attribute {name}", node=node)
            it.call(raw.fset, (obj, v), {}, node)
            return
        obj.f[name] = v
        it.cx.log_write(("field", id(obj), name))
        return
    if isinstance(obj, Symbolic):
        h = getattr(obj, "_setattr", None)
        if h is not None:
            return h(it, name, v, node)
        raise OutOfSubset(f"attribute store on {type(obj).__name__}", node)
    from .core import Closure
    if isinstance(obj, Closure) and name in ("__name__", "__qualname__", "__doc__"):
        # naming a function object created by the code under execution: metadata only
        try:
            setattr(obj, name, v)
        except Exception:
            pass
        return
    raise OutOfSubset(f"attribute store on native {type(obj).__name__} (shared mutable state)", node)


# ---------------------------------------------------------------------------------------------
# items


def getitem(it, obj, idx, node=None):
    if isinstance(obj, Symbolic):
        h = getattr(obj, "_getitem", None)
        if h is not None:
            return h(it, idx, node)
        if isinstance(obj, SymObj):
            m = inspect.getattr_static(obj.cls, "__getitem__", None)
            if isinstance(m, types.FunctionType):
                return it.call(m, (obj, idx), {}, node)
        raise OutOfSubset(f"subscript of {type(obj).__name__}", node)
    if is_sym(idx) or (isinstance(idx, (tuple, slice)) and deep_has_sym(
            idx if isinstance(idx, tuple) else (idx.start, idx.stop, idx.step))):
        from . import models
        return models.native_container_symbolic_index(it, obj, idx, node)
    try:
        return obj[idx]
    except Exception as e:
        raise SymRaise(ExcValue(type(e), e.args), node)


def setitem(it, obj, idx, v, node=None):
    if isinstance(obj, Symbolic):
        h = getattr(obj, "_setitem", None)
        if h is not None:
            return h(it, idx, v, node)
        if isinstance(obj, SymObj):
            m = inspect.getattr_static(obj.cls, "__setitem__", None)
            if isinstance(m, types.FunctionType):
                return it.call(m, (obj, idx, v), {}, node)
        raise OutOfSubset(f"subscript store on {type(obj).__name__}", node)
    if is_sym(idx):
        raise OutOfSubset("store with symbolic key into native container", node)
    if isinstance(obj, (dict, list)):
        try:
            obj[idx] = v
        except Exception as e:
            raise SymRaise(ExcValue(type(e), e.args), node)
        it.cx.log_write(("native", id(obj), idx if isinstance(idx, (str, int)) else repr(idx)))
        return
    if type(obj).__module__.startswith("pandas.") and not deep_has_sym(v):
        # a concrete pandas object updated with a concrete value: performed natively (as every other pandas operation on the
        # concrete tables of a contract), and logged as a write to that object
        try:
            obj[idx] = v
        except Exception as e:
            raise SymRaise(ExcValue(type(e), e.args), node)
        it.cx.log_write(("native", id(obj), idx if isinstance(idx, (str, int)) else repr(idx)))
        return
    raise OutOfSubset(f"subscript store on native {type(obj).__name__}", node)


def delitem(it, obj, idx, node=None):
    if isinstance(obj, dict) and not is_sym(idx):
        try:
            del obj[idx]
        except Exception as e:
            raise SymRaise(ExcValue(type(e), e.args), node)
        return
    raise OutOfSubset("del item", node)


def unpack(it, v, n, node=None):
    if isinstance(v, Symbolic):
        h = getattr(v, "_unpack", None)
        if h is not None:
            return h(it, n, node)
        raise OutOfSubset(f"unpacking of {type(v).__name__}", node)
    try:
        vals = list(v)
    except Exception as e:
        raise SymRaise(ExcValue(type(e), e.args), node)
    if len(vals) != n:
        raise_(ValueError, f"expected {n} values to unpack, got {len(vals)}", node=node)
    return vals


def native_iter(it, v, node=None):
    if isinstance(v, Symbolic):
        h = getattr(v, "_native_iter", None)
        if h is not None:
            return h(it, node)
        raise OutOfSubset(f"iteration over {type(v).__name__}", node)
    try:
        import itertools
        out = list(itertools.islice(iter(v), NATIVE_ITER_LIMIT + 1))
    except TypeError as e:
        raise SymRaise(ExcValue(TypeError, e.args), node)
    if len(out) > NATIVE_ITER_LIMIT:
        # e.g. itertools.count(): iterables are consumed eagerly by the interpreter, an unbounded one cannot be
        raise OutOfSubset(f"iteration over more than {NATIVE_ITER_LIMIT} native elements (an unbounded or lazy iterator?)", node)
    return out


NATIVE_ITER_LIMIT = 200000


# ---------------------------------------------------------------------------------------------
# f-strings


def fstring(it, parts, node=None):
    if all(isinstance(p, str) or not deep_has_sym(p.value) for p in parts):
        out = []
        for p in parts:
            if isinstance(p, str):
                out.append(p)
                continue
            v = p.value
            if p.conversion == ord("r"):
                v = repr(v)
            elif p.conversion == ord("s"):
                v = str(v)
            elif p.conversion == ord("a"):
                v = ascii(v)
            try:
                out.append(format(v, p.spec or ""))
            except Exception as e:
                raise SymRaise(ExcValue(type(e), e.args), node)
        return "".join(out)
    hook = it.engine.fstring_hook
    if hook is not None:
        r = hook(it, parts, node)
        if r is not None:
            return r
    # z3 strings where every symbolic part is a string; otherwise an opaque message
    zs = []
    ok = True
    for p in parts:
        if isinstance(p, str):
            zs.append(z3.StringVal(p))
        elif isinstance(p.value, SV) and p.value.kind == "str" and not p.spec and p.conversion in (-1, ord("s")):
            zs.append(p.value.e)
        elif not deep_has_sym(p.value):
            zs.append(z3.StringVal(format(p.value, p.spec or "")))
        else:
            ok = False
            break
    if ok:
        return SV(z3.Concat(*zs) if len(zs) > 1 else zs[0], "str")
    return SV(it.cx.fresh("msg", z3.StringSort()), "str")


def ite_merge(it, c, a, b, node=None):
    """If(c, a, b) on interpreter values (scalars; None merges with values of a sort that has a none constant)"""
    def sort_of(v):
        return v.e.sort() if isinstance(v, SV) else None
    sa, sb = sort_of(a), sort_of(b)
    srt = sa if sa is not None else sb
    if a is None and b is None:
        return None
    if a is None or b is None:
        nn = it.engine.none_const(srt) if srt is not None else None
        if nn is None:
            raise OutOfSubset("merging None with a value that has no None representation", node)
        ea = nn if a is None else a.e
        eb = nn if b is None else b.e
        other = a if b is None else b
        return SV(z3.If(c, ea, eb), other.kind)
    ka, kb = kind_of(a), kind_of(b)
    if ka is None or kb is None:
        raise OutOfSubset("merging non-scalar values of an element-dependent conditional", node)
    if ka == kb:
        return SV(z3.If(c, to_z3(a), to_z3(b)), ka)
    k = _num_kind(ka, kb)
    return SV(z3.If(c, to_z3(a, k), to_z3(b, k)), k)
