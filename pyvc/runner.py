"""pyvc.runner -- one job = one (unit, configuration): symbolic execution of the real function,
discharge of its obligations, known-finding regions, replay of counterexamples -- all inside one worker
process (z3 terms never cross process boundaries).  Jobs run in a fork pool on all cores."""
from __future__ import annotations

import fnmatch
import importlib
import multiprocessing as mp
import os
import time
import traceback

import z3

from . import smt
from .core import CheckerError, Obligation

_STATE = {}


def _setup(prop):
    if _STATE.get("prop") == prop:
        return _STATE
    from .engine import Engine
    mod = importlib.import_module(f"contracts.{prop.lower()}")
    eng = Engine()
    hook = getattr(mod, "engine_setup", None)
    if hook:
        hook(eng)
    for s in getattr(mod, "CALLEES", []):
        eng.register(s)
    units = list(getattr(mod, "UNITS", []))
    for s in units:
        if not getattr(s, "context", None):
            eng.register(s)
    _STATE.update(prop=prop, mod=mod, eng=eng, units=units, ctx={})
    return _STATE


def engine_for(st, spec):
    """the engine a unit is verified with: the property's own, or -- for a unit borrowed from another property's contract module
    (`spec.context = "<module>"`, see api.foreign) -- one set up with that module's callee contracts and hooks"""
    ctx = getattr(spec, "context", None) if spec is not None else None
    if not ctx:
        return st["eng"], st["mod"]
    if ctx not in st["ctx"]:
        from .engine import Engine
        mod2 = importlib.import_module(f"contracts.{ctx}")
        eng2 = Engine()
        hook = getattr(mod2, "engine_setup", None)
        if hook:
            hook(eng2)
        for s in list(getattr(mod2, "CALLEES", [])) + list(getattr(mod2, "UNITS", [])):
            if not getattr(s, "context", None):
                eng2.register(s)
        st["ctx"][ctx] = (eng2, mod2)
    eng2, mod2 = st["ctx"][ctx]
    eng2.register(spec)
    return eng2, mod2


def list_jobs(prop):
    st = _setup(prop)
    jobs = []
    for ui, s in enumerate(st["units"]):
        for ci, cfg in enumerate(s.configs()):
            jobs.append((ui, ci))
    if getattr(st["mod"], "LEMMAS", None) is not None:
        jobs.append(("lemmas", 0))
    return jobs


def _consts_of(formulas):
    out = {}
    seen = set()
    stack = list(formulas)
    while stack:
        x = stack.pop()
        i = x.get_id()
        if i in seen:
            continue
        seen.add(i)
        if z3.is_quantifier(x):
            stack.append(x.body())
            continue
        if z3.is_app(x):
            if x.num_args() == 0 and x.decl().kind() == z3.Z3_OP_UNINTERPRETED:
                out[x.decl().name()] = x
            else:
                stack.extend(x.children())
    return out


def region_formula(region, ob):
    consts = _consts_of(list(ob.hyps) + [ob.goal])
    env = {k: v for k, v in consts.items() if k.isidentifier()}
    env.update({"And": z3.And, "Or": z3.Or, "Not": z3.Not, "Implies": z3.Implies, "ToReal": z3.ToReal})
    try:
        return eval(region, {"__builtins__": {}}, env)
    except Exception:
        return None


def match_known(prop, name, full_name, known):
    for kf in known:
        if kf.get("property") != prop or not kf.get("obligation"):
            continue
        pat = kf["obligation"].replace("~", " ")
        if fnmatch.fnmatch(full_name, pat) or fnmatch.fnmatch(name, pat):
            return kf
    return None


def solve(ob, timeout_ms, both, extra_axioms=()):
    """z3 in-process, cvc5 on z3's unknowns (and on everything when `both`)."""
    t0 = time.time()
    s = z3.Solver()
    s.set("timeout", int(timeout_ms))
    for h in ob.hyps:
        s.add(h)
    for a in extra_axioms:
        s.add(a)
    from . import coll
    for a in coll.member_axioms():
        s.add(a)
    if ob.meta.get("sigma_ext"):
        from . import sigma
        # two-run proofs over sums: extensionality instances for corresponding atomic sums (nested: three rounds),
        # then -- if needed -- the quantified hypotheses instantiated by hand at the witnesses (manual E-matching)
        inst = sigma.ext_instances(list(ob.hyps) + [ob.goal], tag="a")
        inst2 = sigma.ext_instances(inst, tag="b") if inst else []
        inst3 = sigma.ext_instances(inst2, tag="c") if inst2 else []
        allinst = inst + inst2 + inst3
        for a in allinst:
            s.add(a)
        # stage 1: purified (products as uninterpreted functions): congruence is all a two-run proof needs
        from . import nra
        ground = sigma.instantiate_foralls(list(ob.hyps), allinst + [ob.goal])
        try:
            pur = nra.purify(list(ob.hyps) + list(extra_axioms) + allinst + ground + [z3.Not(ob.goal)])
            sp = z3.Solver()
            sp.set("timeout", int(timeout_ms) // 2)
            sp.add(*pur)
            if sp.check() == z3.unsat:
                return {"status": "unsat", "solver": "z3-" + z3.get_version_string() + " (products purified: pyvc.nra)",
                        "time": time.time() - t0, "smt2": None}
        except z3.Z3Exception:
            pass
        for a in ground:
            s.add(a)
    if ob.meta.get("purify_first") and not ob.meta.get("sigma_ext"):
        from . import nra
        try:
            pur = nra.purify(list(ob.hyps) + list(extra_axioms) + [z3.Not(ob.goal)])
            sp = z3.Solver()
            sp.set("timeout", int(timeout_ms) // 2)
            sp.add(*pur)
            if sp.check() == z3.unsat:
                return {"status": "unsat", "solver": "z3-" + z3.get_version_string() + " (products purified: pyvc.nra)",
                        "time": time.time() - t0, "smt2": None}
        except z3.Z3Exception:
            pass
    s.add(z3.Not(ob.goal))
    structural = z3.is_false(z3.simplify(ob.goal))
    if structural:
        s.set("timeout", min(int(timeout_ms), 5000))
    try:
        r = s.check()
    except z3.Z3Exception as e:
        r = z3.unknown
    res = {"status": str(r), "solver": "z3-" + z3.get_version_string(), "time": time.time() - t0}
    if structural and r == z3.unknown:
        # the clause is a plain `False` (a structural / ghost check failed) on a path whose branches were each
        # found feasible during symbolic execution: refuted, although no model of the quantified hypotheses is built
        res.update(status="sat", model={}, detail="structural clause false on an explored path; hypotheses: " + s.reason_unknown())
        res["smt2"] = s.to_smt2()
        return res
    if r == z3.sat:
        m = s.model()
        res["model"] = {d.name(): str(m[d])[:300] for d in m.decls()}
        res["z3model"] = m
    elif r == z3.unknown:
        res["detail"] = s.reason_unknown()
        text = s.to_smt2()
        # a universal goal: fresh constants + hand instantiation of the universal hypotheses at them (see ground_at_goal_constants)
        try:
            gi = ground_at_goal_constants(ob.goal, list(ob.hyps))
        except z3.Z3Exception:
            gi = None
        if gi is not None:
            sg = z3.Solver()
            sg.set("timeout", int(timeout_ms))
            sg.add(*ob.hyps)
            sg.add(*extra_axioms)
            for a in coll.member_axioms():
                sg.add(a)
            sg.add(*gi[1])
            sg.add(z3.Not(gi[0]))
            try:
                rg = sg.check()
            except z3.Z3Exception:
                rg = z3.unknown
            if rg == z3.unsat:
                res.update(status="unsat", solver="z3-" + z3.get_version_string() + " (universal hypotheses instantiated at the goal's constants: runner.ground_at_goal_constants)",
                           time=time.time() - t0, smt2=None)
                return res
        # an existential goal: try the candidate witnesses that occur in the obligation itself (sound: see strengthen_exists)
        try:
            strong = strengthen_exists(ob.goal, list(ob.hyps))
        except z3.Z3Exception:
            strong = None
        if strong is not None:
            sw = z3.Solver()
            sw.set("timeout", int(timeout_ms))
            sw.add(*ob.hyps)
            sw.add(*extra_axioms)
            for a in coll.member_axioms():
                sw.add(a)
            sw.add(z3.Not(strong))
            try:
                rw = sw.check()
            except z3.Z3Exception:
                rw = z3.unknown
            if rw == z3.unknown:
                rw2 = smt._solve_cvc5(sw.to_smt2(), timeout_ms)
                if rw2["status"] == "unsat":
                    rw = z3.unsat
            if rw == z3.unsat:
                res.update(status="unsat", solver="z3-" + z3.get_version_string() + " (witnesses from the obligation's own terms: runner.strengthen_exists)",
                           time=time.time() - t0, smt2=None)
                return res
        r2 = smt._solve_cvc5(text, timeout_ms)
        res["cvc5"] = r2["status"]
        if r2["status"] == "unsat":
            res.update(status="unsat", solver=r2["solver"], time=time.time() - t0)
        else:
            # nonlinear real arithmetic: retry a generalised (stronger) obligation, see pyvc.nra
            from . import nra
            try:
                g = nra.generalise(list(ob.hyps) + list(extra_axioms), ob.goal)
            except z3.Z3Exception:
                g = None
            if g is not None:
                s2 = z3.Then("simplify", "propagate-values", "purify-arith", "qfnra-nlsat").solver()
                s2.set("timeout", max(int(timeout_ms), 90000))
                s2.add(*g[0])
                s2.add(z3.Not(g[1]))
                try:
                    r3 = s2.check()
                except z3.Z3Exception:
                    r3 = z3.unknown
                if r3 == z3.unsat:
                    res.update(status="unsat", solver="z3-" + z3.get_version_string() + " (generalised: pyvc.nra)",
                               time=time.time() - t0)
    elif both:
        r2 = smt._solve_cvc5(s.to_smt2(), timeout_ms)
        res["cvc5"] = r2["status"]
        if r2["status"] == "sat":
            res.update(status="unknown", detail="solvers disagree (z3 unsat, cvc5 sat)")
    res["smt2"] = None
    if res["status"] != "unsat":
        res["smt2"] = s.to_smt2()
    return res


# ---------------------------------------------------------------------------------------------------- existential goals
_WIT = [0]


def _is_ground(t):
    stack, seen = [t], set()
    while stack:
        y = stack.pop()
        if y.get_id() in seen:
            continue
        seen.add(y.get_id())
        if z3.is_var(y) or z3.is_quantifier(y):
            return False
        stack.extend(y.children())
    return True


def _term_size(t):
    n, stack = 0, [t]
    while stack and n < 50:
        y = stack.pop()
        n += 1
        stack.extend(y.children())
    return n


def _ground_terms(exprs, sort):
    """ground applications of uninterpreted functions / constants of the given sort occurring in the expressions"""
    out, seen, stack = {}, set(), list(exprs)
    while stack:
        y = stack.pop()
        if y.get_id() in seen:
            continue
        seen.add(y.get_id())
        if z3.is_quantifier(y):
            stack.append(y.body())
            continue
        if z3.is_app(y):
            if y.sort() == sort and y.decl().kind() == z3.Z3_OP_UNINTERPRETED and _is_ground(y):
                out[y.get_id()] = y
            stack.extend(y.children())
    return list(out.values())


def strengthen_exists(goal, hyps, max_cands=24):
    """A goal that implies the given one, with every positively occurring `exists j. phi(j)` replaced by the disjunction of
    phi(c) over candidate witnesses c -- the ground uninterpreted terms of j's sort that occur in the goal (after its outer
    universal variables were replaced by fresh constants) and in the hypotheses.  Proving the result proves the goal
    (a witness is exhibited; outer `forall`s are proved for fresh constants); failing to prove it says nothing."""
    changed = [False]

    def walk(g, extra):
        if z3.is_quantifier(g):
            n = g.num_vars()
            if g.is_forall():
                _WIT[0] += 1
                cs = [z3.Const(f"wit!{_WIT[0]}!{g.var_name(i)}", g.var_sort(i)) for i in range(n)]
                return walk(z3.substitute_vars(g.body(), *reversed(cs)), extra)
            if g.is_exists() and n == 1:
                sort = g.var_sort(0)
                cands = _ground_terms([g.body()] + extra, sort)
                cands.sort(key=_term_size)
                pool = _ground_terms(hyps, sort)
                pool.sort(key=_term_size)
                ids = {c.get_id() for c in cands}
                cands = (cands + [c for c in pool if c.get_id() not in ids])[:max_cands]
                if not cands:
                    return g
                changed[0] = True
                return z3.Or(*[z3.substitute_vars(g.body(), c) for c in cands])
            return g
        if z3.is_and(g):
            return z3.And(*[walk(c, extra) for c in g.children()])
        if z3.is_implies(g):
            return z3.Implies(g.arg(0), walk(g.arg(1), extra + [g.arg(0)]))
        if z3.is_app(g) and g.decl().kind() == z3.Z3_OP_ITE and g.sort() == z3.BoolSort():
            c = g.arg(0)
            return z3.And(z3.Implies(c, walk(g.arg(1), extra + [c])), z3.Implies(z3.Not(c), walk(g.arg(2), extra + [z3.Not(c)])))
        return g
    out = walk(goal, [goal])
    return out if changed[0] else None


def ground_at_goal_constants(goal, hyps, limit=60):
    """A universally quantified goal is proved for fresh constants; every universally quantified hypothesis whose variables all
    have the sort of one of those constants is additionally instantiated at them by hand (the solver's own instantiation can
    miss them when its preprocessing rewrites the ground goal and the quantified body differently).  Returns (goal', instances)
    or None.  Sound: goal' for fresh constants gives the goal, the instances follow from the hypotheses."""
    if not (z3.is_quantifier(goal) and goal.is_forall()):
        return None
    n = goal.num_vars()
    _WIT[0] += 1
    cs = [z3.Const(f"gk!{_WIT[0]}!{goal.var_name(i)}", goal.var_sort(i)) for i in range(n)]
    g2 = z3.substitute_vars(goal.body(), *reversed(cs))
    by_sort = {}
    for c in cs:
        by_sort.setdefault(c.sort().name(), []).append(c)
    import itertools
    inst = []
    for h in hyps:
        if not (z3.is_quantifier(h) and h.is_forall()):
            continue
        k = h.num_vars()
        pools = [by_sort.get(h.var_sort(i).name()) for i in range(k)]
        if any(p is None for p in pools):
            continue
        for combo in itertools.islice(itertools.product(*pools), 8):
            inst.append(z3.substitute_vars(h.body(), *reversed(combo)))
            if len(inst) >= limit:
                return g2, inst
    return (g2, inst) if inst else None


def _has_quantifier(x):
    stack, seen = [x], set()
    while stack:
        y = stack.pop()
        if y.get_id() in seen:
            continue
        seen.add(y.get_id())
        if z3.is_quantifier(y):
            return True
        stack.extend(y.children())
    return False


def candidate_model(ob, timeout_ms=8000):
    s = z3.Solver()
    s.set("timeout", timeout_ms)
    for h in ob.hyps:
        if not _has_quantifier(h):
            s.add(h)
    ng = z3.Not(ob.goal)
    s.add(ng)
    try:
        if s.check() == z3.sat:
            return s.model()
    except z3.Z3Exception:
        pass
    return None


class JobTimeout(BaseException):
    pass


JOB_WALL_LIMIT = {"quick": 1500, "thorough": 7200}      # seconds per (unit, configuration); far above any job of the unchanged tree


def run_job(arg):
    prop, job, tier, known, want_sample = arg
    t0 = time.time()
    import signal

    def _alarm(signum, frame):
        raise JobTimeout()
    old_handler = None
    try:
        old_handler = signal.signal(signal.SIGALRM, _alarm)
        signal.setitimer(signal.ITIMER_REAL, JOB_WALL_LIMIT.get(tier, 1500))
    except (ValueError, OSError):
        old_handler = None          # not in a main thread: no guard
    try:
        return _run_job(prop, job, tier, known, want_sample, t0)
    except JobTimeout:
        # symbolic execution (or a replay) that does not come back: undecided, never a hang and never a verdict
        st = _setup(prop)
        unit = st["units"][job[0]].target if job[0] != "lemmas" else "lemmas over contracts"
        label = ""
        try:
            spec = st["units"][job[0]]
            label = spec.cfg_label(spec.configs()[job[1]])
        except Exception:
            pass
        return {"job": job, "obligations": [], "unit": unit, "cfg": label, "paths": 0,
                "oos": [f"the job did not finish within {JOB_WALL_LIMIT.get(tier, 1500)} s of wall-clock time (non-terminating symbolic execution of the current source?)"],
                "functions": [], "wall": time.time() - t0, "models_used": [], "vacuous": []}
    except Exception as e:
        return {"job": job, "error": f"{type(e).__name__}: {e}", "trace": traceback.format_exc()[-1500:],
                "obligations": [], "unit": str(job), "cfg": "", "paths": 0, "oos": [], "functions": [],
                "wall": time.time() - t0, "models_used": [], "vacuous": []}
    finally:
        if old_handler is not None:
            signal.setitimer(signal.ITIMER_REAL, 0)
            signal.signal(signal.SIGALRM, old_handler)


def _run_job(prop, job, tier, known, want_sample, t0):
    from . import models, replay as _replay
    st = _setup(prop)
    mod = st["mod"]
    eng, umod = engine_for(st, st["units"][job[0]] if job[0] != "lemmas" else None)
    timeout = 10000 if tier == "quick" else 120000
    both = tier == "thorough"
    axioms = getattr(umod, "extra_axioms", lambda: [])()
    eng.functions = {}
    eng.out_of_subset = []
    eng.vacuous_asserts = []
    if job[0] == "lemmas":
        obs = []
        for name, hyps, goal in mod.LEMMAS():
            ob = Obligation(name, hyps, goal)
            ob.unit = "lemma over contracts"
            s_ = z3.Solver()
            s_.set("timeout", 1500)
            s_.add(*hyps)
            if s_.check() == z3.unsat:
                raise CheckerError(f"vacuous lemma (contradictory hypotheses): {name}")
            obs.append(ob)
        unit, label, paths, oos, spec = "lemmas over contracts", "", 0, [], None
    else:
        spec = st["units"][job[0]]
        cfg = spec.configs()[job[1]]
        obs, d = eng.verify_cfg(spec, cfg)
        for ob in obs:
            ob.unit = spec.target
        unit, label, paths, oos = spec.target, d["cfg"], d["paths"], d["oos"]
    t_symex = time.time() - t0
    out = []
    for i, ob in enumerate(obs):
        res = solve(ob, timeout, both, axioms)
        e = {"name": ob.full_name(), "short": ob.name, "unit": unit, "where": ob.where,
             "status": {"unsat": "discharged", "sat": "refuted"}.get(res["status"], "unknown"),
             "solver": res.get("solver"), "seconds": round(res["time"], 3), "detail": res.get("detail")}
        if e["status"] == "refuted":
            kf = match_known(prop, ob.name, ob.full_name(), known)
            handled = False
            if kf is not None:
                region = kf.get("region")
                if not region:
                    e["status"], e["known"], handled = "refuted-known-finding", kf, True
                else:
                    rf = region_formula(region.replace("~", " "), ob)
                    if rf is None:
                        e["checker_error"] = f"known-finding region {region!r} does not evaluate on this obligation"
                    else:
                        ob2 = Obligation(ob.name, list(ob.hyps) + [z3.Not(rf)], ob.goal)
                        r2 = solve(ob2, timeout, False, axioms)
                        if r2["status"] == "unsat":
                            e["status"], e["known"], handled = "refuted-known-finding", kf, True
                        elif r2["status"] == "sat":
                            res = r2      # a counterexample outside the recorded region: a new violation
                            ob = ob2
                        else:
                            e["status"], e["known"], handled = "refuted-known-finding", kf, True
                            e["outside_region"] = "undecided"
            if not handled:
                e["model"] = {k: v for k, v in res.get("model", {}).items() if "!" not in k}
                rec = None
                try:
                    rp = getattr(spec, "replay", None) if spec is not None else None
                    rec = rp(res.get("z3model"), ob) if rp is not None else None
                    if rec is None:
                        rec = _replay.generic_replay(ob, model=res.get("z3model"))
                except Exception as ex:
                    rec = {"confirmed": False, "note": "replay crashed: " + repr(ex) + traceback.format_exc()[-600:]}
                e["replay"] = rec
                e["confirmed"] = bool(rec and rec.get("confirmed"))
                e["goal"] = str(ob.goal)[:1500]
                e["smt2"] = (res.get("smt2") or "")[:30000]
        elif e["status"] == "unknown":
            e["smt2"] = (res.get("smt2") or "")[:30000]
            rp = getattr(spec, "replay", None) if spec is not None else None
            if rp is not None:
                # no model of the quantified hypotheses within the budget: look for a *candidate* input in the
                # quantifier-free relaxation and believe it only if the contract's native replay confirms it
                cand = candidate_model(ob)
                if cand is not None:
                    try:
                        rec = rp(cand, ob)
                    except Exception as ex:
                        rec = {"confirmed": False, "note": "replay crashed: " + repr(ex) + traceback.format_exc()[-600:]}
                    if rec and rec.get("confirmed"):
                        rec["candidate"] = ("input taken from a model of the obligation's quantifier-free relaxation; "
                                            "it counts because the real code, run natively, violates the statement on it")
                        e.update(status="refuted", confirmed=True, replay=rec, goal=str(ob.goal)[:1500],
                                 model={d.name(): str(cand[d])[:200] for d in cand.decls() if "!" not in d.name()})
        if want_sample and i == 0:
            e["sample_smt2"] = smt.obligation_smt2(ob)[:1500]
        out.append(e)
    return {"job": job, "unit": unit, "cfg": label, "paths": paths, "oos": oos, "obligations": out,
            "functions": list(eng.functions.values()), "wall": round(time.time() - t0, 2),
            "symex_s": round(t_symex, 2), "models_used": sorted(models.USED),
            "vacuous": sorted(set(eng.vacuous_asserts)),
            "doc": ((spec.__doc__ or "").strip().split("\n")[0] if spec is not None else
                    (mod.LEMMAS.__doc__ or "").strip().split("\n")[0])}


def run_all(prop, tier, known, jobs_n=None):
    jobs = list_jobs(prop)
    args = [(prop, j, tier, known, True) for j in jobs]
    n = jobs_n or min(16, os.cpu_count() or 4, max(1, len(args)))
    if n == 1 or len(args) == 1:
        return [run_job(a) for a in args]
    ctx = mp.get_context("fork")
    with ctx.Pool(n) as pool:
        res = list(pool.imap_unordered(run_job, args, chunksize=1))
    order = {tuple(j): k for k, j in enumerate(jobs)}
    res.sort(key=lambda r: order.get(tuple(r["job"]), 1e9))
    return res
