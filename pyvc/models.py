"""pyvc.models -- library models: the assumed contracts of builtins / stdlib functions.

Each model states, in code, what the engine assumes about a dependency.  Models are keyed by the
*real* callable object, so the interpreter finds them through ordinary name resolution in the real
module globals.  Models are trusted but tested (selftest.libmodels compares them with the real
functions on concrete inputs).
"""
from __future__ import annotations

import ast
import builtins
import copy
import inspect
import operator
import types
import warnings

import z3

from .core import (SV, BoundMethod, CheckerError, Closure, ExcValue, OutOfSubset, Symbolic, SymObj,
                   SymRaise, deep_has_sym, is_sym, kind_of, to_z3)
from . import ops

MODELS = {}          # id(callable) -> (callable, model)
WITH_MODELS = {}
METHOD_MODELS = {}   # (type, name) -> model(it, self, *args)
NATIVE_OK = set()
USED = set()         # names of models used in this process (reported as trusted base)


class SymCallable:
    """a python-level callable value produced by a model"""

    def __init__(self, fn, name="<symcallable>"):
        self.fn = fn
        self.name = name

    def __call__(self, it, *args, **kwargs):
        return self.fn(it, *args, **kwargs)


def model(*targets, name=None):
    def deco(fn):
        for t in targets:
            MODELS[id(t)] = (t, fn, name or getattr(t, "__qualname__", getattr(t, "__name__", repr(t))))
        return fn
    return deco


def lookup(f):
    try:
        ent = MODELS.get(id(f))
    except Exception:
        return None
    if ent is not None and ent[0] is f:
        USED.add(ent[2])
        return ent[1]
    if isinstance(f, types.BuiltinMethodType) or isinstance(f, types.MethodType):
        return None
    return None


def lookup_with(f):
    ent = WITH_MODELS.get(id(f))
    if ent is not None and ent[0] is f:
        return ent[1]
    return None


def lookup_method(bound):
    self = bound.__self__
    key = (type(self), bound.__name__)
    m = METHOD_MODELS.get(key)
    if m is not None:
        USED.add(f"{type(self).__name__}.{bound.__name__}")
    return m


def method_model(tp, name):
    def deco(fn):
        METHOD_MODELS[(tp, name)] = fn
        return fn
    return deco


def native_ok(f):
    """may this callable be run natively on fully concrete arguments?"""
    mod = getattr(f, "__module__", None) or ""
    if isinstance(f, types.FunctionType) and mod.startswith("leaspy"):
        return False
    if inspect.isclass(f) and mod.startswith("leaspy"):
        return False
    return True


def sv_method(obj, name):
    return None


# -------------------------------------------------------------------------------------------------
# builtins


@model(builtins.isinstance)
def m_isinstance(it, v, t):
    ts = t if isinstance(t, tuple) else (t,)
    sym = []
    for k in ts:
        r = _isinstance1(it, v, k)
        if isinstance(r, SV):
            sym.append(r.e)
        elif r:
            return True
    if sym:
        return SV(z3.Or(*sym) if len(sym) > 1 else sym[0], "bool")
    return False


def _isinstance1(it, v, k):
    import collections.abc as cabc
    import numbers
    origin = getattr(k, "__origin__", None)
    if origin is not None:
        k = origin
    if isinstance(v, SymObj):
        return inspect.isclass(k) and issubclass(v.cls, k)
    if isinstance(v, ExcValue):
        return inspect.isclass(k) and issubclass(v.cls, k)
    if isinstance(v, SV):
        if v.kind == "bool":
            return k in (bool, int, object, numbers.Number, numbers.Integral, numbers.Real)
        if v.kind == "int":
            return k in (int, object, numbers.Number, numbers.Integral, numbers.Real)
        if v.kind == "real":
            return k in (float, object, numbers.Number, numbers.Real)
        if v.kind == "str":
            return k in (str, object, cabc.Sequence, cabc.Iterable)
        pt = it.engine.python_type_of_sort(v.e.sort())
        if pt is not None:
            return inspect.isclass(k) and issubclass(pt, k)
        return k is object
    if isinstance(v, Symbolic):
        h = getattr(v, "_isinstance", None)
        if h is not None:
            return h(it, k)
        raise OutOfSubset(f"isinstance on {type(v).__name__}")
    return isinstance(v, k)


@model(builtins.len)
def m_len(it, v):
    if isinstance(v, Symbolic):
        h = getattr(v, "_len", None)
        if h is not None:
            return h(it)
        if isinstance(v, SV) and v.kind == "str":
            return SV(z3.Length(v.e), "int")
        if isinstance(v, SymObj):
            m = inspect.getattr_static(v.cls, "__len__", None)
            if isinstance(m, types.FunctionType):
                return it.call(m, (v,), {})
        raise OutOfSubset(f"len of {type(v).__name__}")
    try:
        return len(v)
    except TypeError as e:
        raise SymRaise(ExcValue(TypeError, e.args))


@model(builtins.int)
def m_int(it, v=0, *a):
    if isinstance(v, SV):
        if v.kind == "int":
            return v
        if v.kind == "bool":
            return SV(to_z3(v, "int"), "int")
        if v.kind == "real":
            x = v.e
            return SV(z3.If(x >= 0, z3.ToInt(x), -z3.ToInt(-x)), "int")
        if v.kind == "str":
            raise OutOfSubset("int() of symbolic string")
        raise_type(it, "int() argument")
    if isinstance(v, Symbolic):
        h = getattr(v, "_int", None)
        if h is not None:
            return h(it)
        raise_type(it, "int() argument must be a string or a number")
    try:
        return int(v, *a)
    except Exception as e:
        raise SymRaise(ExcValue(type(e), e.args))


def raise_type(it, msg):
    raise SymRaise(ExcValue(TypeError, (msg,)))


@model(builtins.float)
def m_float(it, v=0.0):
    if isinstance(v, SV):
        if v.kind in ("int", "bool"):
            return SV(to_z3(v, "real"), "real")
        if v.kind == "real":
            return v
        raise OutOfSubset("float() of symbolic non-number")
    if isinstance(v, Symbolic):
        h = getattr(v, "_float", None)
        if h is not None:
            return h(it)
        raise_type(it, "float() argument")
    try:
        return float(v)
    except Exception as e:
        raise SymRaise(ExcValue(type(e), e.args))


@model(builtins.bool)
def m_bool(it, v=False):
    if is_sym(v):
        if isinstance(v, SV) and v.kind == "bool":
            return v
        return ops.truth(it, v)
    return bool(v)


@model(builtins.abs)
def m_abs(it, v):
    if isinstance(v, SV):
        return SV(z3.If(v.e >= 0, v.e, -v.e), v.kind)
    if isinstance(v, Symbolic):
        h = getattr(v, "_abs", None)
        if h is not None:
            return h(it)
        if isinstance(v, SymObj):
            m = inspect.getattr_static(v.cls, "__abs__", None)
            if m is not None:
                return it.call(m, (v,), {})
        raise OutOfSubset("abs")
    return abs(v)


def _minmax(it, is_max, args, kwargs):
    if kwargs:
        if not deep_has_sym(args):
            return (max if is_max else min)(*args, **kwargs)
        raise OutOfSubset("min/max with key on symbolic values")
    if len(args) == 1:
        from .coll import SSeq
        if isinstance(args[0], SSeq) and args[0].ec.sort in (z3.IntSort(), z3.RealSort()):
            # extremum of a sequence of unknown length: a fresh value bounded by every element and attained by one
            seq = args[0]
            cx = it.cx
            if cx.branch(seq.length <= 0):
                raise SymRaise(ExcValue(ValueError, ("max() iterable argument is empty" if is_max else "min() iterable argument is empty",)))
            kind = "int" if seq.ec.sort == z3.IntSort() else "real"
            m = cx.fresh("ext", seq.ec.sort)
            j, w = z3.Int(cx.fresh_name("mj")), z3.Int(cx.fresh_name("mw"))
            cx.assume(z3.ForAll([j], z3.Implies(z3.And(0 <= j, j < seq.length), (seq.at(j) <= m) if is_max else (seq.at(j) >= m))))
            cx.assume(z3.And(0 <= w, w < seq.length, seq.at(w) == m))
            return SV(m, kind)
        args = ops.native_iter(it, args[0])
    if not args:
        raise SymRaise(ExcValue(ValueError, ("empty sequence",)))
    if not deep_has_sym(args):
        return (max if is_max else min)(args)
    best = args[0]
    for x in args[1:]:
        # python: max keeps the first maximal element
        r = ops.compare(it, ast.Gt if is_max else ast.Lt, x, best)
        if isinstance(r, SV):
            kb, kx = kind_of(best), kind_of(x)
            if kb in ("int", "real", "bool") and kx in ("int", "real", "bool"):
                k = "real" if "real" in (kb, kx) else "int"
                if kb != kx and k == "real":
                    # mixed int/float: python returns the original object; keep numeric value
                    pass
                best = SV(z3.If(r.e, to_z3(x, k), to_z3(best, k)), k)
            else:
                best = x if ops.truth(it, r) else best
        elif r:
            best = x
    return best


@model(builtins.max)
def m_max(it, *args, **kwargs):
    return _minmax(it, True, args, kwargs)


@model(builtins.min)
def m_min(it, *args, **kwargs):
    return _minmax(it, False, args, kwargs)


@model(builtins.sum)
def m_sum(it, seq, start=0):
    acc = start
    for x in ops.native_iter(it, seq):
        acc = ops.binop(it, ast.Add, acc, x)
    return acc


@model(builtins.all)
def m_all(it, seq):
    h = getattr(seq, "_all", None)
    if h is not None:
        return h(it)
    for x in ops.native_iter(it, seq):
        if not ops.truth(it, x):
            return False
    return True


@model(builtins.any)
def m_any(it, seq):
    h = getattr(seq, "_any", None)
    if h is not None:
        return h(it)
    for x in ops.native_iter(it, seq):
        if ops.truth(it, x):
            return True
    return False


class SRange(Symbolic):
    """range(lo, hi) with symbolic bounds (step 1)"""

    def __init__(self, lo, hi):
        self.lo = lo
        self.hi = hi

    def _len(self, it):
        lo, hi = to_z3(self.lo, "int"), to_z3(self.hi, "int")
        return SV(z3.If(hi > lo, hi - lo, 0), "int")


@model(builtins.range)
def m_range(it, *args):
    if not deep_has_sym(args):
        try:
            return range(*args)
        except Exception as e:
            raise SymRaise(ExcValue(type(e), e.args))
    if len(args) == 1:
        return SRange(0, args[0])
    if len(args) == 2:
        return SRange(args[0], args[1])
    raise OutOfSubset("range with symbolic step")


@model(builtins.enumerate)
def m_enumerate(it, seq, start=0):
    h = getattr(seq, "_enumerate", None)
    if h is not None:
        return h(it, start)
    return list(enumerate(ops.native_iter(it, seq), start))


@model(builtins.zip)
def m_zip(it, *seqs, strict=False):
    if any(isinstance(s, Symbolic) and getattr(s, "_zip", None) for s in seqs):
        for s in seqs:
            h = getattr(s, "_zip", None)
            if h is not None:
                return h(it, seqs)
    ls = [ops.native_iter(it, s) for s in seqs]
    return list(zip(*ls))


@model(builtins.sorted)
def m_sorted(it, seq, *, key=None, reverse=False):
    h = getattr(seq, "_sorted", None)
    if h is not None:
        return h(it, key, reverse)
    xs = ops.native_iter(it, seq)
    if deep_has_sym(xs) or isinstance(key, (Closure, BoundMethod)):
        raise OutOfSubset("sorted() of symbolic values")
    try:
        return sorted(xs, key=key, reverse=reverse)
    except Exception as e:
        raise SymRaise(ExcValue(type(e), e.args))


@model(builtins.tuple)
def m_tuple(it, seq=()):
    h = getattr(seq, "_to_tuple", None)
    if h is not None:
        return h(it)
    return tuple(ops.native_iter(it, seq))


@model(builtins.list)
def m_list(it, seq=()):
    h = getattr(seq, "_to_list", None)
    if h is not None:
        return h(it)
    return list(ops.native_iter(it, seq))


@model(builtins.set)
def m_set(it, seq=()):
    h = getattr(seq, "_to_set", None)
    if h is not None:
        return h(it)
    xs = ops.native_iter(it, seq)
    if deep_has_sym(xs):
        raise OutOfSubset("set() of symbolic values")
    return set(xs)


@model(builtins.frozenset)
def m_frozenset(it, seq=()):
    h = getattr(seq, "_to_set", None)
    if h is not None:
        return h(it)
    xs = ops.native_iter(it, seq)
    if deep_has_sym(xs):
        raise OutOfSubset("frozenset() of symbolic values")
    return frozenset(xs)


@model(builtins.dict)
def m_dict(it, *args, **kwargs):
    d = {}
    for a in args:
        if isinstance(a, dict):
            d.update(a)
        elif isinstance(a, Symbolic):
            h = getattr(a, "_to_dict", None)
            if h is None:
                raise OutOfSubset("dict() of symbolic mapping")
            if kwargs:
                raise OutOfSubset("dict(symbolic, **kw)")
            return h(it)
        else:
            for k, v in ops.native_iter(it, a):
                d[k] = v
    d.update(kwargs)
    return d


@model(builtins.type)
def m_type(it, v, *rest):
    if rest:
        raise OutOfSubset("3-argument type()")
    if isinstance(v, SymObj):
        return v.cls
    if isinstance(v, ExcValue):
        return v.cls
    if isinstance(v, SV):
        return {"int": int, "real": float, "bool": bool, "str": str}.get(v.kind) or \
            it.engine.python_type_of_sort(v.e.sort()) or object
    if isinstance(v, Symbolic):
        h = getattr(v, "_type", None)
        if h is not None:
            return h(it)
        raise OutOfSubset(f"type() of {type(v).__name__}")
    return type(v)


@model(builtins.str)
def m_str(it, v=""):
    if isinstance(v, SV) and v.kind == "str":
        return v
    if is_sym(v):
        return SV(it.cx.fresh("str", z3.StringSort()), "str")
    return str(v)


@model(builtins.repr)
def m_repr(it, v):
    if is_sym(v):
        return SV(it.cx.fresh("repr", z3.StringSort()), "str")
    return repr(v)


@model(builtins.print)
def m_print(it, *a, **k):
    it.cx.ghost["stdout_writes"] = it.cx.ghost.get("stdout_writes", 0) + 1
    return None


@model(builtins.getattr)
def m_getattr(it, obj, name, *default):
    if is_sym(name):
        raise OutOfSubset("getattr with symbolic name")
    try:
        return ops.getattr_(it, obj, name)
    except SymRaise as r:
        if default and issubclass(r.exc.cls, AttributeError):
            return default[0]
        raise


@model(builtins.hasattr)
def m_hasattr(it, obj, name):
    try:
        ops.getattr_(it, obj, name)
        return True
    except SymRaise as r:
        if issubclass(r.exc.cls, AttributeError):
            return False
        raise


@model(builtins.setattr)
def m_setattr(it, obj, name, v):
    ops.setattr_(it, obj, name, v)


@model(object.__setattr__)
def m_object_setattr(it, obj, name, v):
    if isinstance(obj, SymObj):
        obj.f[name] = v
        it.cx.log_write(("field", id(obj), name))
        return None
    raise OutOfSubset("object.__setattr__ on native object")


@model(builtins.map)
def m_map(it, f, *seqs):
    ls = [ops.native_iter(it, s) for s in seqs]
    return [it.call(f, args, {}) for args in zip(*ls)]


@model(builtins.iter)
def m_iter(it, v):
    return v


@model(builtins.round)
def m_round(it, v, nd=None):
    if isinstance(v, SV) and nd is None and v.kind in ("real", "int"):
        if v.kind == "int":
            return v
        # round half to even (python 3): the integer r with |x - r| <= 1/2, even on ties
        x = v.e
        fl = z3.ToInt(x)
        frac = x - z3.ToReal(fl)
        r = z3.If(frac < z3.RealVal("1/2"), fl, z3.If(frac > z3.RealVal("1/2"), fl + 1, z3.If(fl % 2 == 0, fl, fl + 1)))
        return SV(z3.simplify(r), "int")
    if is_sym(v) or is_sym(nd):
        raise OutOfSubset("round() of symbolic value")
    try:
        return round(v, nd) if nd is not None else round(v)
    except Exception as e:
        raise SymRaise(ExcValue(type(e), e.args))


@model(warnings.warn)
def m_warn(it, message, category=None, stacklevel=1, **kw):
    it.cx.ghost.setdefault("warnings", []).append((message, category))
    return None


@model(copy.deepcopy)
def m_deepcopy(it, v, memo=None):
    return deep_copy_value(it, v, {})


def deep_copy_value(it, v, memo):
    """copy.deepcopy: value-equal object with fresh identities (immutable leaves shared)"""
    if id(v) in memo:
        return memo[id(v)]
    if isinstance(v, SV) or v is None or isinstance(v, (int, float, str, bool, bytes, type, types.FunctionType)):
        return v
    if isinstance(v, dict):
        d = {}
        memo[id(v)] = d
        for k, x in v.items():
            d[k] = deep_copy_value(it, x, memo)
        return d
    if isinstance(v, list):
        l = []
        memo[id(v)] = l
        l.extend(deep_copy_value(it, x, memo) for x in v)
        return l
    if isinstance(v, tuple):
        return tuple(deep_copy_value(it, x, memo) for x in v)
    if isinstance(v, (set, frozenset)):
        return type(v)(v)
    if isinstance(v, SymObj):
        o = SymObj(v.cls, label=v.label + "'")
        memo[id(v)] = o
        for k, x in v.f.items():
            o.f[k] = deep_copy_value(it, x, memo)
        return o
    if isinstance(v, Symbolic):
        h = getattr(v, "_deepcopy", None)
        if h is not None:
            r = h(it, memo)
            memo[id(v)] = r
            return r
        raise OutOfSubset(f"deepcopy of {type(v).__name__}")
    import enum
    if isinstance(v, enum.Enum):
        return v
    try:
        return copy.deepcopy(v)
    except Exception as e:
        raise OutOfSubset(f"deepcopy of native {type(v).__name__}: {e}")


@model(copy.copy)
def m_copy(it, v):
    if isinstance(v, dict):
        return dict(v)
    if isinstance(v, list):
        return list(v)
    if isinstance(v, Symbolic):
        h = getattr(v, "_copy", None)
        if h is not None:
            return h(it)
        raise OutOfSubset("copy.copy of symbolic value")
    return copy.copy(v)


# ---- dict / list methods on native containers holding symbolic values


def native_container_symbolic_index(it, obj, idx, node):
    if isinstance(obj, (tuple, list)) and isinstance(idx, SV) and idx.kind == "int":
        n = len(obj)
        cx = it.cx
        i = idx.e
        if cx.branch(z3.Or(i >= n, i < -n), node):
            ops.raise_(IndexError, "index out of range", node=node)
        # case split over the concrete positions
        for k in range(n):
            if cx.branch(z3.Or(i == k, i == k - n), node):
                return obj[k]
        raise CheckerError("unreachable index split")
    if isinstance(obj, dict) and isinstance(idx, SV):
        cx = it.cx
        for k in obj:
            r = ops.compare(it, ast.Eq, idx, k, node)
            if (isinstance(r, SV) and cx.branch(r.e, node)) or (r is True):
                return obj[k]
        ops.raise_(KeyError, idx, node=node)
    raise OutOfSubset("symbolic index into native container", node)


# `dict.get` etc. are reached through native getattr -> builtin bound method; calling them with
# symbolic *values* inside is fine natively (values are opaque python objects there).
def _native_container_method_ok(f):
    return isinstance(f, types.BuiltinMethodType) and isinstance(
        getattr(f, "__self__", None), (dict, list, tuple, set, frozenset, str))


_orig_native_ok = native_ok


def native_ok(f):  # noqa: F811
    return _orig_native_ok(f)


# -------------------------------------------------------------------------------------------------
# operator module


@model(operator.add)
def m_op_add(it, a, b):
    return ops.binop(it, ast.Add, a, b)


@model(operator.sub)
def m_op_sub(it, a, b):
    return ops.binop(it, ast.Sub, a, b)


@model(operator.mul)
def m_op_mul(it, a, b):
    return ops.binop(it, ast.Mult, a, b)


@model(operator.truediv)
def m_op_truediv(it, a, b):
    return ops.binop(it, ast.Div, a, b)


@model(operator.lt)
def m_op_lt(it, a, b):
    return ops.compare(it, ast.Lt, a, b)


@model(operator.le)
def m_op_le(it, a, b):
    return ops.compare(it, ast.LtE, a, b)


@model(operator.gt)
def m_op_gt(it, a, b):
    return ops.compare(it, ast.Gt, a, b)


@model(operator.ge)
def m_op_ge(it, a, b):
    return ops.compare(it, ast.GtE, a, b)


@model(operator.eq)
def m_op_eq(it, a, b):
    return ops.compare(it, ast.Eq, a, b)


@model(operator.ne)
def m_op_ne(it, a, b):
    return ops.compare(it, ast.NotEq, a, b)


import functools as _functools


@model(_functools.reduce)
def m_reduce(it, function, iterable, *initial):
    xs = ops.native_iter(it, iterable)
    if initial:
        acc = initial[0]
    else:
        if not xs:
            raise SymRaise(ExcValue(TypeError, ("reduce() of empty iterable with no initial value",)))
        acc, xs = xs[0], xs[1:]
    for x in xs:
        acc = it.call(function, (acc, x), {})
    return acc
