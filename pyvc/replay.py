"""pyvc.replay -- replay a solver counterexample on the real code.

The obligation's path kept (a) a deep snapshot of the symbolic inputs before the call, (b) the
symbolic outcome and final heap.  Under the solver's model the inputs become concrete python /
torch values; the *real* function is then called natively (same working tree) and its outcome is
compared with the outcome the engine predicted under the same model.  Agreement means the real
code really reaches the state that violates the contract clause (confirmed); disagreement or an
input that cannot be concretised means `no-failing-input-found`.
"""
from __future__ import annotations

import fractions
import itertools
import math
import traceback

import z3

from .core import SV, ExcValue, SymObj, Symbolic
from .coll import SMap, SSeq


class CannotConcretize(Exception):
    pass


def zval(model, e):
    v = model.eval(e, model_completion=True)
    if z3.is_int_value(v):
        return v.as_long()
    if z3.is_rational_value(v):
        return float(fractions.Fraction(v.numerator_as_long(), v.denominator_as_long()))
    if z3.is_algebraic_value(v):
        return float(v.approx(12).as_fraction())
    if z3.is_true(v):
        return True
    if z3.is_false(v):
        return False
    if z3.is_string_value(v):
        return v.as_string()
    if z3.is_fp_value(v):
        if v.isNaN():
            return float("nan")
        if v.isInf():
            return float("-inf") if v.isNegative() else float("inf")
        return float(fractions.Fraction(v.significand_as_long(), 2 ** (v.sbits() - 1)) *
                     fractions.Fraction(2) ** v.exponent_as_long(False)) * (-1.0 if v.isNegative() else 1.0)
    raise CannotConcretize(f"value {v} of sort {v.sort()}")


def concretize(v, model, memo=None):
    from .tensor import STensor, dim_z3
    memo = {} if memo is None else memo
    if id(v) in memo:
        return memo[id(v)]
    if isinstance(v, SV):
        if v.kind.startswith("u:"):
            raise CannotConcretize(f"uninterpreted value {v}")
        return zval(model, v.e)
    if isinstance(v, SymObj):
        import dataclasses
        obj = object.__new__(v.cls)
        memo[id(v)] = obj
        for k, x in v.f.items():
            object.__setattr__(obj, k, concretize(x, model, memo))
        return obj
    if isinstance(v, STensor):
        import torch
        dims = [zval(model, dim_z3(d)) for d in v.shape_]
        n = 1
        for d in dims:
            n *= max(d, 0)
        if n > 4096:
            raise CannotConcretize("tensor too large")
        flat = []
        for idx in itertools.product(*[range(d) for d in dims]):
            flat.append(zval(model, v.fn(tuple(z3.IntVal(i) for i in idx))))
        dt = {"real": torch.float64, "bool": torch.bool, "int": torch.int64}[v.dtype]
        t = torch.tensor(flat, dtype=dt).reshape(dims)
        if v.dtype == "real":
            t = t.float() if all((x != x) or abs(x) < 1e30 or abs(x) == float("inf") for x in flat) else t
        memo[id(v)] = t
        return t
    if isinstance(v, Symbolic):
        raise CannotConcretize(type(v).__name__)
    if isinstance(v, dict):
        d = {}
        memo[id(v)] = d
        for k, x in v.items():
            d[k] = concretize(x, model, memo)
        return d
    if isinstance(v, list):
        return [concretize(x, model, memo) for x in v]
    if isinstance(v, tuple):
        return tuple(concretize(x, model, memo) for x in v)
    return v


def close(a, b, tol=1e-6):
    try:
        return _close(a, b, tol)
    except Exception:
        return False


def _close(a, b, tol=1e-6):
    import torch
    if hasattr(a, "equals") and hasattr(b, "equals") and type(a).__module__.startswith("pandas"):
        return bool(a.equals(b))
    if isinstance(a, bool) or isinstance(b, bool):
        return bool(a) == bool(b)
    if isinstance(a, (int, float)) and isinstance(b, (int, float)):
        if math.isnan(a) or math.isnan(b):
            return math.isnan(a) and math.isnan(b)
        return abs(a - b) <= tol * max(1.0, abs(a), abs(b))
    if isinstance(a, torch.Tensor) and isinstance(b, torch.Tensor):
        if a.shape != b.shape:
            return False
        return bool(torch.allclose(a.double(), b.double(), rtol=tol, atol=tol, equal_nan=True))
    if isinstance(a, torch.Tensor) and isinstance(b, (int, float)) and a.numel() == 1:
        return close(a.item(), b, tol)
    if isinstance(b, torch.Tensor):
        return close(b, a, tol)
    if type(a) is not type(b) and not (isinstance(a, (tuple, list)) and isinstance(b, (tuple, list))):
        return a == b
    if isinstance(a, (tuple, list)):
        return len(a) == len(b) and all(close(x, y, tol) for x, y in zip(a, b))
    if isinstance(a, dict):
        return a.keys() == b.keys() and all(close(a[k], b[k], tol) for k in a)
    return a == b


def brief(v, depth=0):
    import torch
    if isinstance(v, torch.Tensor):
        return {"tensor": v.tolist(), "dtype": str(v.dtype)}
    if isinstance(v, dict):
        return {str(k): brief(x, depth + 1) for k, x in list(v.items())[:12]}
    if isinstance(v, (list, tuple)):
        return [brief(x, depth + 1) for x in v[:12]]
    if isinstance(v, (int, float, str, bool)) or v is None:
        return v
    if hasattr(v, "__dict__") and depth < 2:
        return {"class": type(v).__name__, "fields": {k: brief(x, depth + 1) for k, x in list(vars(v).items())[:16]}}
    return repr(v)[:200]


def generic_replay(ob, timeout_ms=20000, model=None):
    """returns dict(confirmed, input, observed, predicted, note)"""
    cx = ob.meta.get("cx")
    if cx is None or getattr(cx, "initial", None) is None:
        return None
    if getattr(cx, "applied_specs", None):
        return {"confirmed": False, "note": "unit calls functions through their contracts "
                f"({sorted(set(cx.applied_specs))}); no generic native replay"}
    if model is None:
        s = z3.Solver()
        s.set("timeout", timeout_ms)
        for h in ob.hyps:
            s.add(h)
        s.add(z3.Not(ob.goal))
        if s.check() != z3.sat:
            return {"confirmed": False, "note": "model could not be re-derived in the replay process"}
        model = s.model()
    func = cx.unit.func
    try:
        memo = {}
        args = concretize(cx.initial["args"], model, memo)
        kwargs = concretize(cx.initial["kwargs"], model, memo)
    except CannotConcretize as e:
        return {"confirmed": False, "note": f"input not concretisable: {e}"}
    rec = {"input": {"args": brief(args), "kwargs": brief(kwargs)}}
    # predicted outcome under the model
    out = cx.outcome
    try:
        if out.kind == "raise":
            predicted = ("raise", out.exc.cls.__name__)
        else:
            memo2 = {}
            predicted = ("return", concretize(out.value, model, memo2),
                         concretize(cx.final_args, model, memo2))
    except CannotConcretize as e:
        return {**rec, "confirmed": False, "note": f"predicted outcome not concretisable: {e}"}
    # native run of the real function
    import io, contextlib, warnings as _w
    buf = io.StringIO()
    try:
        with contextlib.redirect_stdout(buf), _w.catch_warnings():
            _w.simplefilter("ignore")
            ret = func(*args, **kwargs)
        observed = ("return", ret, args)
    except Exception as e:  # the real code's behaviour, whatever it is
        observed = ("raise", type(e).__name__, str(e)[:200])
    rec["predicted"] = brief(predicted[:2])
    rec["observed"] = brief(observed[:2] if observed[0] == "return" else observed)
    if predicted[0] != observed[0]:
        rec["confirmed"] = False
        rec["note"] = "engine and CPython disagree on the outcome kind for this input"
        return rec
    if predicted[0] == "raise":
        rec["confirmed"] = predicted[1] == observed[1]
        return rec
    same_ret = close(predicted[1], observed[1])
    same_heap = True
    diffs = []
    for pa, oa in zip(predicted[2], observed[2]):
        if hasattr(oa, "__dict__") and hasattr(pa, "__dict__"):
            for k, pv in vars(pa).items():
                ov = getattr(oa, k, None)
                if hasattr(pv, "__dict__") and not isinstance(pv, (int, float)):
                    continue
                if not close(pv, ov):
                    same_heap = False
                    diffs.append(k)
    rec["final_state"] = brief(observed[2])
    rec["confirmed"] = bool(same_ret and same_heap)
    if not rec["confirmed"]:
        rec["note"] = f"native result differs from the engine's prediction (fields {diffs}, return equal: {same_ret})"
    return rec
