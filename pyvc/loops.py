"""pyvc.loops -- loops and comprehensions over symbolic iterables (cut by invariants / generalised)."""
from __future__ import annotations

import ast

import z3

from .core import (SV, CheckerError, OutOfSubset, PathEnd, PathInfeasible, Symbolic, SymObj,
                   SymRaise, is_sym, to_z3)
from .coll import SMap, SMapView, SSeq, SSet, Codec
from .models import SRange
from . import ops


class LoopSpec:
    """invariant of one loop, keyed by (function qualname, loop ordinal in source order).

    inv(cx, env, k, view) -> list[(name, z3 Bool)]
        k    : z3 Int, number of completed iterations (for `for` loops: position in the sequence)
        view : the LoopView (sequence being iterated: view.length, view.elem_z3(j))
    modifies(cx, env) -> list of heap things the body may write: SMap objects, (SymObj, field) pairs
    havoc_local(cx, name, cur) -> fresh value for a local the body assigns (default: same-sort fresh)
    decreases(cx, env) -> z3 Int term (while loops; proves termination when given)
    """

    def __init__(self, inv, modifies=None, havoc_local=None, decreases=None, name=None, on_entry=None,
                 iter_pre=None, iter_post=None):
        # per-iteration contract: snap = iter_pre(cx, env, k, view) before the body of an arbitrary iteration,
        # iter_post(cx, env, snap, k, view) -> [(name, formula)] proved after it
        self.iter_pre = iter_pre
        self.iter_post = iter_post
        self.on_entry = on_entry      # on_entry(cx, env): snapshot ghost state when the loop is reached
        self.inv = inv
        self.modifies = modifies
        self.havoc_local = havoc_local
        self.decreases = decreases
        self.name = name


class SymbolicComprehension(Exception):
    def __init__(self, iterable, gen):
        self.iterable = iterable
        self.gen = gen


def is_symbolic_iterable(v):
    return isinstance(v, (SSeq, SRange, SMapView, SSet)) or getattr(v, "_symbolic_iterable", False)


class LoopView:
    """uniform view of a symbolic iterable as a sequence of `length` elements"""

    def __init__(self, it, iterable):
        cx = it.cx
        self.iterable = iterable
        if isinstance(iterable, SSeq):
            self.length = iterable.length
            cx.assume(iterable.length >= 0)
            self.elem = lambda j: iterable.ec.wrap(iterable.at(j))
            self.elem_z3 = lambda j: iterable.at(j)
        elif isinstance(iterable, SRange):
            lo, hi = to_z3(iterable.lo, "int"), to_z3(iterable.hi, "int")
            self.length = z3.If(hi > lo, hi - lo, z3.IntVal(0))
            self.elem = lambda j: SV(lo + j, "int")
            self.elem_z3 = lambda j: lo + j
        elif isinstance(iterable, SMapView):
            m = iterable.m
            order = map_order(cx, m)
            self.order = order
            self.length = order.length
            kind = iterable.kind
            self.elem_z3 = lambda j: order.at(j)
            if kind == "keys":
                self.elem = lambda j: m.kc.wrap(order.at(j))
            elif kind == "values":
                self.elem = lambda j: m.vc.wrap(m.at(order.at(j)))
            else:
                self.elem = lambda j: (m.kc.wrap(order.at(j)), m.vc.wrap(m.at(order.at(j))))
        elif getattr(iterable, "_symbolic_iterable", False):
            self.length, self.elem, self.elem_z3 = iterable._loop_view(it)
        else:
            raise OutOfSubset(f"iteration over {type(iterable).__name__}")


def map_order(cx, m: SMap):
    """ghost enumeration of the key set of a dict at this moment (insertion order, unknown):
    a duplicate-free sequence listing exactly the keys."""
    seq = SSeq(cx, m.kc, m.name + ".order")
    i, j = z3.Ints(f"{cx.fresh_name('i')} {cx.fresh_name('j')}")
    k = z3.Const(cx.fresh_name("k"), m.kc.sort)
    cx.assume(seq.length >= 0)
    cx.assume(z3.ForAll([i], z3.Implies(z3.And(0 <= i, i < seq.length), m.has(seq.at(i)))))
    cx.assume(z3.ForAll([i, j], z3.Implies(z3.And(0 <= i, i < j, j < seq.length), seq.at(i) != seq.at(j))))
    idx = z3.Function(cx.fresh_name("idx"), m.kc.sort, z3.IntSort())
    cx.assume(z3.ForAll([k], z3.Implies(m.has(k), z3.And(0 <= idx(k), idx(k) < seq.length, seq.at(idx(k)) == k))))
    return seq


def assigned_names(stmts):
    """names the statements bind in the enclosing function scope (comprehension targets and nested functions have
    their own scope and are skipped)"""
    out = set()

    def walk(n):
        if isinstance(n, (ast.ListComp, ast.SetComp, ast.DictComp, ast.GeneratorExp, ast.Lambda,
                          ast.FunctionDef, ast.AsyncFunctionDef, ast.ClassDef)):
            if isinstance(n, (ast.FunctionDef, ast.AsyncFunctionDef, ast.ClassDef)):
                out.add(n.name)
            else:
                # walrus targets inside a comprehension do leak; plain targets do not
                for m in ast.walk(n):
                    if isinstance(m, ast.NamedExpr) and isinstance(m.target, ast.Name):
                        out.add(m.target.id)
            return
        if isinstance(n, ast.Name) and isinstance(n.ctx, (ast.Store, ast.Del)):
            out.add(n.id)
        for c in ast.iter_child_nodes(n):
            walk(c)
    for s in stmts:
        walk(s)
    return out


def fresh_like(cx, v, base="h"):
    if isinstance(v, SV):
        return SV(cx.fresh(base, v.e.sort()), v.kind)
    if isinstance(v, bool):
        return SV(cx.fresh(base, z3.BoolSort()), "bool")
    if isinstance(v, int):
        return SV(cx.fresh(base, z3.IntSort()), "int")
    if isinstance(v, float):
        return SV(cx.fresh(base, z3.RealSort()), "real")
    h = getattr(v, "_fresh_like", None)
    if h is not None:
        return h(cx, base)
    if isinstance(v, tuple):
        return tuple(fresh_like(cx, x, base) for x in v)
    raise OutOfSubset(f"cannot havoc a value of type {type(v).__name__} (give havoc_local in the loop spec)")


def _havoc(it, fr, spec, body_stmts, target):
    cx = it.cx
    env = fr.env
    names = assigned_names(body_stmts)
    if target is not None:
        names |= assigned_names([ast.Expr(value=target)]) if False else {
            n.id for n in ast.walk(target) if isinstance(n, ast.Name) and isinstance(n.ctx, ast.Store)}
    havocked = set()
    for nm in sorted(names):
        if nm in env:
            cur = env[nm]
            new = None
            if spec.havoc_local is not None:
                new = spec.havoc_local(cx, nm, cur)
            if new is None:
                new = fresh_like(cx, cur, nm)
            env[nm] = new
    if spec.modifies is not None:
        for loc in spec.modifies(cx, env):
            if isinstance(loc, SMap):
                loc.havoc(cx)
                havocked.add(("smap", id(loc), None))
            elif isinstance(loc, tuple) and isinstance(loc[0], SymObj):
                obj, field = loc
                obj.f[field] = fresh_like(cx, obj.f[field], field)
                havocked.add(("field", id(obj), field))
                cx.ghost.setdefault("havocked_fields", {})[(id(obj), field)] = obj.f[field]
            elif isinstance(loc, SSeq):
                loc._havoc(cx)
                havocked.add(("sseq", id(loc), None))
            elif hasattr(loc, "_havoc"):
                loc._havoc(cx)
                havocked.add(("obj", id(loc), None))
            else:
                raise CheckerError(f"bad modifies entry {loc!r}")
    return havocked


def _check_writes(cx, writes, havocked, ordinal, fr):
    for w in writes:
        if w[0] == "local":
            continue
        if w in havocked or (w[0], w[1], None) in havocked:
            continue
        raise CheckerError(f"loop #{ordinal} of {fr.name}: body writes {w} which the loop spec does not list "
                           f"under modifies (frame of the invariant incomplete)")


def symbolic_for(it, s, fr, iterable, ordinal):
    from .interp import _Break, _Continue
    cx = it.cx
    spec = it.engine.loop_spec(fr, ordinal)
    if spec is None:
        raise OutOfSubset(f"loop #{ordinal} of {fr.name} iterates a symbolic collection and has no invariant", s)
    view = LoopView(it, iterable)
    n = view.length
    tag = f"{fr.func.__qualname__}/loop{ordinal}"
    if spec.on_entry is not None:
        spec.on_entry(cx, fr.env)
    for name, f in spec.inv(cx, fr.env, z3.IntVal(0), view):
        cx.prove(f"{tag}.init:{name}", f, where=f"line {s.lineno}")
    havocked = _havoc(it, fr, spec, s.body, s.target)
    mode = cx.choose(["step", "exit"])
    if mode == "step":
        k = z3.Int(cx.fresh_name("iter"))
        cx.assume(z3.And(0 <= k, k < n))
        for name, f in spec.inv(cx, fr.env, k, view):
            cx.assume(f)
        it.assign(s.target, view.elem(k), fr)
        snap = spec.iter_pre(cx, fr.env, k, view) if spec.iter_pre is not None else None
        log = []
        cx.write_logs.append(log)
        try:
            try:
                it.exec_block(s.body, fr)
            except _Continue:
                pass
            except _Break:
                cx.write_logs.remove(log)
                _check_writes(cx, log, havocked, ordinal, fr)
                return  # continue after the loop from the state at `break`
        finally:
            if log in cx.write_logs:
                cx.write_logs.remove(log)
        _check_writes(cx, log, havocked, ordinal, fr)
        if spec.iter_post is not None:
            for name, f in spec.iter_post(cx, fr.env, snap, k, view):
                cx.prove(f"{tag}.iteration:{name}", f, where=f"line {s.lineno}", assume_after=False)
        for name, f in spec.inv(cx, fr.env, k + 1, view):
            cx.prove(f"{tag}.preserved:{name}", f, where=f"line {s.lineno}", assume_after=False)
        raise PathEnd()
    # exit path
    for name, f in spec.inv(cx, fr.env, n, view):
        cx.assume(f)
    it.exec_block(s.orelse, fr)


def symbolic_while(it, s, fr, spec, ordinal):
    from .interp import _Break, _Continue
    cx = it.cx
    tag = f"{fr.func.__qualname__}/loop{ordinal}"
    if spec.on_entry is not None:
        spec.on_entry(cx, fr.env)
    for name, f in spec.inv(cx, fr.env, None, None):
        cx.prove(f"{tag}.init:{name}", f, where=f"line {s.lineno}")
    havocked = _havoc(it, fr, spec, s.body, None)
    for name, f in spec.inv(cx, fr.env, None, None):
        cx.assume(f)
    c = it.eval(s.test, fr)
    if ops.truth(it, c, s.test):
        v0 = spec.decreases(cx, fr.env) if spec.decreases is not None else None
        snap = spec.iter_pre(cx, fr.env, None, None) if spec.iter_pre is not None else None
        log = []
        cx.write_logs.append(log)
        try:
            try:
                it.exec_block(s.body, fr)
            except _Continue:
                pass
            except _Break:
                cx.write_logs.remove(log)
                _check_writes(cx, log, havocked, ordinal, fr)
                return
        finally:
            if log in cx.write_logs:
                cx.write_logs.remove(log)
        _check_writes(cx, log, havocked, ordinal, fr)
        if spec.iter_post is not None:
            for name, f in spec.iter_post(cx, fr.env, snap, None, None):
                cx.prove(f"{tag}.iteration:{name}", f, where=f"line {s.lineno}", assume_after=False)
        for name, f in spec.inv(cx, fr.env, None, None):
            cx.prove(f"{tag}.preserved:{name}", f, where=f"line {s.lineno}", assume_after=False)
        if v0 is not None:
            v1 = spec.decreases(cx, fr.env)
            cx.prove(f"{tag}.variant", z3.And(v0 >= 0, v1 < v0), where=f"line {s.lineno}", assume_after=False)
        raise PathEnd()
    it.exec_block(s.orelse, fr)


class SGen(Symbolic):
    """generator expression over a symbolic iterable: elementwise function, consumed by all/any/tuple"""

    def __init__(self, length, elem_at, cx):
        self.length = length
        self.elem_at = elem_at   # j (z3 Int) -> interpreter value (SV)

    def _all(self, it):
        j = z3.Int(it.cx.fresh_name("j"))
        v = self.elem_at(j)
        return SV(z3.ForAll([j], z3.Implies(z3.And(0 <= j, j < self.length), _as_bool(v))), "bool")

    def _any(self, it):
        j = z3.Int(it.cx.fresh_name("j"))
        v = self.elem_at(j)
        return SV(z3.Exists([j], z3.And(0 <= j, j < self.length, _as_bool(v))), "bool")


def _as_bool(v):
    if isinstance(v, SV):
        if v.kind == "bool":
            return v.e
        if v.kind in ("int", "real"):
            return v.e != 0
    if isinstance(v, bool):
        return z3.BoolVal(v)
    raise OutOfSubset("truth of comprehension element")


def symbolic_comprehension(it, e, fr, sc, kind):
    """{k: f(k, v) for k, v in m.items()}, [f(x) for x in seq], all(p(x) for x in seq) ..."""
    from .interp import Frame, _ChainEnv
    cx = it.cx
    gens = e.generators
    if len(gens) != 1 or gens[0] is not sc.gen:
        raise OutOfSubset("nested comprehension over a symbolic iterable", e)
    g = gens[0]
    view = LoopView(it, sc.iterable)
    j = z3.Int(cx.fresh_name("gj"))
    dom = z3.And(0 <= j, j < view.length)
    sub = Frame(fr.func, _ChainEnv({}, fr.env), fr.globs, fr.self_cls, fr.name)
    sub.path = getattr(fr, "path", None)

    filt = {}

    def thunk():
        it.assign(g.target, view.elem(j), sub)
        conds = [it.eval(c, sub) for c in g.ifs]
        if conds:
            # a filter is supported for {k: f(k, v) for k, v in m.items() if cond(k, v)}: the key set is restricted
            if kind != "dict" or not isinstance(sc.iterable, SMapView):
                raise OutOfSubset("filter in a comprehension over a symbolic iterable", e)
            fs = []
            for c in conds:
                t = ops.truth(it, c) if not isinstance(c, bool) else c
                fs.append(t.e if isinstance(t, SV) else z3.BoolVal(bool(t)))
            filt["cond"] = z3.And(*fs)
        if kind == "dict":
            return it.eval(e.key, sub), it.eval(e.value, sub)
        return it.eval(e.elt, sub)

    res, scope = cx.generic_eval([j], dom, thunk)
    if kind == "dict" and "cond" in filt:
        kk, vv = res
        m = sc.iterable.m
        kz = m.kc.unwrap(kk)
        if not kz.eq(view.elem_z3(j)):
            raise OutOfSubset("dict comprehension whose key is not the iterated element", e)
        vc = _codec_for(it, vv, hint=getattr(sc.iterable, "_value_codec_hint", None) or (m.vc if vv is None else None))
        vz = vc.unwrap(vv)
        key = z3.Const(cx.fresh_name("ck"), m.kc.sort)
        # element j of the ghost enumeration is (key, m[key]): express value and condition as functions of the key
        subst = [(view.elem_z3(j), key)]
        vz_k = z3.substitute(vz, *subst)
        cond_k = z3.substitute(filt["cond"], *subst)
        if mentions_const(vz_k, j) or mentions_const(cond_k, j):
            raise OutOfSubset("filtered comprehension whose value or condition depends on the iteration position", e)
        out = SMap(cx, m.kc, vc, "comp")
        cx.assume(z3.ForAll([key], out.has(key) == z3.And(m.has(key), cond_k)))
        cx.assume(z3.ForAll([key], z3.Implies(out.has(key), out.at(key) == vz_k)))
        return out
    if kind == "dict":
        kk, vv = res
        if isinstance(sc.iterable, SMapView):
            kc = sc.iterable.m.kc
        elif isinstance(sc.iterable, SSeq):
            kc = sc.iterable.ec
        else:
            kc = getattr(sc.iterable, "_key_codec", None)
            if kc is None:
                raise OutOfSubset("dict comprehension over this symbolic iterable", e)
        kz = kc.unwrap(kk)
        if not kz.eq(view.elem_z3(j)):
            raise OutOfSubset("dict comprehension whose key is not the iterated element", e)
        vc = _codec_for(it, vv, hint=getattr(sc.iterable, "_value_codec_hint", None))
        vz = vc.unwrap(vv)
        # value at key k: replace the generic element by k (the value must depend on the element only)
        key = z3.Const(cx.fresh_name("ck"), kc.sort)
        vz_k = z3.substitute(vz, (view.elem_z3(j), key))
        if mentions_const(vz_k, j):
            raise OutOfSubset("comprehension value depends on the iteration position", e)
        out = SMap(cx, kc, vc, "comp")
        jj = z3.Int(cx.fresh_name("cj"))
        if isinstance(sc.iterable, SMapView):
            cx.assume(z3.ForAll([key], out.has(key) == sc.iterable.m.has(key)))
        elif isinstance(sc.iterable, SSeq) and sc.iterable.mem is not None:
            cx.assume(z3.ForAll([key], out.has(key) == sc.iterable.mem(key)))
        elif getattr(sc.iterable, "_mem", None) is not None:
            cx.assume(z3.ForAll([key], out.has(key) == sc.iterable._mem(key)))
        else:
            cx.assume(z3.ForAll([key], out.has(key) == z3.Exists([jj], z3.And(0 <= jj, jj < view.length, view.elem_z3(jj) == key))))
        cx.assume(z3.ForAll([key], z3.Implies(out.has(key), out.at(key) == vz_k)))
        return out
    vc = _codec_for(it, res)
    vz = vc.unwrap(res)
    jj = z3.Int(cx.fresh_name("cj"))
    if kind == "gen":
        return SGen(view.length, lambda q: vc.wrap(z3.substitute(vz, (j, q))), cx)
    if kind == "list":
        out = SSeq(cx, vc, "comp", length=view.length, pytype=list)
        cx.assume(z3.ForAll([jj], z3.Implies(z3.And(0 <= jj, jj < view.length), out.at(jj) == z3.substitute(vz, (j, jj)))))
        return out
    raise OutOfSubset("set comprehension over a symbolic iterable", e)


def mentions_const(e, c):
    from .core import const_names
    return str(c) in const_names(e)


def _codec_for(it, v, hint=None):
    from .coll import INT, REAL, STR, BOOL
    if hint is not None:
        return hint
    if v is None:
        raise OutOfSubset("comprehension producing None without a value codec")
    if isinstance(v, SV):
        if v.kind == "int":
            return INT
        if v.kind == "real":
            return REAL
        if v.kind == "str":
            return STR
        if v.kind == "bool":
            return BOOL
        return Codec(v.e.sort())
    if isinstance(v, list) and v and all(isinstance(x, (SV, int, float)) and not isinstance(x, bool) for x in v):
        from .coll import ListCodec
        return ListCodec(len(v))
    if isinstance(v, bool):
        return BOOL
    if isinstance(v, int):
        return INT
    if isinstance(v, float):
        return REAL
    h = getattr(v, "_codec", None)
    if h is not None:
        return h(it)
    raise OutOfSubset(f"comprehension element of type {type(v).__name__}")
