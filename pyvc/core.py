"""pyvc.core -- symbolic values, path context, obligations.

The verifier executes the *real* function objects of /repo (their source is re-read with
`inspect`/`ast` on every run) over symbolic values.  This module holds the value domain
and the per-path context; `interp.py` holds the AST interpreter; `models.py`/`tensor.py`
the library models; `smt.py` the solver back ends.
"""
from __future__ import annotations

import fractions
import itertools
import z3
from . import watchdog as _watchdog  # noqa: F401  (bounds every solver call in wall-clock time)


class CheckerError(Exception):
    """Machinery problem (never a property violation)."""


class OutOfSubset(CheckerError):
    def __init__(self, msg, node=None, where=None):
        super().__init__(msg)
        self.node = node
        self.where = where


class PathInfeasible(Exception):
    """Current path condition is unsatisfiable: abandon the path."""


class PathEnd(Exception):
    """The path is complete without a function outcome (inductive step of a loop)."""


class GenericScope:
    def __init__(self, consts, domain):
        self.consts = list(consts)
        self.names = {str(c) for c in consts}
        self.domain = domain
        self.forall_facts = []
        self.witness = False
        self.closed = False


_mention_cache = {}


def const_names(e):
    """names of the uninterpreted constants occurring in a z3 expression"""
    out = set()
    seen = set()
    stack = [e]
    while stack:
        x = stack.pop()
        i = x.get_id()
        if i in seen:
            continue
        seen.add(i)
        if z3.is_quantifier(x):
            stack.append(x.body())
            continue
        if z3.is_app(x):
            if x.num_args() == 0 and x.decl().kind() == z3.Z3_OP_UNINTERPRETED:
                out.add(x.decl().name())
            else:
                stack.extend(x.children())
    return out


def mentions(e, names):
    return bool(const_names(e) & set(names))


class Symbolic:
    """Marker base class for every non-native value."""
    __slots__ = ()


# ----------------------------------------------------------------------------------------------
# scalar symbolic values


class SV(Symbolic):
    """A scalar symbolic value: z3 expression + a python-level kind.

    kind in {'int','real','bool','str'} or 'u:<SortName>' for uninterpreted sorts.
    """
    __slots__ = ("e", "kind")

    def __init__(self, e, kind=None):
        self.e = e
        if kind is None:
            s = e.sort()
            if s == z3.IntSort():
                kind = "int"
            elif s == z3.RealSort():
                kind = "real"
            elif s == z3.BoolSort():
                kind = "bool"
            elif s == z3.StringSort():
                kind = "str"
            elif z3.is_fp_sort(s):
                kind = "fp"
            else:
                kind = "u:" + s.name()
        self.kind = kind

    def __repr__(self):
        return f"SV<{self.kind}>({self.e})"

    # guard against accidental native use
    def __bool__(self):
        raise CheckerError(f"native truth test of symbolic value {self!r}")

    def __hash__(self):
        return hash(("SV", self.e.get_id()))

    def __eq__(self, other):  # identity semantics natively; symbolic eq goes through ops
        return self is other


def is_sym(v):
    return isinstance(v, Symbolic)


def deep_has_sym(v, depth=0):
    if isinstance(v, Symbolic):
        return True
    if depth > 4:
        return False
    if isinstance(v, (tuple, list, set, frozenset)):
        return any(deep_has_sym(x, depth + 1) for x in v)
    if isinstance(v, dict):
        return any(deep_has_sym(x, depth + 1) for x in v.values()) or any(
            deep_has_sym(x, depth + 1) for x in v.keys())
    return False


def real_of_float(x: float):
    """Python float literal -> exact rational of its shortest repr (real mode)."""
    if x != x or x in (float("inf"), float("-inf")):
        raise CheckerError("non-finite float literal in real mode")
    return z3.RealVal(str(fractions.Fraction(repr(x))))


def to_z3(v, want=None):
    """native or SV -> z3 expr (numbers / bools / strings)."""
    if isinstance(v, SV):
        e = v.e
        if want == "real" and v.kind == "int":
            return z3.ToReal(e)
        if want == "real" and v.kind == "bool":
            return z3.If(e, z3.RealVal(1), z3.RealVal(0))
        if want == "int" and v.kind == "bool":
            return z3.If(e, z3.IntVal(1), z3.IntVal(0))
        return e
    if isinstance(v, bool):
        if want == "real":
            return z3.RealVal(1 if v else 0)
        if want == "int":
            return z3.IntVal(1 if v else 0)
        return z3.BoolVal(v)
    if isinstance(v, int):
        if want == "real":
            return z3.RealVal(v)
        return z3.IntVal(v)
    if isinstance(v, float):
        return real_of_float(v)
    if isinstance(v, str):
        return z3.StringVal(v)
    if isinstance(v, fractions.Fraction):
        return z3.RealVal(str(v))
    try:
        import numpy as _np
        if isinstance(v, _np.generic):
            return to_z3(v.item(), want)
    except ImportError:
        pass
    raise CheckerError(f"cannot convert {type(v).__name__} {v!r} to z3")


def kind_of(v):
    if isinstance(v, SV):
        return v.kind
    if isinstance(v, bool):
        return "bool"
    if isinstance(v, int):
        return "int"
    if isinstance(v, float):
        return "real"
    if isinstance(v, str):
        return "str"
    return None


# ----------------------------------------------------------------------------------------------
# heap objects


class SymObj(Symbolic):
    """A heap object of a (real) class: fields live in a python dict, identity is the python id.

    Reading a field that no executed statement initialised is an AttributeError path outcome.
    """
    _ids = itertools.count()

    def __init__(self, cls, fields=None, label=None):
        self.cls = cls
        self.f = dict(fields or {})
        self.label = label or f"{getattr(cls, '__name__', cls)}#{next(SymObj._ids)}"

    def __repr__(self):
        return f"<SymObj {self.label} {sorted(self.f)}>"

    def _copy(self, it):
        # copy.copy of an instance without __copy__: a new object whose fields refer to the SAME values
        import inspect
        if inspect.getattr_static(self.cls, "__copy__", None) is not None:
            raise OutOfSubset(f"copy.copy of {self.cls.__name__} (defines __copy__)")
        return SymObj(self.cls, dict(self.f), label=self.label + "~")


class BoundMethod:
    def __init__(self, func, self_obj, owner=None):
        self.func = func
        self.self_obj = self_obj
        self.owner = owner  # class in whose namespace func was found

    def __repr__(self):
        return f"<bound {getattr(self.func, '__qualname__', self.func)} of {self.self_obj!r}>"


class SuperProxy:
    def __init__(self, obj, after_cls):
        self.obj = obj
        self.after_cls = after_cls


class Closure:
    """A nested `def`/lambda evaluated by the interpreter."""

    def __init__(self, node, env, frame_info, name):
        self.node = node
        self.env = env
        self.frame_info = frame_info
        self.__name__ = name
        self.__qualname__ = name


class ExcValue(Symbolic):
    """An exception instance created by interpreted code."""

    def __init__(self, cls, args):
        self.cls = cls
        self.args = args

    def __repr__(self):
        return f"<Exc {self.cls.__name__}>"


class SymRaise(Exception):
    def __init__(self, exc: ExcValue, node=None):
        super().__init__(repr(exc))
        self.exc = exc
        self.node = node


# ----------------------------------------------------------------------------------------------
# obligations and the path context


class Obligation:
    __slots__ = ("name", "hyps", "goal", "where", "path", "cfg", "meta", "decls", "unit")

    def __init__(self, name, hyps, goal, where=None, path="", cfg="", meta=None):
        self.name = name
        self.hyps = list(hyps)
        self.goal = goal
        self.where = where
        self.path = path
        self.cfg = cfg
        self.meta = meta or {}

    def full_name(self):
        s = self.name
        if self.cfg:
            s += f"[{self.cfg}]"
        if self.path:
            s += f"@{self.path}"
        return s


class Ctx:
    """One symbolic execution path."""

    def __init__(self, prefix=(), unit=None, cfg="", timeout_ms=3000, domain=None):
        self.prefix = list(prefix)
        self.taken = []
        self.alternatives = []
        self.pc = []                 # list of z3 Bool (path condition + assumptions)
        self.obligations = []
        self.unit = unit
        self.cfg = cfg
        self._fresh = itertools.count()
        self._solver = z3.Solver()
        self._solver.set("timeout", timeout_ms)
        self.axioms_used = set()
        self.background = []         # axioms added to every obligation of this path
        self.notes = []
        self.call_depth = 0
        self.ghost = {}              # free-form ghost state for specs
        self.domain = domain         # numeric domain (None = reals)
        self.trace_calls = []
        self.n_branch_queries = 0
        self.generic = []
        self.write_logs = []

    # --- names
    def fresh_name(self, base):
        return f"{base}!{next(self._fresh)}"

    def fresh(self, base, sort):
        return z3.Const(self.fresh_name(base), sort)

    def int(self, name):
        return SV(z3.Int(name), "int")

    def real(self, name):
        return SV(z3.Real(name), "real")

    def bool(self, name):
        return SV(z3.Bool(name), "bool")

    def str(self, name):
        return SV(z3.String(name), "str")

    # --- logic
    def add_background(self, *fs):
        for f in fs:
            self.background.append(f)
            self._solver.add(f)

    def assume(self, f):
        if isinstance(f, SV):
            f = f.e
        if isinstance(f, bool):
            if not f:
                raise PathInfeasible()
            return
        f = z3.simplify(f) if not z3.is_quantifier(f) else f
        if z3.is_true(f):
            return
        if z3.is_false(f):
            raise PathInfeasible()
        self.pc.append(f)
        self._solver.add(f)

    def path_id(self):
        return "".join(t if len(t) == 1 else f"<{t}>" for t in self.taken)

    def prove(self, name, goal, where=None, meta=None, assume_after=True):
        if isinstance(goal, SV):
            goal = goal.e
        if isinstance(goal, bool):
            goal = z3.BoolVal(goal)
        meta = dict(meta or {})
        meta["cx"] = self
        ob = Obligation(name, list(self.background) + list(self.pc), goal, where=where,
                        path=self.path_id(), cfg=self.cfg, meta=meta)
        self.obligations.append(ob)
        if assume_after:
            try:
                self.assume(goal)
            except PathInfeasible:
                # goal is literally false: obligation recorded, path continues no further
                raise
        return ob

    def check(self, f):
        """sat / unsat / unknown of pc /\\ f (quick)."""
        self.n_branch_queries += 1
        self._solver.push()
        try:
            self._solver.add(f)
            r = self._solver.check()
        finally:
            self._solver.pop()
        return r

    def _decide(self, options, feasible_fn):
        """take the next decision: replay the prefix, or pick the first feasible option and
        register the other feasible ones as alternatives.  options: list of labels."""
        p = len(self.taken)
        if p < len(self.prefix):
            choice = self.prefix[p]
            if choice not in options:
                raise CheckerError(f"decision replay diverged: {choice} not in {options}")
        else:
            feas = [o for o in options if feasible_fn(o)]
            if not feas:
                raise PathInfeasible()
            choice = feas[0]
            for o in feas[1:]:
                self.alternatives.append(self.taken + [o])
        self.taken.append(choice)
        return choice

    def branch(self, cond, node=None) -> bool:
        """Decide a symbolic condition for this path (re-execution DFS)."""
        if isinstance(cond, SV):
            cond = cond.e
        if isinstance(cond, bool):
            return cond
        c = z3.simplify(cond)
        if z3.is_true(c):
            return True
        if z3.is_false(c):
            return False
        if self.generic and mentions(c, self.generic[-1].names):
            return self._generic_branch(c, node)
        choice = self._decide(["T", "F"], lambda o: self.check(c if o == "T" else z3.Not(c)) != z3.unsat)
        self.assume(c if choice == "T" else z3.Not(c))
        return choice == "T"

    def choose(self, labels):
        return self._decide(list(labels), lambda o: True)

    # --- generic (universally quantified) evaluation scopes, used by symbolic comprehensions
    def _generic_branch(self, c, node):
        sc = self.generic[-1]
        ks = sc.consts
        dom = sc.domain
        allT = z3.ForAll(ks, z3.Implies(dom, c))
        allF = z3.ForAll(ks, z3.Implies(dom, z3.Not(c)))

        def feas(o):
            if sc.witness:
                # once a witness element is fixed only its own branch matters
                if o == "exT":
                    return self.check(c) != z3.unsat
                if o == "exF":
                    return self.check(z3.Not(c)) != z3.unsat
                return False
            if o == "allT":
                return self.check(z3.And(allT, c)) != z3.unsat
            if o == "allF":
                return self.check(z3.And(allF, z3.Not(c))) != z3.unsat
            if o == "exT":
                return self.check(z3.And(c, z3.Not(allT))) != z3.unsat
            return self.check(z3.And(z3.Not(c), z3.Not(allF))) != z3.unsat
        choice = self._decide(["allT", "allF", "exT", "exF"], feas)
        if choice == "allT":
            sc.forall_facts.append(allT)
            self.assume(c)
            return True
        if choice == "allF":
            sc.forall_facts.append(allF)
            self.assume(z3.Not(c))
            return False
        sc.witness = True
        if choice == "exT":
            self.assume(c)
            return True
        self.assume(z3.Not(c))
        return False

    def generic_eval(self, consts, domain, thunk, what="comprehension"):
        """evaluate thunk() for arbitrary `consts` satisfying `domain`.

        Normal completion: facts learnt about the generic element are generalised (forall) and the
        element-specific ones dropped.  An exception escaping leaves the element as an existential
        witness on the path (sound: some element raises)."""
        sc = GenericScope(consts, domain)
        sc.pc_len0 = len(self.pc)
        sc.fresh0 = next(self._fresh)
        self.generic.append(sc)
        self.assume(domain)
        try:
            v = thunk()
        except Exception:
            self.generic.pop()
            raise
        self.generic.pop()
        if sc.witness:
            raise OutOfSubset(f"element-dependent control flow that does not raise inside a symbolic {what}")
        sc.fresh1 = next(self._fresh)
        local = self.pc[sc.pc_len0:]
        del self.pc[sc.pc_len0:]
        self._rebuild_solver()
        for q in sc.forall_facts:
            self.assume(q)
        rest = [f for f in local if not f.eq(domain)]
        if rest:
            body = z3.And(*rest) if len(rest) > 1 else rest[0]
            for nm in const_names(body):
                if "!" in nm and sc.fresh0 < int(nm.rsplit("!", 1)[1]) < sc.fresh1 and nm not in sc.names:
                    raise OutOfSubset(f"fresh value {nm} created per element inside a symbolic {what}")
            self.assume(z3.ForAll(consts, z3.Implies(domain, body)))
        sc.closed = True
        return v, sc

    def _rebuild_solver(self):
        s = z3.Solver()
        s.set("timeout", 3000)
        for f in self.background:
            s.add(f)
        for f in self.pc:
            s.add(f)
        self._solver = s

    # --- write logging (frames)
    def log_write(self, loc):
        for w in self.write_logs:
            w.append(loc)


def explore(run_once, max_paths=4000):
    """Depth-first exploration by re-execution.  run_once(prefix) -> Ctx."""
    work = [[]]
    done = []
    while work:
        if len(done) > max_paths:
            raise CheckerError("too many paths")
        prefix = work.pop()
        cx = run_once(prefix)
        done.append(cx)
        for alt in cx.alternatives:
            work.append(alt)
    return done
