"""pyvc.sigma -- extensionality instances for atomic sums.

For two atomic sums A = S_a(p..., n) and B = S_b(q..., n) occurring in an obligation, the instance
    (forall k. 0 <= k < n  =>  body_a(p, k) = body_b(q, k))  =>  A = B
is a theorem of finite sums.  Instances are generated for pairs whose templates coincide once the run
markers (#1 / #2 suffixes of input names) are erased -- the pairs that two-run (non-interference) proofs need."""
import re

import z3

from . import tensor


def _sigma_apps(formulas):
    out, seen = [], set()
    stack = list(formulas)
    while stack:
        x = stack.pop()
        if x.get_id() in seen:
            continue
        seen.add(x.get_id())
        if z3.is_quantifier(x):
            stack.append(x.body())
            continue
        if z3.is_app(x):
            if x.decl().name() in tensor.SIGMA_DEFS and x.num_args() >= 1:
                out.append(x)
            stack.extend(x.children())
    return out


_KEY_CACHE = {}


def _shape_key(name):
    """template with the run markers erased and nested lifted symbols replaced by their own (recursive) key"""
    if name in _KEY_CACHE:
        return _KEY_CACHE[name]
    ent = tensor.SIGMA_DEFS[name]
    txt = re.sub(r"#[12]", "", str(ent["template"]))
    _KEY_CACHE[name] = ("...",)      # guard against cycles (cannot happen: templates only mention older symbols)
    txt = re.sub(r"Σ\d+", lambda m: "Σ<" + str(hash(_shape_key(m.group(0)))) + ">" if m.group(0) in tensor.SIGMA_DEFS else m.group(0), txt)
    key = (txt, str(ent["sort"]), len(ent["param_sorts"]))
    _KEY_CACHE[name] = key
    return key


def ext_instances(formulas, limit=400, tag=""):
    apps = _sigma_apps(formulas)
    # atomic sums may be nested inside the templates of other sums: close under template bodies
    by_key = {}
    for a in apps:
        if any(z3.is_var(c) for c in a.children()):
            continue     # inside a quantifier: skip (bound variables)
        by_key.setdefault(_shape_key(a.decl().name()), []).append(a)
    out = []
    for key, group in by_key.items():
        for i in range(len(group)):
            for j in range(i + 1, len(group)):
                A, B = group[i], group[j]
                if A.eq(B) or A.decl().name() == B.decl().name():
                    continue     # same lifted symbol: congruence already relates them
                argsA = re.sub(r"#[12]", "", str([str(c) for c in A.children()]))
                argsB = re.sub(r"#[12]", "", str([str(c) for c in B.children()]))
                if argsA != argsB:
                    continue     # two-run proofs relate the *corresponding* sums
                nA, nB = A.arg(A.num_args() - 1), B.arg(B.num_args() - 1)
                if not nA.eq(nB):
                    continue
                # skolemised form of  (forall k in range. bodyA(k) = bodyB(k)) => A = B :
                #   A = B  or  (0 <= sk < n and bodyA(sk) != bodyB(sk))      with a fresh witness sk
                k = z3.Int(f"ext!{tag}{len(out)}")
                bA = tensor.sigma_body(A.decl().name(), A.children(), k)
                bB = tensor.sigma_body(B.decl().name(), B.children(), k)
                out.append(z3.Or(A == B, z3.And(0 <= k, k < nA, bA != bB)))
                if len(out) >= limit:
                    return out
    return out


def _ground_apps(formulas):
    out, seen = {}, set()
    stack = list(formulas)
    while stack:
        x = stack.pop()
        if x.get_id() in seen:
            continue
        seen.add(x.get_id())
        if z3.is_quantifier(x):
            continue
        if z3.is_app(x):
            if x.num_args() > 0 and x.decl().kind() == z3.Z3_OP_UNINTERPRETED:
                out.setdefault(x.decl().name(), []).append(x)
            stack.extend(x.children())
    return out


def instantiate_foralls(hyps, formulas, limit=600):
    """manual E-matching: instantiate each universally quantified hypothesis  forall xs. body  at the argument tuples
    of the ground applications (in `formulas`) of the first uninterpreted application in body that mentions all xs"""
    ground = _ground_apps(formulas)
    out = []
    for h in hyps:
        for q in ([h] if z3.is_quantifier(h) else ([c for c in h.children() if z3.is_quantifier(c)] if z3.is_and(h) else [])):
            if not q.is_forall():
                continue
            nv = q.num_vars()
            body = q.body()
            # find a pattern application
            pat = None
            stack = [body]
            while stack and pat is None:
                x = stack.pop()
                if z3.is_app(x):
                    if x.num_args() > 0 and x.decl().kind() == z3.Z3_OP_UNINTERPRETED:
                        vs = {z3.get_var_index(c) for c in x.children() if z3.is_var(c)}
                        if len(vs) == nv and all(z3.is_var(c) or not _has_var(c) for c in x.children()):
                            pat = x
                            break
                    stack.extend(x.children())
            if pat is None:
                continue
            for g in ground.get(pat.decl().name(), []):
                sub = [None] * nv
                ok = True
                for pc, gc in zip(pat.children(), g.children()):
                    if z3.is_var(pc):
                        i = nv - 1 - z3.get_var_index(pc)
                        if sub[i] is not None and not sub[i].eq(gc):
                            ok = False
                        sub[i] = gc
                    elif not pc.eq(gc):
                        ok = False
                if ok and all(s is not None for s in sub):
                    out.append(z3.substitute_vars(body, *reversed(sub)))
                    if len(out) >= limit:
                        return out
    return out


def _has_var(e):
    stack = [e]
    while stack:
        x = stack.pop()
        if z3.is_var(x):
            return True
        if z3.is_app(x):
            stack.extend(x.children())
    return False
