"""pyvc.smt -- discharge obligations with z3 (python API) and cvc5 (CLI) in a process pool."""
from __future__ import annotations

import multiprocessing as mp
import os
import subprocess
import tempfile
import time

import z3

CVC5 = "/usr/bin/cvc5"


def obligation_smt2(ob, extra_axioms=()):
    s = z3.Solver()
    for h in ob.hyps:
        s.add(h)
    for a in extra_axioms:
        s.add(a)
    s.add(z3.Not(ob.goal))
    return s.to_smt2()


def _solve_z3(text, timeout_ms, want_model=True):
    t0 = time.time()
    ctx = z3.Context()
    s = z3.Solver(ctx=ctx)
    s.set("timeout", int(timeout_ms))
    try:
        s.from_string(text)
        r = s.check()
    except z3.Z3Exception as e:
        return {"status": "error", "solver": "z3", "time": time.time() - t0, "detail": str(e)[:300]}
    out = {"status": str(r), "solver": "z3-" + z3.get_version_string(), "time": time.time() - t0}
    if r == z3.sat and want_model:
        m = s.model()
        model = {}
        for d in m.decls():
            try:
                if d.arity() == 0:
                    model[d.name()] = str(m[d])
                else:
                    model[d.name()] = str(m[d])[:400]
            except Exception:
                pass
        out["model"] = model
    if r == z3.unknown:
        out["detail"] = s.reason_unknown()
    return out


def _solve_cvc5(text, timeout_ms):
    t0 = time.time()
    if not os.path.exists(CVC5):
        return {"status": "unknown", "solver": "cvc5", "time": 0.0, "detail": "cvc5 not found"}
    logic = "(set-logic ALL)\n" if "(lambda" not in text else "(set-logic HO_ALL)\n"
    body = text.replace("(set-info :status unknown)", "")
    with tempfile.NamedTemporaryFile("w", suffix=".smt2", delete=False) as f:
        f.write(logic + body)
        path = f.name
    try:
        p = subprocess.run([CVC5, "--strings-exp", f"--tlimit={int(timeout_ms)}", path],
                           capture_output=True, text=True, timeout=timeout_ms / 1000 + 5)
        ans = (p.stdout.strip().splitlines() or ["unknown"])[0].strip()
        if ans not in ("sat", "unsat", "unknown"):
            ans = "unknown"
        return {"status": ans, "solver": "cvc5-1.0.3", "time": time.time() - t0,
                "detail": (p.stderr or "")[:200]}
    except subprocess.TimeoutExpired:
        return {"status": "unknown", "solver": "cvc5-1.0.3", "time": time.time() - t0, "detail": "timeout"}
    finally:
        try:
            os.unlink(path)
        except OSError:
            pass


def _work(job):
    idx, text, timeout_ms, both = job
    r = _solve_z3(text, timeout_ms)
    if r["status"] in ("unknown", "error"):
        r2 = _solve_cvc5(text, timeout_ms)
        if r2["status"] == "unsat":
            r2["z3"] = r.get("detail")
            r2["time"] += r["time"]
            return idx, r2
        # a cvc5 'sat' has no model we can replay: keep it undecided unless z3 agrees
        r["cvc5"] = r2["status"]
    elif both and r["status"] == "unsat":
        r2 = _solve_cvc5(text, timeout_ms)
        r["cvc5"] = r2["status"]
        if r2["status"] == "sat":
            r["status"] = "unknown"
            r["detail"] = "solvers disagree (z3 unsat, cvc5 sat)"
    return idx, r


def discharge(obligations, timeout_ms=10000, jobs=None, both=False, extra_axioms=()):
    """returns list of result dicts aligned with obligations"""
    texts = [obligation_smt2(ob, extra_axioms) for ob in obligations]
    jobs_n = jobs or min(16, os.cpu_count() or 4)
    work = [(i, t, timeout_ms, both) for i, t in enumerate(texts)]
    results = [None] * len(work)
    if not work:
        return results, texts
    if len(work) <= 2 or jobs_n == 1:
        for j in work:
            i, r = _work(j)
            results[i] = r
    else:
        ctx = mp.get_context("fork")
        with ctx.Pool(min(jobs_n, len(work))) as pool:
            for i, r in pool.imap_unordered(_work, work, chunksize=1):
                results[i] = r
    return results, texts
